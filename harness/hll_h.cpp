// Correspondence harness: hll family (C03 sketches, C04 unions) + coupon tie + table dump.
// Observations are public API only: typed updates, copy / converting constructors, reset, estimates and bounds,
// serialize_updatable images (of an HLL_8 copy = the property's observation point, and of the sketch itself).
#include "common.hpp"
#include "hll.hpp"

using namespace datasketches;
using vh::split;

static std::map<int, std::unique_ptr<hll_sketch>> sks;
static std::map<int, std::unique_ptr<hll_union>> uns;

static uint32_t rd32(const std::vector<uint8_t>& b, size_t off) { uint32_t v; memcpy(&v, b.data() + off, 4); return v; }
static double rdf64(const std::vector<uint8_t>& b, size_t off) { double v; memcpy(&v, b.data() + off, 8); return v; }
static int tt_num(target_hll_type t) { return t == HLL_4 ? 4 : t == HLL_6 ? 6 : 8; }
static target_hll_type tt_of(const std::string& s) {
  if (s == "4") return HLL_4; if (s == "6") return HLL_6; if (s == "8") return HLL_8;
  throw std::runtime_error("bad type");
}

template<typename S>
static void do_update(S& s, const std::string& ty, const std::string& lit) {
  if (ty == "u64") s.update((uint64_t)strtoull(lit.c_str(), nullptr, 10));
  else if (ty == "i64") s.update((int64_t)strtoll(lit.c_str(), nullptr, 10));
  else if (ty == "u32") s.update((uint32_t)strtoull(lit.c_str(), nullptr, 10));
  else if (ty == "i32") s.update((int32_t)strtoll(lit.c_str(), nullptr, 10));
  else if (ty == "u16") s.update((uint16_t)strtoull(lit.c_str(), nullptr, 10));
  else if (ty == "i16") s.update((int16_t)strtoll(lit.c_str(), nullptr, 10));
  else if (ty == "u8") s.update((uint8_t)strtoull(lit.c_str(), nullptr, 10));
  else if (ty == "i8") s.update((int8_t)strtoll(lit.c_str(), nullptr, 10));
  else if (ty == "f64") s.update(vh::f64_of_hex(lit));
  else if (ty == "f32") s.update(vh::f32_of_hex(lit));
  else if (ty == "str") { auto b = vh::bytes_of_hex(lit); s.update(std::string(b.begin(), b.end())); }
  else if (ty == "raw") { auto b = vh::bytes_of_hex(lit); uint8_t dummy = 0; s.update((const void*)(b.empty() ? &dummy : b.data()), b.size()); }
  else throw std::runtime_error("bad type");
}

static std::string short_obs(const hll_sketch& s) {
  std::ostringstream os;
  os << "S " << (int)s.get_lg_config_k() << " " << tt_num(s.get_target_type()) << " "
     << (s.is_empty() ? 1 : 0) << " " << vh::hex_f64(s.get_estimate());
  return os.str();
}

static void put_regs(std::ostringstream& os, const uint8_t* p, size_t n) {
  if (n <= 1024) { for (size_t i = 0; i < n; ++i) os << " " << (int)p[i]; }
  else { std::vector<uint64_t> v(p, p + n); os << " fold " << vh::hex_u64(vh::fold64(v)); }
}

static std::string full_obs(const hll_sketch& s) {
  std::ostringstream os;
  hll_sketch h8(s, HLL_8);
  auto img = h8.serialize_updatable();
  int mode = img[hll_constants::MODE_BYTE] & 3;
  int ooo = (img[hll_constants::FLAGS_BYTE] & hll_constants::OUT_OF_ORDER_FLAG_MASK) ? 1 : 0;
  os << "F " << mode << " " << (int)s.get_lg_config_k() << " " << tt_num(s.get_target_type()) << " "
     << (s.is_empty() ? 1 : 0) << " " << ooo << " "
     << vh::hex_f64(s.get_estimate()) << " " << vh::hex_f64(s.get_composite_estimate());
  for (uint8_t k = 1; k <= 3; ++k) os << " " << vh::hex_f64(s.get_lower_bound(k)) << " " << vh::hex_f64(s.get_upper_bound(k));
  if (mode == 2) {
    size_t k = (size_t)1 << img[hll_constants::LG_K_BYTE];
    os << " R " << (int)img[hll_constants::HLL_CUR_MIN_BYTE] << " " << rd32(img, hll_constants::CUR_MIN_COUNT_INT) << " "
       << vh::hex_f64(rdf64(img, hll_constants::KXQ0_DOUBLE)) << " " << vh::hex_f64(rdf64(img, hll_constants::KXQ1_DOUBLE)) << " "
       << vh::hex_f64(rdf64(img, hll_constants::HIP_ACCUM_DOUBLE));
    put_regs(os, img.data() + hll_constants::HLL_BYTE_ARR_START, k);
  } else {
    size_t start = mode == 0 ? hll_constants::LIST_INT_ARR_START : hll_constants::HASH_SET_INT_ARR_START;
    uint32_t cnt = mode == 0 ? img[hll_constants::LIST_COUNT_BYTE] : rd32(img, hll_constants::HASH_SET_COUNT_INT);
    std::vector<uint32_t> cs;
    for (size_t off = start; off + 4 <= img.size(); off += 4) { uint32_t c = rd32(img, off); if (c != 0) cs.push_back(c); }
    std::sort(cs.begin(), cs.end());
    os << " C " << cnt;
    for (auto c : cs) os << " " << c;
  }
  return os.str();
}

static std::string raw_obs(const hll_sketch& s) {
  std::ostringstream os;
  auto img = s.serialize_updatable();
  int mode = img[hll_constants::MODE_BYTE] & 3;
  if (mode != 2) {
    size_t start = mode == 0 ? hll_constants::LIST_INT_ARR_START : hll_constants::HASH_SET_INT_ARR_START;
    os << "W " << (int)img[hll_constants::LG_ARR_BYTE];
    for (size_t off = start; off + 4 <= img.size(); off += 4) os << " " << rd32(img, off);
    return os.str();
  }
  int lgk = img[hll_constants::LG_K_BYTE];
  int tt = (img[hll_constants::MODE_BYTE] >> 2) & 3;
  size_t nbytes = tt == 0 ? ((size_t)1 << (lgk - 1)) : tt == 1 ? ((((size_t)1 << lgk) * 3) >> 2) + 1 : ((size_t)1 << lgk);
  uint32_t aux_count = rd32(img, hll_constants::AUX_COUNT_INT);
  os << "W " << (int)img[hll_constants::HLL_CUR_MIN_BYTE] << " " << rd32(img, hll_constants::CUR_MIN_COUNT_INT) << " "
     << aux_count << " " << (int)img[hll_constants::LG_ARR_BYTE] << " ";
  const uint8_t* p = img.data() + hll_constants::HLL_BYTE_ARR_START;
  if (nbytes <= 2048) os << vh::hex_of_bytes(p, nbytes);
  else { std::vector<uint64_t> v(p, p + nbytes); os << "fold " << vh::hex_u64(vh::fold64(v)); }
  os << " A";
  std::vector<uint32_t> pairs;
  for (size_t off = hll_constants::HLL_BYTE_ARR_START + nbytes; off + 4 <= img.size(); off += 4) { uint32_t c = rd32(img, off); if (c != 0) pairs.push_back(c); }
  std::sort(pairs.begin(), pairs.end());
  for (auto c : pairs) os << " " << c;
  return os.str();
}

static std::string un_obs(const hll_union& u) {
  std::ostringstream os;
  os << "U " << (int)u.get_lg_config_k() << " " << (u.is_empty() ? 1 : 0);
  return os.str();
}

struct no_such_object {};
static hll_sketch& SK(const std::string& id) { auto it = sks.find(atoi(id.c_str())); if (it == sks.end() || !it->second) throw no_such_object(); return *it->second; }
static hll_union& UN(const std::string& id) { auto it = uns.find(atoi(id.c_str())); if (it == uns.end() || !it->second) throw no_such_object(); return *it->second; }

static std::string step_(const std::vector<std::string>& w);
static std::string step(const std::vector<std::string>& w) {
  try { return step_(w); } catch (const no_such_object&) { return "bad-op"; }
}

static std::string step_(const std::vector<std::string>& w) {
  const std::string& op = w[0];
  if (op == "new") {
    int id = atoi(w[1].c_str());
    sks[id].reset(new hll_sketch((uint8_t)atoi(w[2].c_str()), tt_of(w[3]), w[4] == "1"));
    return short_obs(*sks[id]);
  }
  if (op == "upd") {
    int id = atoi(w[1].c_str());
    auto it = sks.find(id);
    if (it != sks.end() && it->second) { do_update(*it->second, w[2], w[3]); return short_obs(*it->second); }
    auto& u = UN(w[1]);
    do_update(u, w[2], w[3]);
    return un_obs(u);
  }
  if (op == "copy") {
    auto& s = SK(w[1]);
    int nid = atoi(w[2].c_str());
    std::unique_ptr<hll_sketch> n(new hll_sketch(s));
    sks[nid] = std::move(n);
    return short_obs(*sks[nid]);
  }
  if (op == "conv") {
    auto& s = SK(w[1]);
    int nid = atoi(w[2].c_str());
    std::unique_ptr<hll_sketch> n(new hll_sketch(s, tt_of(w[3])));
    sks[nid] = std::move(n);
    return short_obs(*sks[nid]);
  }
  if (op == "reset") { auto& s = SK(w[1]); s.reset(); return short_obs(s); }
  if (op == "obs") return full_obs(SK(w[1]));
  if (op == "raw") return raw_obs(SK(w[1]));
  if (op == "unew") {
    int id = atoi(w[1].c_str());
    uns[id].reset(new hll_union((uint8_t)atoi(w[2].c_str())));
    return un_obs(*uns[id]);
  }
  if (op == "umerge") {
    auto& u = UN(w[1]);
    int sid = atoi(w[2].c_str());
    auto& s = SK(w[2]);
    if (w[3] == "1") { u.update(std::move(s)); sks.erase(sid); }
    else u.update(s);
    return un_obs(u);
  }
  if (op == "ures") {
    auto& u = UN(w[1]);
    int nid = atoi(w[2].c_str());
    std::unique_ptr<hll_sketch> n(new hll_sketch(u.get_result(tt_of(w[3]))));
    sks[nid] = std::move(n);
    return full_obs(*sks[nid]);
  }
  if (op == "uest") {
    auto& u = UN(w[1]);
    const std::string& what = w[2];
    double v;
    if (what == "est") v = u.get_estimate();
    else if (what == "comp") v = u.get_composite_estimate();
    else if (what == "lb1") v = u.get_lower_bound(1); else if (what == "lb2") v = u.get_lower_bound(2);
    else if (what == "lb3") v = u.get_lower_bound(3); else if (what == "ub1") v = u.get_upper_bound(1);
    else if (what == "ub2") v = u.get_upper_bound(2); else v = u.get_upper_bound(3);
    return "E " + vh::hex_f64(v) + " " + un_obs(u);
  }
  if (op == "ureset") { auto& u = UN(w[1]); u.reset(); return un_obs(u); }
  return "bad-op";
}

// coupon tie: the code's hash + canonicalisation + coupon function, observed through a LIST-mode sketch image
static std::string coupon_step(const std::vector<std::string>& w) {
  if (w[0] != "coupon") return "bad-op";
  hll_sketch s(12, HLL_8);
  do_update(s, w[1], w[2]);
  if (s.is_empty()) return "C ignored";
  auto img = s.serialize_updatable();
  return "C " + std::to_string(rd32(img, hll_constants::LIST_INT_ARR_START));
}

template<typename T> static void dump_d(const char* name, const T* p, size_t n) {
  std::cout << name; for (size_t i = 0; i < n; ++i) std::cout << " " << vh::hex_f64((double)p[i]); std::cout << "\n";
}
template<typename T> static void dump_n(const char* name, const T* p, size_t n) {
  std::cout << name; for (size_t i = 0; i < n; ++i) std::cout << " " << (unsigned long long)p[i]; std::cout << "\n";
}

static int dump_tables() {
  namespace hc = hll_constants;
  const double c1[] = {hc::HLL_HIP_RSE_FACTOR}; dump_d("hll_HLL_HIP_RSE_FACTOR", c1, 1);
  const double c2[] = {hc::HLL_NON_HIP_RSE_FACTOR}; dump_d("hll_HLL_NON_HIP_RSE_FACTOR", c2, 1);
  const double c3[] = {hc::COUPON_RSE_FACTOR}; dump_d("hll_COUPON_RSE_FACTOR", c3, 1);
  const double c4[] = {hc::COUPON_RSE}; dump_d("hll_COUPON_RSE", c4, 1);
  const double c5[] = {EULER_MASCHERONI_CONSTANT}; dump_d("hll_EULER", c5, 1);
  dump_n("hll_LG_AUX_ARR_INTS", hc::LG_AUX_ARR_INTS, 27);
  dump_n("hll_yStrides", yStrides, 18);
  dump_d("hll_couponX", xArrComputed, 40);
  dump_d("hll_couponY", yArrComputed, 40);
  dump_d("hll_harmonic", tableOfExactHarmonicNumbers, 25);
  dump_d("hll_HIP_LB", HIP_LB, 27); dump_d("hll_HIP_UB", HIP_UB, 27);
  dump_d("hll_NON_HIP_LB", NON_HIP_LB, 27); dump_d("hll_NON_HIP_UB", NON_HIP_UB, 27);
  for (int i = 0; i < 18; ++i) { std::string n = "hll_compX_" + std::to_string(i); dump_d(n.c_str(), xArray[i], 257); }
  dump_d("hll_invPow2", INVERSE_POWERS_OF_2, 64);
  const unsigned long long n1[] = {hc::KEY_BITS_26, hc::VAL_BITS_6, hc::KEY_MASK_26, hc::VAL_MASK_6, hc::EMPTY, hc::MIN_LOG_K, hc::MAX_LOG_K,
    hc::LG_INIT_LIST_SIZE, hc::LG_INIT_SET_SIZE, hc::RESIZE_NUMER, hc::RESIZE_DENOM, hc::AUX_TOKEN, hc::loNibbleMask, hc::hiNibbleMask};
  dump_n("hll_consts", n1, 14);
  return 0;
}

int main(int argc, char** argv) {
  if (argc > 1 && std::string(argv[1]) == "coupon") return vh::run_loop(coupon_step);
  if (argc > 1 && std::string(argv[1]) == "tables") return dump_tables();
  return vh::run_loop(step);
}

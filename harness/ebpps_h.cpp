// Correspondence harness: EBPPS sampling sketch (C18). Real headers, in-process; every random draw of the
// library is supplied from the op line through the DATASKETCHES_VERIF random-source hook.
//   ebpps_h [u64|str]      item type of the sketch (default u64; `str` = std::string items longer than the SSO buffer)
// Line protocol: see lean/DSModel/Ebpps/Driver.lean.
#include "common.hpp"
#include <sstream>
#include "ebpps_sketch.hpp"

using namespace datasketches;

#ifndef DATASKETCHES_VERIF
#error "the EBPPS harness needs the DATASKETCHES_VERIF random-source hook"
#endif

// draws of the current op line; exhausted -> 0.5 / 0 (the model does the same)
struct LineSource : random_utils::verif_random_source {
  std::vector<double> us; size_t ui = 0;
  std::vector<uint64_t> is; size_t ii = 0;
  bool bit() override { return false; }
  double unit() override { return ui < us.size() ? us[ui++] : 0.5; }
  uint64_t below(uint64_t n) override {
    if (ii >= is.size()) return 0;
    uint64_t q = is[ii++];
    return n == 0 ? q : q % n;
  }
  // parse `u <hex>* i <nat>*` starting at w[pos]
  void load(const std::vector<std::string>& w, size_t pos) {
    us.clear(); is.clear(); ui = ii = 0;
    if (pos >= w.size()) return;
    if (w[pos] != "u") throw std::runtime_error("bad draws");
    size_t j = pos + 1;
    for (; j < w.size() && w[j] != "i"; ++j) us.push_back(vh::f64_of_hex(w[j]));
    for (++j; j < w.size(); ++j) is.push_back(strtoull(w[j].c_str(), nullptr, 10));
  }
};
static LineSource src;

template<typename T> struct Item;
template<> struct Item<uint64_t> {
  static uint64_t of(uint64_t x) { return x; }
  static uint64_t id(const uint64_t& x) { return x; }
};
template<> struct Item<std::string> {
  static std::string of(uint64_t x) { return "item-with-a-heap-allocated-body-" + std::to_string(x); }
  static uint64_t id(const std::string& s) {
    const std::string p = "item-with-a-heap-allocated-body-";
    if (s.compare(0, p.size(), p) != 0) throw std::logic_error("foreign item");
    return strtoull(s.c_str() + p.size(), nullptr, 10);
  }
};

template<typename T>
struct World {
  using sketch = ebpps_sketch<T>;
  std::map<int, std::unique_ptr<sketch>> objs;

  static std::string observe(const sketch& s) {
    std::ostringstream os;
    os << "S " << s.get_k() << " " << s.get_n() << " " << vh::hex_f64(s.get_cumulative_weight()) << " " << vh::hex_f64(s.get_c());
    return os.str();
  }

  std::string step(const std::vector<std::string>& w) {
    const std::string& op = w[0];
    src.load(w, w.size());  // no draws unless the op loads them
    if (op == "new" && w.size() == 3) {
      int id = atoi(w[1].c_str());
      std::unique_ptr<sketch> s(new sketch((uint32_t)strtoul(w[2].c_str(), nullptr, 10)));
      objs[id] = std::move(s);
      return observe(*objs[id]);
    }
    if (op == "upd" && w.size() >= 4) {
      auto it = objs.find(atoi(w[1].c_str()));
      if (it == objs.end()) return "no-object";
      src.load(w, 4);
      const uint64_t item = strtoull(w[2].c_str(), nullptr, 10);
      const double wt = vh::f64_of_hex(w[3]);
      if (item & 1) { T x = Item<T>::of(item); it->second->update(x, wt); }   // lvalue overload
      else it->second->update(Item<T>::of(item), wt);                          // rvalue overload
      return observe(*it->second);
    }
    if (op == "merge" && w.size() >= 4) {
      const int dst = atoi(w[1].c_str()), sr = atoi(w[2].c_str());
      auto a = objs.find(dst); auto b = objs.find(sr);
      if (a == objs.end() || b == objs.end()) return "no-object";
      src.load(w, 4);
      if (w[3] == "rv") {
        if (dst == sr) throw std::runtime_error("self move-merge not expressible");
        a->second->merge(std::move(*b->second));
        objs.erase(sr);
        a = objs.find(dst);
      } else {
        a->second->merge(static_cast<const sketch&>(*b->second));
      }
      return observe(*a->second);
    }
    if (op == "res" && w.size() >= 2) {
      auto it = objs.find(atoi(w[1].c_str()));
      if (it == objs.end()) return "no-object";
      src.load(w, 2);
      std::ostringstream os; os << "R";
      for (const auto& x : it->second->get_result()) os << " " << Item<T>::id(x);
      return os.str();
    }
    if (op == "iter" && w.size() >= 2) {
      auto it = objs.find(atoi(w[1].c_str()));
      if (it == objs.end()) return "no-object";
      src.load(w, 2);
      std::ostringstream os; os << "I";
      const sketch& s = *it->second;
      auto e = s.end();
      for (auto i = s.begin(); i != e; ++i) os << " " << Item<T>::id(*i);
      return os.str();
    }
    if (op == "serde" && w.size() == 3) {
      auto it = objs.find(atoi(w[1].c_str()));
      if (it == objs.end()) return "no-object";
      if (w[2] == "bytes") {
        auto bytes = it->second->serialize();
        // exact-size heap buffer so that a read past the image is an ASan report
        std::unique_ptr<uint8_t[]> buf(new uint8_t[bytes.size()]);
        memcpy(buf.get(), bytes.data(), bytes.size());
        std::unique_ptr<sketch> s(new sketch(sketch::deserialize(buf.get(), bytes.size())));
        it->second = std::move(s);
      } else {
        std::stringstream ss(std::ios::in | std::ios::out | std::ios::binary);
        it->second->serialize(ss);
        std::unique_ptr<sketch> s(new sketch(sketch::deserialize(ss)));
        it->second = std::move(s);
      }
      return observe(*it->second);
    }
    if (op == "reset" && w.size() == 2) {
      auto it = objs.find(atoi(w[1].c_str()));
      if (it == objs.end()) return "no-object";
      it->second->reset();
      return observe(*it->second);
    }
    if (op == "copy" && w.size() == 3) {
      auto it = objs.find(atoi(w[1].c_str()));
      if (it == objs.end()) return "no-object";
      std::unique_ptr<sketch> s(new sketch(*it->second));
      const int dst = atoi(w[2].c_str());
      objs[dst] = std::move(s);
      return observe(*objs[dst]);
    }
    return "bad-op";
  }
};

int main(int argc, char** argv) {
  random_utils::verif_source = &src;
  const std::string ty = argc > 1 ? argv[1] : "u64";
  if (ty == "str") { World<std::string> wd; return vh::run_loop([&](const std::vector<std::string>& w) { return wd.step(w); }); }
  World<uint64_t> wd;
  return vh::run_loop([&](const std::vector<std::string>& w) { return wd.step(w); });
}

// Correspondence harness: density sketch (C20).  Real headers, in-process; one observation line per op.
//
//   new <id> <f32|f64> <kernel 0|1|2> <k> <dim>   kernel 0 = the library's gaussian_kernel<T> (default template argument),
//                                                 1 = user kernel 1/(1+|p-q|^2), 2 = user indicator kernel |p-q|^2 <= 1
//   rnd <seed> | coins <bits> | draws <d...>      the random source shared with the model (installed as random_utils::verif_source):
//                                                 explicit queues first, then a 64-bit LCG; consumption is counted
//   upd <id> <hex coord>*                         update (any number of coordinates: a wrong count must be refused)
//   merge <i> <j> | mergemv <i> <j>               i.merge(j) by const& / by rvalue (j is destroyed afterwards)
//   copy <i> <j>                                  j = copy of i
//   q <id> <hex coord>*                           get_estimate
//   dump <id>                                     all (weight, point) pairs in iteration order
//
// Observation `S n retained est_mode empty L=<levels> sz=<level sizes> it=<run lengths of iterator weights> pf=<fold of the
// iterated points and weights> c=<bits consumed>,<draws consumed>`.  The number of levels is not reachable through the
// getters; it is read from the public serialized image (level sizes follow the preamble); `L=- sz=-` if serialize throws.
// A per-process CPU-time watchdog turns a non-terminating call into the observation `hang`.
#include "common.hpp"
#include "density_sketch.hpp"
#include <sys/time.h>
#include <signal.h>
#include <unistd.h>

using namespace datasketches;

struct Source : random_utils::verif_random_source {
  std::vector<bool> bits; size_t bpos = 0;
  std::vector<uint64_t> draws; size_t dpos = 0;
  uint64_t lcg = 0;
  uint64_t nbits = 0, ndraws = 0;
  uint64_t next() { lcg = lcg * 6364136223846793005ULL + 1442695040888963407ULL; return lcg; }
  bool bit() override {
    ++nbits;
    if (bpos < bits.size()) return bits[bpos++];
    return ((next() >> 33) & 1) == 1;
  }
  double unit() override { return 0.0; }
  uint64_t below(uint64_t n) override {
    ++ndraws;
    if (dpos < draws.size()) return draws[dpos++] % n;
    return (next() >> 11) % n;
  }
};
static Source source;

template<typename T>
struct user_kernel {
  int kind;
  explicit user_kernel(int kind = 1): kind(kind) {}
  T operator()(const std::vector<T>& v1, const std::vector<T>& v2) const {
    T s = 0;
    for (size_t i = 0; i < v1.size(); ++i) { const T d = v1[i] - v2[i]; s += d * d; }
    if (kind == 1) return T(1) / (T(1) + s);
    return s <= T(1) ? T(1) : T(0);
  }
};

template<typename T> struct Bits;
template<> struct Bits<double> { static uint64_t of(double d) { uint64_t u; memcpy(&u, &d, 8); return u; }
                                 static std::string hex(double d) { return vh::hex_f64(d); }
                                 static double parse(const std::string& s) { return vh::f64_of_hex(s); } };
template<> struct Bits<float> { static uint64_t of(float d) { uint32_t u; memcpy(&u, &d, 4); return u; }
                                static std::string hex(float d) { return vh::hex_f32(d); }
                                static float parse(const std::string& s) { return vh::f32_of_hex(s); } };

struct Base {
  virtual ~Base() {}
  virtual std::string observe() const = 0;
  virtual void update(const std::vector<std::string>& w, size_t from) = 0;
  virtual void merge(Base& other, bool mv) = 0;
  virtual std::string query(const std::vector<std::string>& w, size_t from) const = 0;
  virtual std::string dump() const = 0;
  virtual Base* clone() const = 0;
};

template<typename T, typename K>
struct Impl : Base {
  using S = density_sketch<T, K>;
  S sk;
  explicit Impl(S&& s): sk(std::move(s)) {}
  explicit Impl(const S& s): sk(s) {}

  static std::vector<T> coords(const std::vector<std::string>& w, size_t from) {
    std::vector<T> p;
    for (size_t i = from; i < w.size(); ++i) p.push_back(Bits<T>::parse(w[i]));
    return p;
  }

  std::string observe() const override {
    std::ostringstream os;
    os << "S " << sk.get_n() << " " << sk.get_num_retained() << " " << (sk.is_estimation_mode() ? 1 : 0) << " " << (sk.is_empty() ? 1 : 0);
    // level count / sizes from the public serialized image
    std::string lv = " L=- sz=-";
    try {
      auto bytes = sk.serialize();
      if (bytes.size() >= 12) {
        const size_t pre = size_t(bytes[0]) * 4;
        uint32_t dim; memcpy(&dim, bytes.data() + 8, 4);
        std::ostringstream sz; size_t L = 0;
        size_t pos = pre;
        bool ok = true;
        if (sk.is_empty()) { ok = false; }
        while (ok && pos + 4 <= bytes.size()) {
          uint32_t n; memcpy(&n, bytes.data() + pos, 4);
          pos += 4 + size_t(n) * dim * sizeof(T);
          if (pos > bytes.size()) { ok = false; break; }
          sz << (L ? "," : "") << n; ++L;
        }
        if (ok && pos == bytes.size() && L > 0) { std::ostringstream t; t << " L=" << L << " sz=" << sz.str(); lv = t.str(); }
      }
    } catch (const std::exception&) {}
    os << lv;
    // iterator: run lengths of the weights, fold of the points
    std::vector<uint64_t> flat; std::ostringstream it; uint64_t curw = 0, cnt = 0; bool first = true;
    for (auto pw : sk) {
      for (T c : pw.first) flat.push_back(Bits<T>::of(c));
      flat.push_back(pw.second);
      if (cnt > 0 && pw.second != curw) { it << (first ? "" : ",") << curw << "x" << cnt; first = false; cnt = 0; }
      curw = pw.second; ++cnt;
    }
    if (cnt > 0) it << (first ? "" : ",") << curw << "x" << cnt;
    std::string its = it.str();
    os << " it=" << (its.empty() ? "-" : its) << " pf=" << vh::hex_u64(vh::fold64(flat)) << " c=" << source.nbits << "," << source.ndraws;
    return os.str();
  }
  void update(const std::vector<std::string>& w, size_t from) override {
    if ((w.size() + from) % 2 == 0) sk.update(coords(w, from));      // rvalue overload
    else { const std::vector<T> p = coords(w, from); sk.update(p); }  // lvalue overload
  }
  void merge(Base& other, bool mv) override {
    auto* o = dynamic_cast<Impl<T, K>*>(&other);
    if (!o) throw std::invalid_argument("harness: incompatible sketch types");
    // by reference: alternately through a NON-const and a const lvalue (the forwarding-reference merge instantiates differently
    // for the two; neither may touch its source, which the histories go on using)
    static unsigned n_ref = 0;
    if (mv) sk.merge(std::move(o->sk)); else if (++n_ref % 2) sk.merge(o->sk); else sk.merge(static_cast<const S&>(o->sk));
  }
  std::string query(const std::vector<std::string>& w, size_t from) const override {
    const T e = sk.get_estimate(coords(w, from));
    if (std::isnan(e)) return "E nan";
    return "E " + Bits<T>::hex(e);
  }
  std::string dump() const override {
    std::ostringstream os; os << "D"; bool any = false;
    for (auto pw : sk) {
      os << " " << pw.second << ":"; any = true;
      bool f = true;
      for (T c : pw.first) { os << (f ? "" : ",") << Bits<T>::hex(c); f = false; }
      if (f) os << "-";
    }
    if (!any) os << " -";
    return os.str();
  }
  Base* clone() const override { return new Impl<T, K>(sk); }
};

static std::map<int, std::unique_ptr<Base>> objs;

static void on_alarm(int) {
  static const char msg[] = "hang\n";
  std::cout.flush();
  ssize_t r = write(1, msg, sizeof msg - 1); (void)r;
  _exit(0);
}

static std::string step(const std::vector<std::string>& w) {
  const std::string& op = w[0];
  if (op == "new" && w.size() == 6) {
    const int id = atoi(w[1].c_str());
    const int ker = atoi(w[3].c_str());
    const uint16_t k = (uint16_t)strtoul(w[4].c_str(), nullptr, 10);
    const uint32_t dim = (uint32_t)strtoul(w[5].c_str(), nullptr, 10);
    std::unique_ptr<Base> b;
    if (w[2] == "f32") {
      if (ker == 0) b.reset(new Impl<float, gaussian_kernel<float>>(density_sketch<float>(k, dim)));
      else b.reset(new Impl<float, user_kernel<float>>(density_sketch<float, user_kernel<float>>(k, dim, user_kernel<float>(ker))));
    } else {
      if (ker == 0) b.reset(new Impl<double, gaussian_kernel<double>>(density_sketch<double>(k, dim)));
      else b.reset(new Impl<double, user_kernel<double>>(density_sketch<double, user_kernel<double>>(k, dim, user_kernel<double>(ker))));
    }
    objs[id] = std::move(b);
    return objs[id]->observe();
  }
  if (op == "rnd" && w.size() == 2) { source = Source(); source.lcg = strtoull(w[1].c_str(), nullptr, 10); return "ok"; }
  if (op == "coins" && w.size() == 2) {
    if (source.bpos == source.bits.size()) { source.bits.clear(); source.bpos = 0; }
    for (char c : w[1]) source.bits.push_back(c == '1');
    return "ok";
  }
  if (op == "draws") {
    if (source.dpos == source.draws.size()) { source.draws.clear(); source.dpos = 0; }
    for (size_t i = 1; i < w.size(); ++i) source.draws.push_back(strtoull(w[i].c_str(), nullptr, 10));
    return "ok";
  }
  if (op == "upd" && w.size() >= 2) { Base& o = *objs.at(atoi(w[1].c_str())); o.update(w, 2); return o.observe(); }
  if ((op == "merge" || op == "mergemv") && w.size() == 3) {
    const int i = atoi(w[1].c_str()), j = atoi(w[2].c_str());
    Base& a = *objs.at(i); Base& b = *objs.at(j);
    if (&a == &b) throw std::invalid_argument("harness: self-merge is not exercised");
    a.merge(b, op == "mergemv");
    if (op == "mergemv") objs.erase(j);
    return a.observe();
  }
  if (op == "copy" && w.size() == 3) {
    std::unique_ptr<Base> c(objs.at(atoi(w[1].c_str()))->clone());
    const int j = atoi(w[2].c_str());
    objs[j] = std::move(c);
    return objs[j]->observe();
  }
  if (op == "q" && w.size() >= 2) return objs.at(atoi(w[1].c_str()))->query(w, 2);
  if (op == "dump" && w.size() == 2) return objs.at(atoi(w[1].c_str()))->dump();
  return "bad-op";
}

int main() {
  random_utils::verif_source = &source;
  // CPU-time watchdog (robust against machine load): a call that does not return becomes the observation `hang`
  struct sigaction sa; memset(&sa, 0, sizeof sa); sa.sa_handler = on_alarm; sigaction(SIGVTALRM, &sa, nullptr);
  const char* lim = getenv("VH_CPU_LIMIT_S");
  struct itimerval tv; memset(&tv, 0, sizeof tv); tv.it_value.tv_sec = lim ? atoi(lim) : 3; setitimer(ITIMER_VIRTUAL, &tv, nullptr);
  return vh::run_loop(step);
}

// Wire-format harness for the CPC sketch (C09 round trip, C10 layout/baseline, C11 truncation/corruption). Public API only.
//   state ops   : new/upd/updr/copy/unew/uupd/ures (as harness/cpc_h.cpp)
//   ser <id>    : IMG <kind> <hex> | <API content> | ok|FAIL:<checks>      (checks done in C++ alone, see below)
//   load <kind> <hex> : the same line for a recorded image (C10 baseline corpus)
//   fork a b b|s: b := deserialize(serialize(a)) via bytes / stream;   eq a b : EQ 1 | EQ 0 <a> # <b>
//   c11 <id>    : C11 <kind> <hex> <npre> | b=.. | s=.. | t=.. | cb=.. | cs=.. | leak=..
//                 every strict prefix (bytes path from an exact-size heap block; stream path under two stack-fill patterns)
//                 and every preamble byte x 8 replacements on both paths; one forked child per image, re-forked after an abort,
//                 so that a sanitizer abort / timeout / crash is attributed to one case.
//                 verdicts: T throw, A accept same content, a accept other content, S asan, U ubsan, O timeout, C alloc_cap, X crash
#include "common.hpp"
#include "cpc_sketch.hpp"
#include "cpc_union.hpp"
#include <unistd.h>
#include <sys/wait.h>
#include <signal.h>
extern "C" int __sanitizer_install_malloc_and_free_hooks(void (*malloc_hook)(const volatile void*, size_t), void (*free_hook)(const volatile void*));
extern "C" int __lsan_do_recoverable_leak_check();

using namespace datasketches;

struct Obj {
  std::unique_ptr<cpc_sketch> sk;
  std::unique_ptr<cpc_union> un;
  uint64_t seed = DEFAULT_SEED;
};
static std::map<int, Obj> objs;
struct missing_object {};
static Obj& obj_at(const std::string& id) {
  auto it = objs.find(atoi(id.c_str()));
  if (it == objs.end()) throw missing_object();
  return it->second;
}
static cpc_sketch& sk_at(const std::string& id) {
  Obj& o = obj_at(id);
  if (!o.sk) throw missing_object();
  return *o.sk;
}

static std::string observe(const cpc_sketch& s) {
  std::ostringstream os;
  os << "S " << (int)s.get_lg_k() << " " << s.get_num_coupons() << " " << (s.validate() ? 1 : 0) << " " << (s.is_empty() ? 1 : 0)
     << " " << vh::hex_f64(s.get_estimate());
  for (unsigned kappa = 1; kappa <= 3; ++kappa)
    os << " " << vh::hex_f64(s.get_lower_bound(kappa)) << " " << vh::hex_f64(s.get_upper_bound(kappa));
  return os.str();
}

static const char* flavor_name(unsigned lgk, uint64_t c) {
  const uint64_t k = 1ULL << lgk;
  if (c == 0) return "empty";
  if (32 * c < 3 * k) return "sparse";
  if (2 * c < k) return "hybrid";
  if (8 * c < 27 * k) return "pinned";
  return "sliding";
}

static std::string kind_of(const cpc_sketch& s, uint64_t seed, bool merged) {
  std::ostringstream os;
  os << "cpc:" << flavor_name(s.get_lg_k(), s.get_num_coupons()) << ":" << (int)s.get_lg_k() << ":" << seed << ":" << (merged ? "m" : "h");
  return os.str();
}

// ---------------------------------------------------------------------------------------------- allocation watch
static volatile size_t g_max_alloc = 0;
static void malloc_hook(const volatile void*, size_t n) { if (n > g_max_alloc) g_max_alloc = n; }
static void free_hook(const volatile void*) {}
static const size_t ALLOC_CAP = 256u << 20;

static void __attribute__((noinline)) paint_stack(uint8_t v) {
  volatile uint8_t buf[49152];
  for (size_t i = 0; i < sizeof(buf); ++i) buf[i] = v;
}

// ---------------------------------------------------------------------------------------------- ser
static std::string image_line(const std::string& kind, const std::vector<uint8_t>& img, uint64_t seed, const std::string* expect_content) {
  std::vector<std::string> fails;
  std::string content = "?";
  try {
    std::unique_ptr<uint8_t[]> copy(new uint8_t[img.size()]);
    memcpy(copy.get(), img.data(), img.size());
    cpc_sketch viaBytes = cpc_sketch::deserialize(copy.get(), img.size(), seed);
    content = observe(viaBytes);
    // stream reader: image ++ sentinel, position afterwards
    std::string withSentinel((const char*)img.data(), img.size());
    withSentinel += std::string("\xA5\x5A\xA5\x5A\xA5\x5A\xA5\x5A", 8);
    std::istringstream is(withSentinel, std::ios::binary);
    cpc_sketch viaStream = cpc_sketch::deserialize(is, seed);
    if (!is.good() || (size_t)is.tellg() != img.size()) fails.push_back("stream-position");
    if (observe(viaStream) != content) fails.push_back("stream-restore-differs");
    auto re1 = viaBytes.serialize();
    auto re2 = viaStream.serialize();
    if (re1.size() != img.size() || memcmp(re1.data(), img.data(), img.size()) != 0) fails.push_back("reserialize-bytes-differs");
    if (re2.size() != img.size() || memcmp(re2.data(), img.data(), img.size()) != 0) fails.push_back("reserialize-stream-differs");
    if (expect_content && *expect_content != content) fails.push_back("content-differs");
  } catch (const std::exception& e) {
    fails.push_back(std::string("restore-throws"));
  }
  std::string chk = "ok";
  if (!fails.empty()) { chk = "FAIL:"; for (size_t i = 0; i < fails.size(); ++i) chk += (i ? "," : "") + fails[i]; }
  return "IMG " + kind + " " + vh::hex_of_bytes(img.data(), img.size()) + " | " + content + " | " + chk;
}

static std::string do_ser(const cpc_sketch& s, uint64_t seed, bool merged) {
  std::vector<std::string> fails;
  auto img0 = s.serialize();
  std::vector<uint8_t> img(img0.begin(), img0.end());
  std::ostringstream os(std::ios::binary); s.serialize(os); std::string ss = os.str();
  if (ss.size() != img.size() || memcmp(ss.data(), img.data(), img.size()) != 0) fails.push_back("stream-image-differs");
  for (unsigned h : {1u, 8u, 13u}) {
    auto b = s.serialize(h);
    bool ok = b.size() == img.size() + h && memcmp(b.data() + h, img.data(), img.size()) == 0;
    for (unsigned i = 0; ok && i < h; ++i) ok = b[i] == 0;
    if (!ok) fails.push_back("header-" + std::to_string(h));
  }
  const std::string content = observe(s);
  std::string line = image_line(kind_of(s, seed, merged), img, seed, &content);
  std::string extra = img.size() > cpc_sketch::get_max_serialized_size_bytes(s.get_lg_k()) ? " over_max=1" : "";
  if (!fails.empty()) {
    std::string f; for (auto& x : fails) f += (f.empty() ? "" : ",") + x;
    if (line.size() >= 2 && line.substr(line.size() - 2) == "ok") line = line.substr(0, line.size() - 2) + "FAIL:" + f;
    else line += "," + f;
  }
  return line + extra;
}

// ---------------------------------------------------------------------------------------------- C11
struct Case { char path; size_t n; size_t pos; int rep; uint8_t fill; };   // path: b s t (prefix) B S (corruption)

static uint8_t replacement(uint8_t b, int j) {
  switch (j) { case 0: return 0x00; case 1: return 0x01; case 2: return 0x7F; case 3: return 0x80; case 4: return 0xFF;
               case 5: return b ^ 1; case 6: return b ^ 0x80; default: return (uint8_t)(b + 1); }
}

static char run_case(const Case& c, const std::vector<uint8_t>& img, uint64_t seed, const std::string& content) {
  std::vector<uint8_t> data(img.begin(), img.begin() + (c.path == 'B' || c.path == 'S' ? img.size() : c.n));
  if (c.path == 'B' || c.path == 'S') {
    uint8_t nb = replacement(data[c.pos], c.rep);
    if (nb == data[c.pos]) return '=';
    data[c.pos] = nb;
  }
  g_max_alloc = 0;
  char verdict = '?';
  try {
    std::unique_ptr<cpc_sketch> sk;
    if (c.path == 'b' || c.path == 'B') {
      std::unique_ptr<uint8_t[]> blk(new uint8_t[data.size()]);     // exact size: red zones on both sides
      if (!data.empty()) memcpy(blk.get(), data.data(), data.size());
      sk.reset(new cpc_sketch(cpc_sketch::deserialize(blk.get(), data.size(), seed)));
    } else {
      std::istringstream is(std::string((const char*)data.data(), data.size()), std::ios::binary);
      paint_stack(c.fill);
      sk.reset(new cpc_sketch(cpc_sketch::deserialize(is, seed)));
    }
    // accepted: the sketch must be usable
    std::string got = observe(*sk);
    auto again = sk->serialize();
    sk->update((uint64_t)12345);
    (void)sk->get_estimate(); (void)again.size();
    verdict = got == content ? 'A' : 'a';
  } catch (const std::bad_alloc&) { verdict = 'C';
  } catch (const std::length_error&) { verdict = 'C';
  } catch (const std::exception&) { verdict = 'T'; }
  if (g_max_alloc >= ALLOC_CAP) verdict = 'C';
  return verdict;
}

static std::string do_c11(const cpc_sketch& s, uint64_t seed, bool merged) {
  auto img0 = s.serialize();
  std::vector<uint8_t> img(img0.begin(), img0.end());
  const std::string content = observe(s);
  const size_t n = img.size();
  size_t npre = std::min<size_t>(n, 4 * (size_t)img[0]);
  std::vector<Case> cases;
  for (size_t i = 0; i < n; ++i) cases.push_back({'b', i, 0, 0, 0});
  for (size_t i = 0; i < n; ++i) cases.push_back({'s', i, 0, 0, 0xFE});
  for (size_t i = 0; i < n; ++i) cases.push_back({'t', i, 0, 0, 0x01});
  for (size_t p = 0; p < npre; ++p) for (int j = 0; j < 8; ++j) cases.push_back({'B', 0, p, j, 0});
  for (size_t p = 0; p < npre; ++p) for (int j = 0; j < 8; ++j) cases.push_back({'S', 0, p, j, 0xFE});
  std::string verdicts(cases.size(), '?');
  std::string leaks;
  std::vector<std::string> whys;
  size_t next = 0;
  int respawns = 0;
  std::cout.flush();
  while (next < cases.size() && respawns < 6000) {
    int fd[2], efd[2];
    if (pipe(fd) != 0 || pipe(efd) != 0) break;
    pid_t pid = fork();
    if (pid == 0) {
      close(fd[0]); close(efd[0]);
      dup2(efd[1], 2);
      __sanitizer_install_malloc_and_free_hooks(malloc_hook, free_hook);
      for (size_t i = next; i < cases.size(); ++i) {
        char msg[2] = {'>', 0};
        if (write(fd[1], msg, 1) != 1) _exit(3);
        alarm(20);
        char v = run_case(cases[i], img, seed, content);
        alarm(0);
        if (write(fd[1], &v, 1) != 1) _exit(3);
      }
      int leak = __lsan_do_recoverable_leak_check();
      char l = leak ? 'L' : 'l';
      if (write(fd[1], &l, 1) != 1) _exit(3);
      close(fd[1]);
      _exit(0);
    }
    close(fd[1]); close(efd[1]);
    ++respawns;
    std::string got, errtxt;
    char buf[4096];
    ssize_t r;
    while ((r = read(fd[0], buf, sizeof buf)) > 0) got.append(buf, (size_t)r);
    close(fd[0]);
    while ((r = read(efd[0], buf, sizeof buf)) > 0) if (errtxt.size() < (1u << 20)) errtxt.append(buf, (size_t)r);
    close(efd[0]);
    int status = 0;
    waitpid(pid, &status, 0);
    // got = (">" verdict)* [">"] ["l"|"L"]
    size_t i = 0;
    bool pending = false;
    while (i < got.size()) {
      if (got[i] == '>') {
        if (i + 1 < got.size() && got[i + 1] != '>') { verdicts[next++] = got[i + 1]; i += 2; pending = false; }
        else { pending = true; i += 1; }
      } else if (got[i] == 'l' || got[i] == 'L') { if (got[i] == 'L') leaks += cases[std::min(next, cases.size()) - 1].path; i += 1; }
      else i += 1;
    }
    if (pending && next < cases.size()) {
      char v = 'X';
      if (WIFEXITED(status)) { int ec = WEXITSTATUS(status); v = ec == 66 ? 'S' : ec == 67 ? 'U' : 'X'; }
      else if (WIFSIGNALED(status)) { v = WTERMSIG(status) == SIGALRM ? 'O' : 'X'; }
      // an allocation the sanitizer refuses (operator new aborts under ASan) is an allocation bomb, not a memory error
      if (errtxt.find("out-of-memory") != std::string::npos || errtxt.find("allocation-size-too-big") != std::string::npos
          || errtxt.find("requested allocation size") != std::string::npos) v = 'C';
      std::string why;
      size_t p = errtxt.find("SUMMARY:");
      if (p != std::string::npos) why = errtxt.substr(p + 9, errtxt.find('\n', p) - p - 9);
      else { p = errtxt.find("runtime error:"); if (p != std::string::npos) why = errtxt.substr(p, errtxt.find('\n', p) - p); }
      for (auto& ch : why) if (ch == '|' || ch == ';') ch = ',';
      if (why.size() > 160) why.resize(160);
      { bool seen = false; for (auto& x : whys) if (x.size() >= why.size() && x.compare(x.size() - why.size(), why.size(), why) == 0 && x.find(std::string(":") + v + ":") != std::string::npos) seen = true;
        if (!seen && whys.size() < 16) whys.push_back(std::to_string(next) + ":" + std::string(1, v) + ":" + why); }
      verdicts[next++] = v;
    } else if (!pending && next < cases.size() && !(WIFEXITED(status) && WEXITSTATUS(status) == 0)) {
      // died between cases (e.g. in the leak check): do not loop forever
      if (WIFEXITED(status) && WEXITSTATUS(status) != 0 && next == cases.size()) leaks += "x";
    }
  }
  std::string out = "C11 " + kind_of(s, seed, merged) + " " + vh::hex_of_bytes(img.data(), n) + " " + std::to_string(npre);
  auto seg = [&](size_t from, size_t len) { return len ? verdicts.substr(from, len) : std::string("-"); };
  out += " | b=" + seg(0, n) + " | s=" + seg(n, n) + " | t=" + seg(2 * n, n) + " | cb=" + seg(3 * n, 8 * npre) + " | cs=" + seg(3 * n + 8 * npre, 8 * npre);
  out += " | leak=" + (leaks.empty() ? std::string("-") : leaks);
  std::string wj; for (auto& x : whys) wj += (wj.empty() ? "" : ";") + x;
  out += " | why=" + (wj.empty() ? std::string("-") : wj);
  return out;
}

// ---------------------------------------------------------------------------------------------- ops
static bool is_merged(int id);
static std::map<int, bool> merged_flag;
static bool is_merged(int id) { auto it = merged_flag.find(id); return it != merged_flag.end() && it->second; }

static std::string step_inner(const std::vector<std::string>& w) {
  const std::string& op = w[0];
  if (op == "new") {
    int id = atoi(w[1].c_str());
    uint64_t seed = strtoull(w[3].c_str(), nullptr, 10);
    Obj o; o.seed = seed;
    o.sk.reset(new cpc_sketch((uint8_t)atoi(w[2].c_str()), seed));
    objs[id] = std::move(o); merged_flag[id] = false;
    return "ok";
  }
  if (op == "upd") { sk_at(w[1]).update((uint64_t)strtoull(w[2].c_str(), nullptr, 10)); return "ok"; }
  if (op == "updr") {
    cpc_sketch& s = sk_at(w[1]);
    uint64_t start = strtoull(w[2].c_str(), nullptr, 10), n = strtoull(w[3].c_str(), nullptr, 10);
    for (uint64_t i = 0; i < n; ++i) s.update((uint64_t)(start + i));
    return "ok";
  }
  if (op == "copy") {
    Obj& o = obj_at(w[1]);
    if (!o.sk) throw missing_object();
    Obj n; n.seed = o.seed; n.sk.reset(new cpc_sketch(*o.sk));
    int nid = atoi(w[2].c_str());
    merged_flag[nid] = is_merged(atoi(w[1].c_str()));
    objs[nid] = std::move(n);
    return "ok";
  }
  if (op == "unew") {
    int id = atoi(w[1].c_str());
    uint64_t seed = strtoull(w[3].c_str(), nullptr, 10);
    Obj o; o.seed = seed; o.un.reset(new cpc_union((uint8_t)atoi(w[2].c_str()), seed));
    objs[id] = std::move(o);
    return "ok";
  }
  if (op == "uupd") { Obj& u = obj_at(w[1]); if (!u.un) throw missing_object(); u.un->update(sk_at(w[2])); return "ok"; }
  if (op == "ures") {
    Obj& u = obj_at(w[1]); if (!u.un) throw missing_object();
    Obj n; n.seed = u.seed; n.sk.reset(new cpc_sketch(u.un->get_result()));
    int nid = atoi(w[2].c_str());
    merged_flag[nid] = !n.sk->is_empty();
    objs[nid] = std::move(n);
    return "ok";
  }
  if (op == "ser") { int id = atoi(w[1].c_str()); Obj& o = obj_at(w[1]); return do_ser(sk_at(w[1]), o.seed, is_merged(id)); }
  if (op == "load") {   // load <kind> <hex>
    auto f = w[1];
    uint64_t seed = DEFAULT_SEED;
    { std::vector<std::string> parts; std::stringstream ss(f); std::string t; while (std::getline(ss, t, ':')) parts.push_back(t);
      if (parts.size() >= 4) seed = strtoull(parts[3].c_str(), nullptr, 10); }
    auto b = vh::bytes_of_hex(w[2]);
    return image_line(w[1], b, seed, nullptr);
  }
  if (op == "fork") {
    int a = atoi(w[1].c_str());
    Obj& o = obj_at(w[1]); cpc_sketch& s = sk_at(w[1]);
    auto b = s.serialize();
    Obj n; n.seed = o.seed;
    if (w[3] == "b") {
      std::unique_ptr<uint8_t[]> copy(new uint8_t[b.size()]); memcpy(copy.get(), b.data(), b.size());
      n.sk.reset(new cpc_sketch(cpc_sketch::deserialize(copy.get(), b.size(), o.seed)));
    } else {
      std::istringstream is(std::string((const char*)b.data(), b.size()), std::ios::binary);
      n.sk.reset(new cpc_sketch(cpc_sketch::deserialize(is, o.seed)));
    }
    int nid = atoi(w[2].c_str());
    merged_flag[nid] = is_merged(a);
    objs[nid] = std::move(n);
    return "ok";
  }
  if (op == "eq") {
    std::string a = observe(sk_at(w[1])), b = observe(sk_at(w[2]));
    auto ia = sk_at(w[1]).serialize(), ib = sk_at(w[2]).serialize();
    bool same = a == b && ia.size() == ib.size() && memcmp(ia.data(), ib.data(), ia.size()) == 0;
    return same ? "EQ 1" : "EQ 0 " + a + " # " + b;
  }
  if (op == "c11") { int id = atoi(w[1].c_str()); Obj& o = obj_at(w[1]); return do_c11(sk_at(w[1]), o.seed, is_merged(id)); }
  return "bad-op";
}

static std::string step(const std::vector<std::string>& w) {
  try {
    if (w[0] == "do") {          // do a b c ; d e ; ...  : several set-up ops on one line (last output is returned)
      std::string out = "ok";
      std::vector<std::string> cur;
      for (size_t i = 1; i <= w.size(); ++i) {
        if (i == w.size() || w[i] == ";") { if (!cur.empty()) out = step_inner(cur); cur.clear(); }
        else cur.push_back(w[i]);
      }
      return out;
    }
    return step_inner(w);
  } catch (const missing_object&) { return "bad-op"; }
}

int main(int, char**) { return vh::run_loop(step); }

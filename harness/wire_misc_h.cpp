// Wire-format harness for the `misc` group: t-digest (double/float), Bloom filter (owned / wrapped in caller
// memory), density sketch (float/double).  Drives REAL sketches through the public API and prints
//   ser   -> IMG <kind> <hex image> | <canonical API content> | CHK <ok | list of failed C++-alone checks>
//   cont  -> CONT ok|fail:...      (deserialize-then-continue on original and restored)
//   sweep -> SWEEP ...             (C11: every prefix length and every preamble-byte corruption, every reader path,
//                                   each case in an exact-size heap block, crash-isolated in a forked child,
//                                   tracking allocator + 256 MiB allocation cap + per-case watchdog)
//   img   -> IMGDEC ...            (C10: decode a given image - baseline corpus / shipped .sk / Lean-encoded legacy)
// Observes only the public API.  One output line per op line (vh::run_loop).
#include <cstdint>
#include <cstdlib>
#include <cstring>
#include <cstdio>
#include <string>
#include <vector>
#include <map>
#include <memory>
#include <sstream>
#include <iostream>
#include <functional>
#include <new>
#include <stdexcept>
#include <malloc.h>
#include <unistd.h>
#include <signal.h>
#include <fcntl.h>
#include <sys/wait.h>
#include <sys/stat.h>
#include <sys/time.h>
#include <sanitizer/asan_interface.h>

// ------------------------------------------------------------------ tracking allocator + allocation cap
namespace trk {
static size_t live_blocks = 0;
static size_t live_bytes = 0;
static size_t cap_bytes = SIZE_MAX;   // live-bytes cap for the code under test
static bool cap_hit = false;
}
static void* trk_alloc(size_t n) {
  if (trk::cap_bytes != SIZE_MAX && (n > trk::cap_bytes || trk::live_bytes + n > trk::cap_bytes)) {
    trk::cap_hit = true;
    throw std::bad_alloc();
  }
  void* p = malloc(n ? n : 1);
  if (p == nullptr) throw std::bad_alloc();
  ++trk::live_blocks;
  trk::live_bytes += malloc_usable_size(p);
  return p;
}
static void trk_free(void* p) noexcept {
  if (p == nullptr) return;
  --trk::live_blocks;
  trk::live_bytes -= malloc_usable_size(p);
  free(p);
}
void* operator new(size_t n) { return trk_alloc(n); }
void* operator new[](size_t n) { return trk_alloc(n); }
void operator delete(void* p) noexcept { trk_free(p); }
void operator delete[](void* p) noexcept { trk_free(p); }
void operator delete(void* p, size_t) noexcept { trk_free(p); }
void operator delete[](void* p, size_t) noexcept { trk_free(p); }
void* operator new(size_t n, const std::nothrow_t&) noexcept { try { return trk_alloc(n); } catch (...) { return nullptr; } }
void* operator new[](size_t n, const std::nothrow_t&) noexcept { try { return trk_alloc(n); } catch (...) { return nullptr; } }
void operator delete(void* p, const std::nothrow_t&) noexcept { trk_free(p); }
void operator delete[](void* p, const std::nothrow_t&) noexcept { trk_free(p); }

// Hundreds of sanitizer aborts are expected per run on readers that do not validate; symbolizing each report
// costs ~0.3 s (debug info of this binary is re-read by every child).  Run by hand with ASAN_OPTIONS=symbolize=1
// to get source lines for a replayed case.
extern "C" const char* __asan_default_options() { return "symbolize=0"; }

#include "common.hpp"
#include "bloom_filter.hpp"
#include "tdigest.hpp"
#include "density_sketch.hpp"

using namespace datasketches;
using vh::hex_of_bytes;
typedef std::vector<uint8_t> Bytes;

static const size_t ALLOC_CAP = 256u << 20;
static const unsigned HEADERS[4] = {0, 1, 8, 13};
static const uint8_t SENTINEL[8] = {0xA5, 0x5A, 0xC3, 0x3C, 0x96, 0x69, 0xF0, 0x0F};

// ------------------------------------------------------------------ installed random source (density compaction)
struct LcgSource : random_utils::verif_random_source {
  uint64_t s = 1;
  uint64_t consumed = 0;
  uint64_t next() { s = s * 6364136223846793005ULL + 1442695040888963407ULL; ++consumed; return s >> 11; }
  bool bit() override { return (next() >> 20) & 1; }
  double unit() override { return (double)next() / 9007199254740992.0; }
  uint64_t below(uint64_t n) override { return n ? next() % n : 0; }
};
static LcgSource g_src;

struct Xs { // harness-side value generator
  uint64_t s;
  explicit Xs(uint64_t seed) : s(seed * 0x9E3779B97F4A7C15ULL + 0x1234567ULL) {}
  uint64_t next() { s ^= s << 13; s ^= s >> 7; s ^= s << 17; return s; }
  double unit() { return (double)(next() >> 11) / 9007199254740992.0; }
};

static uint64_t fold_str(const std::string& s) {
  uint64_t a = 0xcbf29ce484222325ULL;
  for (unsigned char c : s) { a ^= c; a *= 0x100000001b3ULL; }
  return a;
}

__attribute__((noinline)) static void scrub_stack(uint8_t pat) {
  volatile uint8_t buf[24576];
  for (size_t i = 0; i < sizeof(buf); ++i) buf[i] = pat;
}

// ------------------------------------------------------------------ crash isolation
struct ChildResult { std::string out; std::string kind; std::string err; };

static std::string asan_detail(const std::string& err) {
  size_t p = err.find("AddressSanitizer: ");
  if (p == std::string::npos) return "";
  p += 18;
  size_t e = p;
  while (e < err.size() && (isalnum((unsigned char)err[e]) || err[e] == '-' || err[e] == '_')) ++e;
  return err.substr(p, e - p);
}

static std::string classify(int status, const std::string& err) {
  bool as = err.find("AddressSanitizer") != std::string::npos;
  bool ub = err.find("runtime error:") != std::string::npos;
  if (WIFEXITED(status)) {
    int c = WEXITSTATUS(status);
    if (c == 0) return "ok";
    if (as) return "asan:" + asan_detail(err);
    if (ub) return "ubsan";
    if (err.find("LeakSanitizer") != std::string::npos) return "leak";
    return "crash:exit" + std::to_string(c);
  }
  if (WIFSIGNALED(status)) {
    int s = WTERMSIG(status);
    if (s == SIGALRM || s == SIGPROF) return "timeout";
    if (as) return "asan:" + asan_detail(err);
    if (ub) return "ubsan";
    return "crash:sig" + std::to_string(s);
  }
  return "crash:unknown";
}

template<class F>
static ChildResult run_child(F fn) {
  ChildResult r;
  int p[2];
  if (pipe(p) != 0) { r.kind = "crash:pipe"; return r; }
  char errname[] = "/tmp/wmisc_err_XXXXXX";
  int efd = mkstemp(errname);
  if (efd >= 0) unlink(errname);
  std::cout.flush(); fflush(stdout); fflush(stderr);
  pid_t pid = fork();
  if (pid < 0) { r.kind = "crash:fork"; close(p[0]); close(p[1]); if (efd >= 0) close(efd); return r; }
  if (pid == 0) {
    close(p[0]);
    if (efd >= 0) dup2(efd, 2);
    fn(p[1]);
    _exit(0);
  }
  close(p[1]);
  char buf[65536];
  ssize_t n;
  while ((n = read(p[0], buf, sizeof buf)) > 0) r.out.append(buf, (size_t)n);
  close(p[0]);
  int status = 0;
  waitpid(pid, &status, 0);
  if (efd >= 0) {
    lseek(efd, 0, SEEK_SET);
    while ((n = read(efd, buf, sizeof buf)) > 0) { if (r.err.size() < (1u << 20)) r.err.append(buf, (size_t)n); }
    close(efd);
  }
  r.kind = classify(status, r.err);
  return r;
}

// per-case watchdog on CPU time (robust on a loaded machine): SIGPROF kills the child
static void watchdog(unsigned seconds) {
  struct itimerval it;
  memset(&it, 0, sizeof it);
  it.it_value.tv_sec = seconds;
  setitimer(ITIMER_PROF, &it, nullptr);
}

static void fd_write(int fd, const std::string& s) {
  size_t off = 0;
  while (off < s.size()) { ssize_t w = write(fd, s.data() + off, s.size() - off); if (w <= 0) return; off += (size_t)w; }
}

// run cases [0, n); each returns an outcome token (no spaces).  A case that kills the process (sanitizer abort,
// watchdog, crash) is recorded with that outcome and the sweep resumes after it in a fresh child.
static std::vector<std::string> sweep(size_t n, const std::function<std::string(size_t)>& run_case, unsigned case_timeout_s,
                                      unsigned max_abnormal, const std::function<bool(const std::string&)>& stop_after = nullptr) {
  std::vector<std::string> res(n, "skipped");
  size_t start = 0;
  unsigned abnormal = 0;
  while (start < n) {
    ChildResult cr = run_child([&](int fd) {
      for (size_t i = start; i < n; ++i) {
        fd_write(fd, "B " + std::to_string(i) + "\n");
        watchdog(case_timeout_s);
        std::string o = run_case(i);
        watchdog(0);
        fd_write(fd, "E " + std::to_string(i) + " " + o + "\n");
      }
    });
    long pending = -1;
    std::istringstream is(cr.out);
    std::string line;
    while (std::getline(is, line)) {
      if (line.size() < 3) continue;
      if (line[0] == 'B') pending = atol(line.c_str() + 2);
      else if (line[0] == 'E') {
        size_t sp = line.find(' ', 2);
        if (sp == std::string::npos) continue;
        size_t i = (size_t)atol(line.c_str() + 2);
        if (i < n) res[i] = line.substr(sp + 1);
        if ((long)i == pending) pending = -1;
      }
    }
    if (cr.kind == "ok" && pending < 0) break;
    if (pending < 0) break;  // died outside a case: give up on the rest
    res[(size_t)pending] = cr.kind == "ok" ? std::string("crash:lost") : cr.kind;
    start = (size_t)pending + 1;
    if (++abnormal >= max_abnormal) break;
    if (stop_after && stop_after(res[(size_t)pending])) break;
  }
  return res;
}

// run one whole check (ser / cont / img) in a forked child: a sanitizer abort, watchdog hit or crash inside it
// becomes the observation `DIED <op> <class>` instead of killing the harness; the parent's sketches are untouched.
static std::string isolated(const std::string& opname, const std::function<std::string()>& body, unsigned timeout_s = 60) {
  ChildResult cr = run_child([&](int fd) {
    watchdog(timeout_s);
    std::string line;
    try { line = body(); } catch (const std::exception&) { line = "throw"; }
    fd_write(fd, line);
  });
  if (cr.kind == "ok" && !cr.out.empty()) return cr.out;
  return "DIED " + opname + " " + (cr.kind == "ok" ? std::string("crash:lost") : cr.kind);
}

static std::string rle(const std::vector<std::string>& v) {
  std::string s;
  size_t i = 0;
  while (i < v.size()) {
    size_t j = i;
    while (j < v.size() && v[j] == v[i]) ++j;
    if (!s.empty()) s += ",";
    s += v[i] + "*" + std::to_string(j - i);
    i = j;
  }
  return s.empty() ? "-" : s;
}

// ------------------------------------------------------------------ exact-size input blocks
struct ExactBlock {
  uint8_t* p; uint8_t* base; size_t n;
  ExactBlock(const uint8_t* src, size_t len) : n(len) {
    if (len == 0) { base = (uint8_t*)malloc(8); __asan_poison_memory_region(base, 8); p = base; }
    else { base = (uint8_t*)malloc(len); memcpy(base, src, len); p = base; }
  }
  ~ExactBlock() { if (n == 0) __asan_unpoison_memory_region(base, 8); free(base); }
  ExactBlock(const ExactBlock&) = delete;
};

// one deserialization attempt -> "t" (exception) | "cap" (allocation cap) | "leak" (exception + allocator imbalance)
//                               | "a:<hash of API content>" (accepted and usable)
template<class F>
static std::string attempt(F deser_and_describe) {
  trk::cap_hit = false;
  trk::cap_bytes = trk::live_bytes + ALLOC_CAP;
  const size_t before = trk::live_blocks;
  std::string content;
  bool threw = false;
  try { content = deser_and_describe(); }
  catch (const std::exception&) { threw = true; }
  catch (...) { threw = true; }
  trk::cap_bytes = SIZE_MAX;
  if (threw) {
    if (trk::cap_hit) return "cap";
    if (trk::live_blocks != before) return "leak";
    return "t";
  }
  return "a:" + vh::hex_u64(fold_str(content));
}

// ================================================================== Bloom
typedef bloom_filter BF;

static std::string bloom_bits_hex(const BF& f) {
  if (f.get_capacity() > (1u << 20)) return "big";   // (corrupted images only) do not print megabytes of bit text
  // the only public view of the raw bit array: to_string(true) prints bit b of byte 8*i+j as the b-th character of group j of line i
  std::string txt = f.to_string(true);
  std::istringstream is(txt);
  std::string line, hex;
  static const char* d = "0123456789abcdef";
  while (std::getline(is, line)) {
    size_t c = line.find(": ");
    if (c == std::string::npos || c == 0) continue;
    bool num = true;
    for (size_t i = 0; i < c; ++i) if (!isdigit((unsigned char)line[i])) num = false;
    if (!num) continue;
    std::istringstream ls(line.substr(c + 2));
    std::string grp;
    while (ls >> grp) {
      if (grp.size() != 8) continue;
      unsigned v = 0;
      for (int b = 0; b < 8; ++b) if (grp[b] == '1') v |= 1u << b;
      hex.push_back(d[v >> 4]); hex.push_back(d[v & 15]);
    }
  }
  return hex.empty() ? "-" : hex;
}

// content comparable with the Lean `project`; note get_bits_used() clears the dirty state (call after serializing)
static std::string bloom_content(BF& f) {
  std::ostringstream o;
  const uint64_t used = f.get_bits_used();
  o << "cap=" << f.get_capacity() << " nh=" << f.get_num_hashes() << " seed=" << f.get_seed()
    << " used=" << used << " empty=" << (f.is_empty() ? 1 : 0) << " bits=" << bloom_bits_hex(f);
  return o.str();
}
// + membership answers for a fixed probe set (API-only part used for C++ side comparisons)
static std::string bloom_full(BF& f) {
  std::string s = bloom_content(f) + " q=";
  for (uint64_t i = 0; i < 24; ++i) s.push_back(f.query(i * 7919 + 1) ? '1' : '0');
  return s;
}

struct BloomObj {
  std::unique_ptr<BF> f;
  std::unique_ptr<uint8_t[]> mem;  // caller memory for memory-initialised filters
  size_t mem_len = 0;
};
static std::map<int, BloomObj> g_bloom;

static Bytes bloom_stream(const BF& f) {
  std::ostringstream os(std::ios::binary);
  f.serialize(os);
  std::string s = os.str();
  return Bytes(s.begin(), s.end());
}

struct Paths { std::vector<std::string> names; std::vector<std::function<std::string(const uint8_t*, size_t)>> fns; };

static Paths bloom_paths() {
  Paths p;
  p.names = {"bytes", "stream", "wrap", "wwrap"};
  p.fns.push_back([](const uint8_t* d, size_t n) { return attempt([&] { ExactBlock b(d, n); BF f = BF::deserialize(b.p, b.n); return bloom_full(f); }); });
  p.fns.push_back([](const uint8_t* d, size_t n) { return attempt([&] {
    std::string s((const char*)d, n); std::istringstream is(s, std::ios::binary); scrub_stack(0x01);
    BF f = BF::deserialize(is); return bloom_full(f); }); });
  p.fns.push_back([](const uint8_t* d, size_t n) { return attempt([&] { ExactBlock b(d, n); BF f = BF::wrap(b.p, b.n); return bloom_full(f); }); });
  p.fns.push_back([](const uint8_t* d, size_t n) { return attempt([&] { ExactBlock b(d, n); BF f = BF::writable_wrap(b.p, b.n); return bloom_full(f); }); });
  return p;
}

// ================================================================== t-digest
template<class T> static std::string hexT(T v);
template<> std::string hexT<double>(double v) { return vh::hex_f64(v); }
template<> std::string hexT<float>(float v) { return vh::hex_f32(v); }
template<class T> static T ofHexT(const std::string& s);
template<> double ofHexT<double>(const std::string& s) { return vh::f64_of_hex(s); }
template<> float ofHexT<float>(const std::string& s) { return vh::f32_of_hex(s); }

static const double PROBE_RANKS[7] = {0.0, 0.015625, 0.25, 0.5, 0.75, 0.984375, 1.0};

// Image-determined content WITHOUT running a query (queries compress): k, total weight, is_empty, min, max, and the
// centroids (mean, weight) and buffered values as to_string(true) lists them - the only public view of them; means are
// printed there with 6 significant digits and are compared numerically (relative 1e-5) with the exact decoded values.
template<class T>
static std::string td_basic(const tdigest<T>& t) {
  std::ostringstream o;
  o << "k=" << t.get_k() << " w=" << t.get_total_weight();
  if (t.is_empty()) { o << " empty=1 min=- max=- C 0 B 0"; return o.str(); }
  o << " empty=0 min=" << hexT<T>(t.get_min_value()) << " max=" << hexT<T>(t.get_max_value());
  const std::string txt = t.to_string(true);
  std::istringstream is(txt);
  std::string line;
  std::vector<std::string> cents, buf;
  int section = 0;
  while (std::getline(is, line)) {
    if (line.compare(0, 10, "Centroids:") == 0) { section = 1; continue; }
    if (line.compare(0, 7, "Buffer:") == 0) { section = 2; continue; }
    if (section == 0 || line.empty() || !isdigit((unsigned char)line[0])) continue;
    const size_t c = line.find(": ");
    if (c == std::string::npos) continue;
    std::string rest = line.substr(c + 2);
    if (section == 1) {
      const size_t comma = rest.find(", ");
      if (comma == std::string::npos) continue;
      cents.push_back(rest.substr(0, comma) + ":" + rest.substr(comma + 2));
    } else buf.push_back(rest);
  }
  o << " C " << cents.size();
  for (auto& x : cents) o << " " << x;
  o << " B " << buf.size();
  for (auto& x : buf) o << " " << x;
  return o.str();
}

// API-level content for C++-side comparisons: + get_rank at 9 probe points of [min,max], get_quantile at 7 probe ranks
// (the queries compress the sketch: call after serializing)
template<class T>
static std::string td_content(const tdigest<T>& t) {
  std::ostringstream o;
  o << "k=" << t.get_k() << " w=" << t.get_total_weight();
  if (t.is_empty()) { o << " empty=1 min=- max=- R - Q -"; return o.str(); }
  const T mn = t.get_min_value(), mx = t.get_max_value();
  o << " empty=0 min=" << hexT<T>(mn) << " max=" << hexT<T>(mx) << " R";
  for (int j = 0; j < 9; ++j) {
    const T x = static_cast<T>((double)mn + ((double)mx - (double)mn) * (j / 8.0));
    o << " " << vh::hex_f64(t.get_rank(x));
  }
  o << " Q";
  for (int j = 0; j < 7; ++j) o << " " << hexT<T>(t.get_quantile(PROBE_RANKS[j]));
  return o.str();
}

struct TdObj { char t = 'd'; std::unique_ptr<tdigest<double>> d; std::unique_ptr<tdigest<float>> f; };
static std::map<int, TdObj> g_td;

template<class T> static Bytes td_stream(const tdigest<T>& t, bool wb) {
  std::ostringstream os(std::ios::binary);
  t.serialize(os, wb);
  std::string s = os.str();
  return Bytes(s.begin(), s.end());
}

template<class T> static Paths td_paths() {
  Paths p;
  p.names = {"bytes", "stream"};
  p.fns.push_back([](const uint8_t* d, size_t n) { return attempt([&] {
    ExactBlock b(d, n); tdigest<T> t = tdigest<T>::deserialize(b.p, b.n);
    std::string c = td_content(t); auto again = t.serialize(0, true); c += " s" + std::to_string(again.size()); return c; }); });
  p.fns.push_back([](const uint8_t* d, size_t n) { return attempt([&] {
    std::string s((const char*)d, n); std::istringstream is(s, std::ios::binary); scrub_stack(0x01);
    tdigest<T> t = tdigest<T>::deserialize(is);
    std::string c = td_content(t); auto again = t.serialize(0, true); c += " s" + std::to_string(again.size()); return c; }); });
  return p;
}

// ================================================================== density
template<class T>
static std::string den_content(const density_sketch<T>& s) {
  std::ostringstream o;
  o << "k=" << s.get_k() << " dim=" << s.get_dim() << " n=" << s.get_n() << " nr=" << s.get_num_retained()
    << " empty=" << (s.is_empty() ? 1 : 0) << " est=" << (s.is_estimation_mode() ? 1 : 0) << " pts=";
  bool first = true;
  for (auto it = s.begin(); it != s.end(); ++it) {
    const auto pr = *it;
    if (!first) o << " ";
    first = false;
    o << pr.second << ":";
    for (size_t i = 0; i < pr.first.size(); ++i) { if (i) o << ","; o << hexT<T>(pr.first[i]); }
  }
  return o.str();
}

struct DenObj { char t = 'f'; std::unique_ptr<density_sketch<float>> f; std::unique_ptr<density_sketch<double>> d; };
static std::map<int, DenObj> g_den;

template<class T> static Bytes den_stream(const density_sketch<T>& s) {
  std::ostringstream os(std::ios::binary);
  s.serialize(os);
  std::string str = os.str();
  return Bytes(str.begin(), str.end());
}

template<class T> static Paths den_paths() {
  Paths p;
  p.names = {"bytes", "stream"};
  p.fns.push_back([](const uint8_t* d, size_t n) { return attempt([&] {
    ExactBlock b(d, n); density_sketch<T> s = density_sketch<T>::deserialize(b.p, b.n);
    std::string c = den_content(s);
    if (!s.is_empty() && s.get_dim() < 64) { std::vector<T> q(s.get_dim(), 0); c += " e" + hexT<T>(s.get_estimate(q)); }
    return c; }); });
  p.fns.push_back([](const uint8_t* d, size_t n) { return attempt([&] {
    std::string str((const char*)d, n); std::istringstream is(str, std::ios::binary); scrub_stack(0x01);
    density_sketch<T> s = density_sketch<T>::deserialize(is);
    std::string c = den_content(s);
    if (!s.is_empty() && s.get_dim() < 64) { std::vector<T> q(s.get_dim(), 0); c += " e" + hexT<T>(s.get_estimate(q)); }
    return c; }); });
  return p;
}

// ------------------------------------------------------------------ shared: header-size check, sweep line
// serialize(h) for h in {0,1,8,13} in an isolated child; each must equal h zero bytes followed by the stream image.
static void check_headers(const Bytes& stream_img, const std::function<Bytes(unsigned)>& ser_bytes, std::vector<std::string>& fails) {
  auto res = sweep(4, [&](size_t i) -> std::string {
    try { Bytes b = ser_bytes(HEADERS[i]); return "ok:" + hex_of_bytes(b.data(), b.size()); }
    catch (const std::exception&) { return "throw"; }
  }, 20, 4);
  for (size_t i = 0; i < 4; ++i) {
    const std::string tag = "hdr" + std::to_string(HEADERS[i]);
    if (res[i].compare(0, 3, "ok:") != 0) { fails.push_back(tag + ":" + res[i]); continue; }
    Bytes b = vh::bytes_of_hex(res[i].substr(3));
    Bytes want(HEADERS[i], 0);
    want.insert(want.end(), stream_img.begin(), stream_img.end());
    if (b != want) fails.push_back(tag + ":mismatch");
  }
}

static std::string join(const std::vector<std::string>& v, const char* sep) {
  std::string s;
  for (size_t i = 0; i < v.size(); ++i) { if (i) s += sep; s += v[i]; }
  return s;
}
static std::string chk(const std::vector<std::string>& fails) { return fails.empty() ? "CHK ok" : "CHK " + join(fails, ","); }

static const uint8_t REPL_FIXED[5] = {0x00, 0x01, 0x7F, 0x80, 0xFF};

static std::string sweep_line(const std::string& kind, const Bytes& img, size_t npre, const Paths& paths, bool do_prefix, bool do_corrupt) {
  std::ostringstream o;
  o << "SWEEP " << kind << " size=" << img.size() << " npre=" << npre << " hex=" << hex_of_bytes(img.data(), img.size());
  // reference: what the full image decodes to on each path
  std::vector<std::string> fullv;
  for (size_t pi = 0; pi < paths.names.size(); ++pi) {
    auto full = sweep(1, [&](size_t) { return paths.fns[pi](img.data(), img.size()); }, 20, 1);
    o << " | F " << paths.names[pi] << " " << full[0];
    fullv.push_back(full[0]);
  }
  // accepted: "A" = same API content as the full image on that path, "a" = some other content
  auto norm = [&](std::vector<std::string>& v, size_t pi) {
    for (auto& x : v) if (x.compare(0, 2, "a:") == 0) x = (x == fullv[pi]) ? "A" : "a";
  };
  auto is_timeout = [](const std::string& s) { return s == "timeout"; };
  if (do_prefix) {
    for (size_t pi = 0; pi < paths.names.size(); ++pi) {
      unsigned timeouts = 0;
      auto res = sweep(img.size(), [&](size_t n) { return paths.fns[pi](img.data(), n); }, 1, 64,
                       [&](const std::string& s) { if (is_timeout(s)) ++timeouts; return timeouts >= 2; });
      norm(res, pi);
      o << " | P " << paths.names[pi] << " " << rle(res);
    }
  }
  if (do_corrupt) {
    // every preamble byte x {0x00,0x01,0x7F,0x80,0xFF,b^1,b^0x80,b+1}
    std::vector<std::pair<size_t, uint8_t>> cases;
    for (size_t pos = 0; pos < npre && pos < img.size(); ++pos) {
      const uint8_t b = img[pos];
      uint8_t cand[8] = {REPL_FIXED[0], REPL_FIXED[1], REPL_FIXED[2], REPL_FIXED[3], REPL_FIXED[4],
                         (uint8_t)(b ^ 1), (uint8_t)(b ^ 0x80), (uint8_t)(b + 1)};
      for (int i = 0; i < 8; ++i) {
        if (cand[i] == b) continue;
        bool dup = false;
        for (int j = 0; j < i; ++j) if (cand[j] == cand[i]) dup = true;
        if (!dup) cases.push_back({pos, cand[i]});
      }
    }
    for (size_t pi = 0; pi < paths.names.size(); ++pi) {
      unsigned timeouts = 0;
      auto res = sweep(cases.size(), [&](size_t ci) {
        Bytes m(img); m[cases[ci].first] = cases[ci].second;
        return paths.fns[pi](m.data(), m.size());
      }, 1, 64, [&](const std::string& s) { if (is_timeout(s)) ++timeouts; return timeouts >= 2; });
      size_t nt = 0, na = 0;
      std::vector<std::string> bad;
      for (size_t ci = 0; ci < cases.size(); ++ci) {
        if (res[ci] == "t") ++nt;
        else if (res[ci].compare(0, 2, "a:") == 0) ++na;
        else { char buf[64]; snprintf(buf, sizeof buf, "%zu:%02x:", cases[ci].first, cases[ci].second); bad.push_back(buf + res[ci]); }
      }
      o << " | C " << paths.names[pi] << " cases=" << cases.size() << " t=" << nt << " a=" << na << " bad=" << (bad.empty() ? "-" : join(bad, ","));
    }
  }
  return o.str();
}

static std::string imgdec_line(const std::string& kind, const Bytes& img, const Paths& paths,
                               const std::vector<std::function<std::string(const uint8_t*, size_t)>>& describe) {
  // describe[i]: decode on path i and return the Lean-comparable content (exceptions -> "throw")
  std::ostringstream o;
  o << "IMGDEC " << kind << " size=" << img.size();
  for (size_t pi = 0; pi < describe.size(); ++pi) {
    std::string c;
    try { c = describe[pi](img.data(), img.size()); } catch (const std::exception&) { c = "throw"; }
    o << " || " << paths.names[pi] << " :: " << c;
  }
  return o.str();
}

// ================================================================== op handlers: Bloom
static BF& bf_get(int id) { auto it = g_bloom.find(id); if (it == g_bloom.end() || !it->second.f) throw std::runtime_error("no such filter"); return *it->second.f; }

static std::string bloom_ser(int id) {
  BF& f = bf_get(id);
  std::vector<std::string> fails;
  const Bytes img = bloom_stream(f);
  check_headers(img, [&](unsigned h) { auto v = f.serialize(h); return Bytes(v.begin(), v.end()); }, fails);
  if (img.size() != f.get_serialized_size_bytes()) fails.push_back("size:advertised");
  if (!f.is_empty() && img.size() != BF::get_serialized_size_bytes(f.get_capacity())) fails.push_back("size:static");
  // restore on every path; re-serialize BEFORE asking for the content (get_bits_used clears the dirty marker)
  std::vector<std::pair<std::string, std::string>> restored;  // path, full content
  {
    try {
      BF r = BF::deserialize(img.data(), img.size());
      if (bloom_stream(r) != img) fails.push_back("reser:bytes");
      restored.push_back({"bytes", bloom_full(r)});
    } catch (const std::exception&) { fails.push_back("restore:bytes:throw"); }
    try {
      std::string s((const char*)img.data(), img.size());
      s.append((const char*)SENTINEL, sizeof SENTINEL);
      std::istringstream is(s, std::ios::binary);
      BF r = BF::deserialize(is);
      if (is.fail() || (size_t)is.tellg() != img.size()) fails.push_back("streampos");
      if (bloom_stream(r) != img) fails.push_back("reser:stream");
      restored.push_back({"stream", bloom_full(r)});
    } catch (const std::exception&) { fails.push_back("restore:stream:throw"); }
    try {
      Bytes copy(img);
      BF r = BF::wrap(copy.data(), copy.size());
      if (bloom_stream(r) != img) fails.push_back("reser:wrap");
      restored.push_back({"wrap", bloom_full(r)});
      if (copy != img) fails.push_back("wrap:modified-memory");
    } catch (const std::exception&) { fails.push_back("restore:wrap:throw"); }
    if (!f.is_empty()) {
      try {
        Bytes copy(img);
        BF r = BF::writable_wrap(copy.data(), copy.size());
        if (bloom_stream(r) != img) fails.push_back("reser:wwrap");
        restored.push_back({"wwrap", bloom_full(r)});
      } catch (const std::exception&) { fails.push_back("restore:wwrap:throw"); }
    }
  }
  const std::string content = bloom_content(f);
  const std::string full = bloom_full(f);
  for (auto& pr : restored) if (pr.second != full) fails.push_back("restore:" + pr.first + ":content");
  return "IMG bloom " + hex_of_bytes(img.data(), img.size()) + " | " + content + " | " + chk(fails);
}

// mode 0: update() only; 1: query_and_update() only (every copy first brought to a counted state with get_bits_used());
// 2: mixed (exposes bookkeeping defects of query_and_update on a filter whose count is stale)
static void bloom_apply(BF& f, unsigned n, uint64_t seed, int mode, std::string* answers) {
  Xs g(seed);
  if (mode == 1) f.get_bits_used();
  for (unsigned i = 0; i < n; ++i) {
    const uint64_t v = g.next() % 4096;
    const bool qu = mode == 1 || (mode == 2 && (g.next() & 3) == 0);
    if (qu) { const bool a = f.query_and_update(v); if (answers) answers->push_back(a ? '1' : '0'); }
    else f.update(v);
  }
}

static std::string bloom_cont(int id, unsigned n, uint64_t seed, int mode) {
  BF& f = bf_get(id);
  std::vector<std::string> fails;
  const Bytes img = bloom_stream(f);
  std::unique_ptr<BF> rb, rs, rw;
  Bytes wmem(img);
  try { rb.reset(new BF(BF::deserialize(img.data(), img.size()))); } catch (const std::exception&) { fails.push_back("bytes:throw"); }
  try { std::string s((const char*)img.data(), img.size()); std::istringstream is(s, std::ios::binary); rs.reset(new BF(BF::deserialize(is))); }
  catch (const std::exception&) { fails.push_back("stream:throw"); }
  if (!f.is_empty()) {
    try { rw.reset(new BF(BF::writable_wrap(wmem.data(), wmem.size()))); } catch (const std::exception&) { fails.push_back("wwrap:throw"); }
  }
  bool empty_with_bits = false;   // is_empty() although the bit array is not all zero (stale-count defect upstream of this check)
  if (f.is_empty()) { const std::string bh = bloom_bits_hex(f); empty_with_bits = bh.find_first_not_of("0") != std::string::npos && bh != "-"; }
  std::string a0, a1, a2, a3;
  bloom_apply(f, n, seed, mode, &a0);
  if (rb) { bloom_apply(*rb, n, seed, mode, &a1); if (a1 != a0) fails.push_back("bytes:query_and_update-answers"); }
  if (rs) { bloom_apply(*rs, n, seed, mode, &a2); if (a2 != a0) fails.push_back("stream:query_and_update-answers"); }
  if (rw) { bloom_apply(*rw, n, seed, mode, &a3); if (a3 != a0) fails.push_back("wwrap:query_and_update-answers"); }
  // images first (dirty state included), then contents
  const Bytes after = bloom_stream(f);
  if (rb && bloom_stream(*rb) != after) fails.push_back("bytes:image-after");
  if (rs && bloom_stream(*rs) != after) fails.push_back("stream:image-after");
  if (rw && bloom_stream(*rw) != after) fails.push_back("wwrap:image-after");
  std::string wrapped_view = "-";
  if (rw) {
    // the caller's memory IS the image of a writable-wrapped filter: a reader of that memory must see the same filter
    try { BF again = BF::wrap(wmem.data(), wmem.size()); wrapped_view = bloom_full(again); }
    catch (const std::exception&) { wrapped_view = "throw"; }
  }
  const std::string full = bloom_full(f);
  if (rb && bloom_full(*rb) != full) fails.push_back("bytes:content-after");
  if (rs && bloom_full(*rs) != full) fails.push_back("stream:content-after");
  if (rw && bloom_full(*rw) != full) fails.push_back("wwrap:content-after");
  if (rw && n > 0 && wrapped_view != full) fails.push_back("wwrap:memory-stale");
  return std::string("CONT bloom n=") + std::to_string(n) + " mode=" + std::to_string(mode) + " emptybits=" + (empty_with_bits ? "1" : "0") + " pre=" + hex_of_bytes(img.data(), img.size()) + " "
         + (fails.empty() ? "ok" : "fail:" + join(fails, ","));
}

// ================================================================== op handlers: t-digest
template<class T> static void td_updn(tdigest<T>& t, unsigned n, uint64_t seed, int mode) {
  Xs g(seed);
  for (unsigned i = 0; i < n; ++i) {
    double v;
    switch (mode) {
      case 1: v = (double)(g.next() % 10); break;                       // many ties
      case 2: v = -std::log(1.0 - g.unit()) * 1000.0; break;            // heavy tail
      case 3: v = (double)i + (double)(seed % 7); break;                // ascending
      case 4: v = 1e6 - (double)i; break;                               // descending
      case 5: v = (g.unit() - 0.5) * 1e-3; break;                       // tiny, both signs
      default: v = g.unit(); break;
    }
    t.update(static_cast<T>(v));
  }
}

template<class T> static std::string td_ser(tdigest<T>& t, const char* kind, bool wb) {
  std::vector<std::string> fails;
  const Bytes img = td_stream(t, wb);
  check_headers(img, [&](unsigned h) { auto v = t.serialize(h, wb); return Bytes(v.begin(), v.end()); }, fails);
  if (img.size() != t.get_serialized_size_bytes(wb)) fails.push_back("size:advertised");
  const std::string basic = td_basic(t);       // before any query (with_buffer = true leaves the buffer in place)
  const bool single = t.get_total_weight() == 1; // the single-value image does not say buffer or centroid (separate finding)
  std::vector<std::pair<std::string, std::string>> restored;
  try {
    tdigest<T> r = tdigest<T>::deserialize(img.data(), img.size());
    if (td_stream(r, wb) != img) fails.push_back("reser:bytes");
    if (!single && td_basic(r) != basic) fails.push_back("restore:bytes:centroids");
    restored.push_back({"bytes", td_content(r)});
  } catch (const std::exception&) { fails.push_back("restore:bytes:throw"); }
  try {
    std::string s((const char*)img.data(), img.size());
    s.append((const char*)SENTINEL, sizeof SENTINEL);
    std::istringstream is(s, std::ios::binary);
    tdigest<T> r = tdigest<T>::deserialize(is);
    if (is.fail() || (size_t)is.tellg() != img.size()) fails.push_back("streampos");
    if (td_stream(r, wb) != img) fails.push_back("reser:stream");
    if (!single && td_basic(r) != basic) fails.push_back("restore:stream:centroids");
    restored.push_back({"stream", td_content(r)});
  } catch (const std::exception&) { fails.push_back("restore:stream:throw"); }
  const std::string content = td_content(t);
  for (auto& pr : restored) if (pr.second != content) fails.push_back("restore:" + pr.first + ":content");
  return std::string("IMG ") + kind + " " + hex_of_bytes(img.data(), img.size()) + " | " + basic + " | " + chk(fails);
}

template<class T> static std::string td_cont(tdigest<T>& t, bool wb, unsigned n, uint64_t seed, int mode) {
  std::vector<std::string> fails;
  const Bytes img = td_stream(t, wb);
  std::unique_ptr<tdigest<T>> rb, rs;
  try { rb.reset(new tdigest<T>(tdigest<T>::deserialize(img.data(), img.size()))); } catch (const std::exception&) { fails.push_back("bytes:throw"); }
  try { std::string s((const char*)img.data(), img.size()); std::istringstream is(s, std::ios::binary); rs.reset(new tdigest<T>(tdigest<T>::deserialize(is))); }
  catch (const std::exception&) { fails.push_back("stream:throw"); }
  const uint64_t w0 = t.get_total_weight();
  td_updn(t, n, seed, mode);
  if (rb) td_updn(*rb, n, seed, mode);
  if (rs) td_updn(*rs, n, seed, mode);
  // logical content (the queries compress all three), then the compressed images
  const std::string c = td_content(t);
  if (rb && td_content(*rb) != c) fails.push_back("bytes:content-after");
  if (rs && td_content(*rs) != c) fails.push_back("stream:content-after");
  const Bytes after = td_stream(t, false);
  if (rb && td_stream(*rb, false) != after) fails.push_back("bytes:image-after");
  if (rs && td_stream(*rs, false) != after) fails.push_back("stream:image-after");
  return std::string("CONT td n=") + std::to_string(n) + " w0=" + std::to_string(w0) + " pre=" + hex_of_bytes(img.data(), img.size()) + " "
         + (fails.empty() ? "ok" : "fail:" + join(fails, ","));
}

// ================================================================== op handlers: density
template<class T> static void den_updn(density_sketch<T>& s, unsigned n, uint64_t seed, int mode) {
  Xs g(seed);
  const uint32_t dim = s.get_dim();
  for (unsigned i = 0; i < n; ++i) {
    std::vector<T> p(dim);
    for (uint32_t j = 0; j < dim; ++j) {
      double v = g.unit();
      if (mode == 1) v = (double)(g.next() % 3);                 // clustered, ties
      else if (mode == 2) v = (double)(g.next() % 1000) * 100.0; // far apart: the Gaussian kernel underflows to 0
      p[j] = static_cast<T>(v);
    }
    s.update(p);
  }
}

template<class T> static std::string den_ser(density_sketch<T>& s, const char* kind) {
  std::vector<std::string> fails;
  const Bytes img = den_stream(s);
  check_headers(img, [&](unsigned h) { auto v = s.serialize(h); return Bytes(v.begin(), v.end()); }, fails);
  const std::string content = den_content(s);
  try {
    density_sketch<T> r = density_sketch<T>::deserialize(img.data(), img.size());
    if (den_stream(r) != img) fails.push_back("reser:bytes");
    if (den_content(r) != content) fails.push_back("restore:bytes:content");
  } catch (const std::exception&) { fails.push_back("restore:bytes:throw"); }
  try {
    std::string str((const char*)img.data(), img.size());
    str.append((const char*)SENTINEL, sizeof SENTINEL);
    std::istringstream is(str, std::ios::binary);
    density_sketch<T> r = density_sketch<T>::deserialize(is);
    if (is.fail() || (size_t)is.tellg() != img.size()) fails.push_back("streampos");
    if (den_stream(r) != img) fails.push_back("reser:stream");
    if (den_content(r) != content) fails.push_back("restore:stream:content");
  } catch (const std::exception&) { fails.push_back("restore:stream:throw"); }
  return std::string("IMG ") + kind + " " + hex_of_bytes(img.data(), img.size()) + " | " + content + " | " + chk(fails);
}

template<class T> static std::string den_cont(density_sketch<T>& s, unsigned n, uint64_t seed, int mode) {
  std::vector<std::string> fails;
  const Bytes img = den_stream(s);
  std::unique_ptr<density_sketch<T>> rb, rs;
  try { rb.reset(new density_sketch<T>(density_sketch<T>::deserialize(img.data(), img.size()))); } catch (const std::exception&) { fails.push_back("bytes:throw"); }
  try { std::string str((const char*)img.data(), img.size()); std::istringstream is(str, std::ios::binary);
        rs.reset(new density_sketch<T>(density_sketch<T>::deserialize(is))); }
  catch (const std::exception&) { fails.push_back("stream:throw"); }
  const uint64_t n0 = s.get_n();
  const uint32_t nr0 = s.get_num_retained();
  // the same updates under the same installed coin source
  const uint64_t coin_seed = seed * 31 + 7;
  g_src.s = coin_seed; den_updn(s, n, seed, mode);
  const uint64_t after_state = g_src.s;
  if (rb) { g_src.s = coin_seed; den_updn(*rb, n, seed, mode); }
  if (rs) { g_src.s = coin_seed; den_updn(*rs, n, seed, mode); }
  g_src.s = after_state;
  const std::string c = den_content(s);
  if (rb && den_content(*rb) != c) fails.push_back("bytes:content-after");
  if (rs && den_content(*rs) != c) fails.push_back("stream:content-after");
  if (rb && den_stream(*rb) != den_stream(s)) fails.push_back("bytes:image-after");
  if (rs && den_stream(*rs) != den_stream(s)) fails.push_back("stream:image-after");
  return std::string("CONT den n=") + std::to_string(n) + " n0=" + std::to_string(n0) + " nr0=" + std::to_string(nr0) + " pre=" + hex_of_bytes(img.data(), img.size()) + " "
         + (fails.empty() ? "ok" : "fail:" + join(fails, ","));
}

// ================================================================== dispatcher
static size_t preamble_len(const std::string& kind, const Bytes& img) {
  if (kind == "bloom") return std::min<size_t>(img.size(), 32);
  if (kind == "den.f" || kind == "den.d") return std::min<size_t>(img.size(), 28);   // header + first level size
  // t-digest: header + counts + min + max (legacy: the fixed part)
  const size_t t = kind == "td.d" ? 8 : 4;
  if (img.size() >= 4 && img[0] == 0 && img[1] == 0 && img[2] == 0) return std::min<size_t>(img.size(), img[3] == 1 ? 32 : 30);
  return std::min<size_t>(img.size(), 16 + 2 * t);
}

static std::string do_sweep(const std::string& kind, const Bytes& img, bool pfx, bool cor) {
  const size_t np = preamble_len(kind, img);
  if (kind == "bloom") return sweep_line(kind, img, np, bloom_paths(), pfx, cor);
  if (kind == "td.d") return sweep_line(kind, img, np, td_paths<double>(), pfx, cor);
  if (kind == "td.f") return sweep_line(kind, img, np, td_paths<float>(), pfx, cor);
  if (kind == "den.f") return sweep_line(kind, img, np, den_paths<float>(), pfx, cor);
  if (kind == "den.d") return sweep_line(kind, img, np, den_paths<double>(), pfx, cor);
  throw std::runtime_error("bad kind");
}

template<class T> static std::string td_img(const char* kind, const Bytes& img) {
  Paths p; p.names = {"bytes", "stream"};
  return imgdec_line(kind, img, p, {
    [](const uint8_t* d, size_t n) { ExactBlock b(d, n); auto t = tdigest<T>::deserialize(b.p, b.n); const std::string bs = td_basic(t); return bs + " ## " + td_content(t); },
    [](const uint8_t* d, size_t n) { std::string s((const char*)d, n); std::istringstream is(s, std::ios::binary); auto t = tdigest<T>::deserialize(is); const std::string bs = td_basic(t); return bs + " ## " + td_content(t); }});
}
template<class T> static std::string den_img(const char* kind, const Bytes& img) {
  Paths p; p.names = {"bytes", "stream"};
  return imgdec_line(kind, img, p, {
    [](const uint8_t* d, size_t n) { ExactBlock b(d, n); auto s = density_sketch<T>::deserialize(b.p, b.n); return den_content(s); },
    [](const uint8_t* d, size_t n) { std::string str((const char*)d, n); std::istringstream is(str, std::ios::binary); auto s = density_sketch<T>::deserialize(is); return den_content(s); }});
}
static std::string bloom_img(const Bytes& img) {
  Paths p; p.names = {"bytes", "stream", "wrap", "wwrap"};
  return imgdec_line("bloom", img, p, {
    [](const uint8_t* d, size_t n) { ExactBlock b(d, n); BF f = BF::deserialize(b.p, b.n); return bloom_content(f); },
    [](const uint8_t* d, size_t n) { std::string s((const char*)d, n); std::istringstream is(s, std::ios::binary); BF f = BF::deserialize(is); return bloom_content(f); },
    [](const uint8_t* d, size_t n) { ExactBlock b(d, n); BF f = BF::wrap(b.p, b.n); return bloom_content(f); },
    [](const uint8_t* d, size_t n) { ExactBlock b(d, n); BF f = BF::writable_wrap(b.p, b.n); return bloom_content(f); }});
}

static std::string step(const std::vector<std::string>& w) {
  const std::string& op = w[0];
  auto I = [&](size_t i) { return (int)strtol(w.at(i).c_str(), nullptr, 10); };
  auto U = [&](size_t i) { return (uint64_t)strtoull(w.at(i).c_str(), nullptr, 10); };
  // ---- Bloom
  if (op == "bf.new") { BloomObj o; o.f.reset(new BF(BF::builder::create_by_size(U(2), (uint16_t)U(3), U(4)))); g_bloom[I(1)] = std::move(o); return "ok"; }
  if (op == "bf.mem") {
    BloomObj o;
    const uint64_t nbits = U(2);
    o.mem_len = BF::get_serialized_size_bytes(nbits) + (size_t)(w.size() > 5 ? U(5) : 0);   // optional slack
    o.mem.reset(new uint8_t[o.mem_len]);
    memset(o.mem.get(), 0xEE, o.mem_len);
    o.f.reset(new BF(BF::builder::initialize_by_size(o.mem.get(), o.mem_len, nbits, (uint16_t)U(3), U(4))));
    g_bloom[I(1)] = std::move(o); return "ok";
  }
  if (op == "bf.upd") { bf_get(I(1)).update(U(2)); return "ok"; }
  if (op == "bf.updn") { BF& f = bf_get(I(1)); Xs g(U(3)); for (uint64_t i = 0; i < U(2); ++i) f.update(g.next() % 4096); return "ok"; }
  if (op == "bf.qupd") { return bf_get(I(1)).query_and_update(U(2)) ? "1" : "0"; }
  if (op == "bf.used") { return "used " + std::to_string(bf_get(I(1)).get_bits_used()); }
  if (op == "bf.union") { bf_get(I(1)).union_with(bf_get(I(2))); return "ok"; }
  if (op == "bf.inter") { bf_get(I(1)).intersect(bf_get(I(2))); return "ok"; }
  if (op == "bf.inv") { bf_get(I(1)).invert(); return "ok"; }
  if (op == "bf.reset") { bf_get(I(1)).reset(); return "ok"; }
  if (op == "bf.copy") { BloomObj o; o.f.reset(new BF(bf_get(I(1)))); if (o.f->is_wrapped()) throw std::runtime_error("copy of wrapped filter not supported here"); g_bloom[I(2)] = std::move(o); return "ok"; }
  if (op == "bf.ser") { bf_get(I(1)); return isolated(op, [&] { return bloom_ser(I(1)); }); }
  if (op == "bf.cont") {
    BF& f = bf_get(I(1));
    const int mode = w.size() > 4 ? I(4) : 0;
    std::string r = isolated(op, [&] { return bloom_cont(I(1), (unsigned)U(2), U(3), mode); });
    bloom_apply(f, (unsigned)U(2), U(3), mode, nullptr);   // the original continues with the same operations
    return r;
  }
  if (op == "bf.sweep") { BF& f = bf_get(I(1)); return do_sweep("bloom", bloom_stream(f), w.at(2) != "c", w.at(2) != "p"); }
  // ---- t-digest
  if (op == "td.new") {
    TdObj o; o.t = w.at(2)[0];
    if (o.t == 'd') o.d.reset(new tdigest<double>((uint16_t)U(3))); else o.f.reset(new tdigest<float>((uint16_t)U(3)));
    g_td[I(1)] = std::move(o); return "ok";
  }
  if (op.compare(0, 3, "td.") == 0) {
    auto it = g_td.find(I(1));
    if (it == g_td.end()) throw std::runtime_error("no such tdigest");
    TdObj& o = it->second;
    const char* kind = o.t == 'd' ? "td.d" : "td.f";
    if (op == "td.upd") { if (o.t == 'd') o.d->update(ofHexT<double>(w.at(2))); else o.f->update(ofHexT<float>(w.at(2))); return "ok"; }
    if (op == "td.updn") { if (o.t == 'd') td_updn(*o.d, (unsigned)U(2), U(3), I(4)); else td_updn(*o.f, (unsigned)U(2), U(3), I(4)); return "ok"; }
    if (op == "td.compress") { if (o.t == 'd') o.d->compress(); else o.f->compress(); return "ok"; }
    if (op == "td.merge") {
      auto jt = g_td.find(I(2));
      if (jt == g_td.end() || jt->second.t != o.t) throw std::runtime_error("bad merge operand");
      if (o.t == 'd') o.d->merge(*jt->second.d); else o.f->merge(*jt->second.f);
      return "ok";
    }
    if (op == "td.ser") return isolated(op, [&] { return o.t == 'd' ? td_ser(*o.d, kind, I(2) != 0) : td_ser(*o.f, kind, I(2) != 0); });
    if (op == "td.cont") {
      std::string r = isolated(op, [&] { return o.t == 'd' ? td_cont(*o.d, I(2) != 0, (unsigned)U(3), U(4), I(5)) : td_cont(*o.f, I(2) != 0, (unsigned)U(3), U(4), I(5)); });
      if (I(2) == 0) { if (o.t == 'd') o.d->compress(); else o.f->compress(); }   // serialize(with_buffer=false) compresses the original
      if (o.t == 'd') td_updn(*o.d, (unsigned)U(3), U(4), I(5)); else td_updn(*o.f, (unsigned)U(3), U(4), I(5));
      return r;
    }
    if (op == "td.sweep") {
      const bool wb = I(2) != 0;
      Bytes img = o.t == 'd' ? td_stream(*o.d, wb) : td_stream(*o.f, wb);
      return do_sweep(kind, img, w.at(3) != "c", w.at(3) != "p");
    }
  }
  // ---- density
  if (op == "rng") { g_src.s = U(1); return "ok"; }
  if (op == "den.new") {
    DenObj o; o.t = w.at(2)[0];
    if (o.t == 'f') o.f.reset(new density_sketch<float>((uint16_t)U(3), (uint32_t)U(4))); else o.d.reset(new density_sketch<double>((uint16_t)U(3), (uint32_t)U(4)));
    g_den[I(1)] = std::move(o); return "ok";
  }
  if (op.compare(0, 4, "den.") == 0) {
    auto it = g_den.find(I(1));
    if (it == g_den.end()) throw std::runtime_error("no such density sketch");
    DenObj& o = it->second;
    const char* kind = o.t == 'f' ? "den.f" : "den.d";
    if (op == "den.upd") {
      if (o.t == 'f') { std::vector<float> p; for (size_t i = 2; i < w.size(); ++i) p.push_back(ofHexT<float>(w[i])); o.f->update(p); }
      else { std::vector<double> p; for (size_t i = 2; i < w.size(); ++i) p.push_back(ofHexT<double>(w[i])); o.d->update(p); }
      return "ok";
    }
    if (op == "den.updn") { if (o.t == 'f') den_updn(*o.f, (unsigned)U(2), U(3), I(4)); else den_updn(*o.d, (unsigned)U(2), U(3), I(4)); return "ok"; }
    if (op == "den.merge") {
      auto jt = g_den.find(I(2));
      if (jt == g_den.end() || jt->second.t != o.t) throw std::runtime_error("bad merge operand");
      if (o.t == 'f') o.f->merge(*jt->second.f); else o.d->merge(*jt->second.d);
      return "ok";
    }
    if (op == "den.ser") return isolated(op, [&] { return o.t == 'f' ? den_ser(*o.f, kind) : den_ser(*o.d, kind); });
    if (op == "den.cont") {
      std::string r = isolated(op, [&] { return o.t == 'f' ? den_cont(*o.f, (unsigned)U(2), U(3), I(4)) : den_cont(*o.d, (unsigned)U(2), U(3), I(4)); });
      g_src.s = U(3) * 31 + 7;   // the original continues with the same updates under the same coins
      if (o.t == 'f') den_updn(*o.f, (unsigned)U(2), U(3), I(4)); else den_updn(*o.d, (unsigned)U(2), U(3), I(4));
      return r;
    }
    if (op == "den.sweep") {
      Bytes img = o.t == 'f' ? den_stream(*o.f) : den_stream(*o.d);
      return do_sweep(kind, img, w.at(2) != "c", w.at(2) != "p");
    }
  }
  // ---- given images
  if (op == "img") {
    const std::string& kind = w.at(1);
    const Bytes img = vh::bytes_of_hex(w.at(2));
    return isolated(op, [&]() -> std::string {
      if (kind == "bloom") return bloom_img(img);
      if (kind == "td.d") return td_img<double>("td.d", img);
      if (kind == "td.f") return td_img<float>("td.f", img);
      if (kind == "den.f") return den_img<float>("den.f", img);
      if (kind == "den.d") return den_img<double>("den.d", img);
      return "bad-kind";
    });
  }
  if (op == "sweepimg") { return do_sweep(w.at(1), vh::bytes_of_hex(w.at(2)), w.at(3) != "c", w.at(3) != "p"); }
  return "bad-op";
}

int main(int, char**) {
  random_utils::verif_source = &g_src;
  return vh::run_loop(step);
}

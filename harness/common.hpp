// Shared helpers for the correspondence harnesses (line protocol, hex, canonical printing).
#pragma once
#include <cstdint>
#include <cstring>
#include <cstdio>
#include <string>
#include <vector>
#include <map>
#include <memory>
#include <sstream>
#include <iostream>
#include <algorithm>
#include <stdexcept>
#include <cmath>

namespace vh {

inline std::vector<std::string> split(const std::string& line) {
  std::vector<std::string> w; std::istringstream is(line); std::string t;
  while (is >> t) w.push_back(t);
  return w;
}

inline std::string hex_u64(uint64_t x) { char b[32]; snprintf(b, sizeof b, "%016llx", (unsigned long long)x); return b; }
inline std::string hex_u32(uint32_t x) { char b[32]; snprintf(b, sizeof b, "%08x", x); return b; }
inline std::string hex_f64(double d) { uint64_t u; memcpy(&u, &d, 8); return hex_u64(u); }
inline std::string hex_f32(float d) { uint32_t u; memcpy(&u, &d, 4); return hex_u32(u); }
inline double f64_of_hex(const std::string& s) { uint64_t u = strtoull(s.c_str(), nullptr, 16); double d; memcpy(&d, &u, 8); return d; }
inline float f32_of_hex(const std::string& s) { uint32_t u = (uint32_t)strtoul(s.c_str(), nullptr, 16); float d; memcpy(&d, &u, 4); return d; }

inline std::vector<uint8_t> bytes_of_hex(const std::string& s) {
  std::vector<uint8_t> b; if (s == "-") return b;
  for (size_t i = 0; i + 1 < s.size(); i += 2) b.push_back((uint8_t)strtoul(s.substr(i, 2).c_str(), nullptr, 16));
  return b;
}
inline std::string hex_of_bytes(const uint8_t* p, size_t n) {
  if (n == 0) return "-";
  static const char* d = "0123456789abcdef"; std::string s; s.reserve(2 * n);
  for (size_t i = 0; i < n; ++i) { s.push_back(d[p[i] >> 4]); s.push_back(d[p[i] & 15]); }
  return s;
}

inline uint64_t fold64(const std::vector<uint64_t>& l) {
  uint64_t a = 0x1234567ULL;
  for (uint64_t x : l) a = (a * 0x9E3779B97F4A7C15ULL) ^ x ^ (a >> 29);
  return a;
}

// thrown by harness code (never by the library) for malformed op lines / unknown object ids -> observation "bad-op"
struct bad_op : std::exception { const char* what() const noexcept override { return "bad-op"; } };

template<typename M>
typename M::mapped_type& at(M& m, int id) { auto it = m.find(id); if (it == m.end()) throw bad_op(); return it->second; }

// Generic main loop: `step` returns the observation line for one op; any std::exception -> "throw".
template<typename F>
int run_loop(F step) {
  std::string line;
  while (std::getline(std::cin, line)) {
    auto w = split(line);
    if (w.empty() || w[0][0] == '#') continue;
    std::string out;
    try { out = step(w); }
    catch (const bad_op&) { out = "bad-op"; }
    catch (const std::exception& e) { out = std::string("throw"); if (getenv("VH_VERBOSE")) out += std::string(" ") + e.what(); }
    std::cout << out << "\n";
  }
  std::cout.flush();
  return 0;
}

} // namespace vh

// Correspondence harness: tuple family (C13). Three instantiations of the same generic code:
//   lst  - list-append summary (non-commutative: arrival order and operand order are observable)
//   sum  - double summary with the default (+=) policies
//   aodN - update_array_tuple_sketch with N columns (array-of-doubles specialisation)
// plus theta sketches converted with compact_tuple_sketch(theta_sketch, summary, ordered).
#include "common.hpp"
#include "theta_sketch.hpp"
#include "tuple_sketch.hpp"
#include "tuple_union.hpp"
#include "tuple_intersection.hpp"
#include "tuple_a_not_b.hpp"
#include "array_tuple_sketch.hpp"
#include "array_tuple_union.hpp"
#include "array_tuple_intersection.hpp"
#include "array_tuple_a_not_b.hpp"

using namespace datasketches;

// ---------------------------------------------------------------- families
struct LstFam {
  using S = std::vector<int64_t>;
  using V = int64_t;
  struct upd_policy { S create() const { return S(); } void update(S& s, V v) const { s.push_back(v); } };
  struct set_policy { void operator()(S& a, const S& b) const { a.insert(a.end(), b.begin(), b.end()); } };
  using Upd = update_tuple_sketch<S, V, upd_policy>;
  using Cmp = compact_tuple_sketch<S>;
  using Uni = tuple_union<S, set_policy>;
  using Int = tuple_intersection<S, set_policy>;
  using Anb = tuple_a_not_b<S>;
  static constexpr bool generic_ops = true;
  int n = 1;
  Upd make_upd(uint8_t lgk, resize_factor rf, float p, uint64_t seed) const {
    return Upd::builder().set_lg_k(lgk).set_resize_factor(rf).set_p(p).set_seed(seed).build(); }
  Uni make_uni(uint8_t lgk, resize_factor rf, float p, uint64_t seed) const {
    return Uni::builder().set_lg_k(lgk).set_resize_factor(rf).set_p(p).set_seed(seed).build(); }
  Int make_int(uint64_t seed) const { return Int(seed); }
  Anb make_anb(uint64_t seed) const { return Anb(seed); }
  V value(const std::vector<int64_t>& v) const { return v.at(0); }
  S summary_of(const std::vector<int64_t>& v) const { return S(v.begin(), v.end()); }
  static std::string show(const S& s) { if (s.empty()) return "-"; std::string r; for (size_t i = 0; i < s.size(); ++i) { if (i) r += ","; r += std::to_string(s[i]); } return r; }
  static int64_t total(const S& s) { int64_t t = 0; for (auto x : s) t += x; return t; }
  template<typename Sk> Cmp* compact(const Sk& s, bool ord) const { return new Cmp(s, ord); }
  Cmp* from_theta(const theta_sketch& t, const std::vector<int64_t>& v, bool ord) const { return new Cmp(t, summary_of(v), ord); }
  Cmp* result(const Uni& u, bool ord) const { return new Cmp(u.get_result(ord)); }
  Cmp* result(const Int& u, bool ord) const { return new Cmp(u.get_result(ord)); }
  template<typename A, typename B> Cmp* anotb(const Anb& x, const A& a, const B& b, bool ord) const { return new Cmp(x.compute(a, b, ord)); }
};

struct SumFam {
  using S = double;
  using V = double;
  struct set_policy { void operator()(S& a, const S& b) const { a += b; } };
  using Upd = update_tuple_sketch<S>;
  using Cmp = compact_tuple_sketch<S>;
  using Uni = tuple_union<S>;
  using Int = tuple_intersection<S, set_policy>;
  using Anb = tuple_a_not_b<S>;
  static constexpr bool generic_ops = true;
  int n = 1;
  Upd make_upd(uint8_t lgk, resize_factor rf, float p, uint64_t seed) const {
    return Upd::builder().set_lg_k(lgk).set_resize_factor(rf).set_p(p).set_seed(seed).build(); }
  Uni make_uni(uint8_t lgk, resize_factor rf, float p, uint64_t seed) const {
    return Uni::builder().set_lg_k(lgk).set_resize_factor(rf).set_p(p).set_seed(seed).build(); }
  Int make_int(uint64_t seed) const { return Int(seed); }
  Anb make_anb(uint64_t seed) const { return Anb(seed); }
  V value(const std::vector<int64_t>& v) const { return (double)v.at(0); }
  S summary_of(const std::vector<int64_t>& v) const { double t = 0; for (auto x : v) t += (double)x; return t; }
  static std::string show(const S& s) { return std::to_string((long long)std::llround(s)); }
  static int64_t total(const S& s) { return (int64_t)std::llround(s); }
  template<typename Sk> Cmp* compact(const Sk& s, bool ord) const { return new Cmp(s, ord); }
  Cmp* from_theta(const theta_sketch& t, const std::vector<int64_t>& v, bool ord) const { return new Cmp(t, summary_of(v), ord); }
  Cmp* result(const Uni& u, bool ord) const { return new Cmp(u.get_result(ord)); }
  Cmp* result(const Int& u, bool ord) const { return new Cmp(u.get_result(ord)); }
  template<typename A, typename B> Cmp* anotb(const Anb& x, const A& a, const B& b, bool ord) const { return new Cmp(x.compute(a, b, ord)); }
};

struct AodFam {
  using Arr = array<double>;
  using S = Arr;
  using V = std::vector<double>;
  using Upd = update_array_tuple_sketch<Arr>;
  using CmpA = compact_array_tuple_sketch<Arr>;
  using Cmp = CmpA;   // the base-class results of filter()/theta conversion cannot be fed back to the array operators
  static constexpr bool generic_ops = false;
  using Uni = array_tuple_union<Arr>;
  using Int = array_tuple_intersection<Arr, default_array_tuple_union_policy<Arr>>;
  using Anb = array_tuple_a_not_b<Arr>;
  int n = 1;
  Upd make_upd(uint8_t lgk, resize_factor rf, float p, uint64_t seed) const {
    return Upd::builder(default_array_tuple_update_policy<Arr>((uint8_t)n)).set_lg_k(lgk).set_resize_factor(rf).set_p(p).set_seed(seed).build(); }
  Uni make_uni(uint8_t lgk, resize_factor rf, float p, uint64_t seed) const {
    return Uni::builder(default_array_tuple_union_policy<Arr>((uint8_t)n)).set_lg_k(lgk).set_resize_factor(rf).set_p(p).set_seed(seed).build(); }
  Int make_int(uint64_t seed) const { return Int(seed, default_array_tuple_union_policy<Arr>((uint8_t)n)); }
  Anb make_anb(uint64_t seed) const { return Anb(seed); }
  V value(const std::vector<int64_t>& v) const { V r; for (int i = 0; i < n; ++i) r.push_back((double)v.at(i)); return r; }
  S summary_of(const std::vector<int64_t>& v) const { Arr a((uint8_t)n, 0.0); for (size_t i = 0; i < v.size(); ++i) a[i % n] += (double)v[i]; return a; }
  static std::string show(const S& s) { std::string r; for (uint8_t i = 0; i < s.size(); ++i) { if (i) r += ","; r += std::to_string((long long)std::llround(s[i])); } return r; }
  static int64_t total(const S& s) { return (int64_t)std::llround(s[0]); }
  template<typename Sk> Cmp* compact(const Sk& s, bool ord) const { return new CmpA(s, ord); }
  Cmp* result(const Uni& u, bool ord) const { return new CmpA(u.get_result(ord)); }
  Cmp* result(const Int& u, bool ord) const { return new CmpA(u.get_result(ord)); }
  template<typename A, typename B> Cmp* anotb(const Anb& x, const A& a, const B& b, bool ord) const { return new CmpA(x.compute(a, b, ord)); }
};

// theta sketches (operands for tfromtheta)
static std::map<int, std::unique_ptr<update_theta_sketch>> thetas;


template<typename F>
struct Store {
  F fam;
  struct Obj {
    std::unique_ptr<typename F::Upd> upd;
    std::unique_ptr<update_theta_sketch> shadow;   // a Theta sketch with the same configuration fed the same keys
    std::unique_ptr<typename F::Cmp> cmp;
    std::unique_ptr<typename F::Uni> uni;
    std::unique_ptr<typename F::Int> inter;
  };
  std::map<int, Obj> objs;

  template<typename Sk>
  std::string observe(const Sk& s) {
    std::vector<std::pair<uint64_t, std::string>> es;
    for (const auto& e : s) es.push_back({e.first, F::show(e.second)});
    if (!s.is_ordered()) std::sort(es.begin(), es.end());
    std::ostringstream os;
    os << "U " << s.get_theta64() << " " << (s.is_empty() ? 1 : 0) << " " << (s.is_estimation_mode() ? 1 : 0) << " "
       << (s.is_ordered() ? 1 : 0) << " " << s.get_num_retained() << " " << vh::hex_f64(s.get_estimate()) << " " << s.get_seed_hash();
    for (auto& e : es) os << " " << e.first << ":" << e.second;
    return os.str();
  }
  std::string observe_obj(const Obj& o) {
    if (!o.upd) return observe(*o.cmp);
    // "retains exactly the keys a Theta sketch with the same configuration would retain"
    std::vector<uint64_t> a, b;
    for (const auto& e : *o.upd) a.push_back(e.first);
    for (auto h : *o.shadow) b.push_back(h);
    std::sort(a.begin(), a.end()); std::sort(b.begin(), b.end());
    bool same = a == b && o.upd->get_theta64() == o.shadow->get_theta64() && o.upd->is_empty() == o.shadow->is_empty()
      && o.upd->is_estimation_mode() == o.shadow->is_estimation_mode();
    return observe(*o.upd) + (same ? " sh=1" : " sh=0");
  }
  static void key_only(update_theta_sketch& s, const std::string& ty, const std::string& lit) {
    if (ty == "u64") s.update((uint64_t)strtoull(lit.c_str(), nullptr, 10));
    else if (ty == "i64") s.update((int64_t)strtoll(lit.c_str(), nullptr, 10));
    else if (ty == "u32") s.update((uint32_t)strtoull(lit.c_str(), nullptr, 10));
    else if (ty == "i32") s.update((int32_t)strtoll(lit.c_str(), nullptr, 10));
    else if (ty == "u16") s.update((uint16_t)strtoull(lit.c_str(), nullptr, 10));
    else if (ty == "i16") s.update((int16_t)strtoll(lit.c_str(), nullptr, 10));
    else if (ty == "u8") s.update((uint8_t)strtoull(lit.c_str(), nullptr, 10));
    else if (ty == "i8") s.update((int8_t)strtoll(lit.c_str(), nullptr, 10));
    else if (ty == "f64") s.update(vh::f64_of_hex(lit));
    else if (ty == "f32") s.update(vh::f32_of_hex(lit));
    else if (ty == "str") { auto b = vh::bytes_of_hex(lit); s.update(std::string(b.begin(), b.end())); }
    else if (ty == "raw") { auto b = vh::bytes_of_hex(lit); s.update((const void*)b.data(), b.size()); }
  }

  template<typename Fn> auto with_sketch(const Obj& o, Fn f) {
    if (o.upd) return f(*o.upd);
    if (o.cmp) return f(*o.cmp);
    throw vh::bad_op();
  }

  template<typename Sk> void do_update(Sk& s, const std::string& ty, const std::string& lit, const typename F::V& v) {
    if (ty == "u64") s.update((uint64_t)strtoull(lit.c_str(), nullptr, 10), v);
    else if (ty == "i64") s.update((int64_t)strtoll(lit.c_str(), nullptr, 10), v);
    else if (ty == "u32") s.update((uint32_t)strtoull(lit.c_str(), nullptr, 10), v);
    else if (ty == "i32") s.update((int32_t)strtoll(lit.c_str(), nullptr, 10), v);
    else if (ty == "u16") s.update((uint16_t)strtoull(lit.c_str(), nullptr, 10), v);
    else if (ty == "i16") s.update((int16_t)strtoll(lit.c_str(), nullptr, 10), v);
    else if (ty == "u8") s.update((uint8_t)strtoull(lit.c_str(), nullptr, 10), v);
    else if (ty == "i8") s.update((int8_t)strtoll(lit.c_str(), nullptr, 10), v);
    else if (ty == "f64") s.update(vh::f64_of_hex(lit), v);
    else if (ty == "f32") s.update(vh::f32_of_hex(lit), v);
    else if (ty == "str") { auto b = vh::bytes_of_hex(lit); s.update(std::string(b.begin(), b.end()), v); }
    else if (ty == "raw") { auto b = vh::bytes_of_hex(lit); s.update((const void*)b.data(), b.size(), v); }
    else throw vh::bad_op();
  }

  static std::vector<int64_t> ints(const std::vector<std::string>& w, size_t from) {
    std::vector<int64_t> v; for (size_t i = from; i < w.size(); ++i) v.push_back(strtoll(w[i].c_str(), nullptr, 10)); return v;
  }

  // w[0] = op, w[1] = kind (already used for dispatch), ids from w[2]
  std::string step(const std::vector<std::string>& w) {
    const std::string& op = w[0];
    auto id = [&](size_t i) { return atoi(w.at(i).c_str()); };
    if (op == "tnew") {
      Obj o; o.upd.reset(new typename F::Upd(fam.make_upd((uint8_t)id(3), (resize_factor)id(4), vh::f32_of_hex(w.at(5)), strtoull(w.at(6).c_str(), nullptr, 10))));
      o.shadow.reset(new update_theta_sketch(update_theta_sketch::builder().set_lg_k((uint8_t)id(3)).set_resize_factor((resize_factor)id(4))
        .set_p(vh::f32_of_hex(w.at(5))).set_seed(strtoull(w.at(6).c_str(), nullptr, 10)).build()));
      objs[id(2)] = std::move(o); return observe_obj(objs[id(2)]);
    }
    if (op == "tupd") {
      Obj& o = vh::at(objs, id(2)); if (!o.upd) throw vh::bad_op();
      auto vals = ints(w, 5);
      if ((int)vals.size() != fam.n) throw vh::bad_op();
      do_update(*o.upd, w.at(3), w.at(4), fam.value(vals));
      key_only(*o.shadow, w.at(3), w.at(4));
      return observe_obj(o);
    }
    if (op == "ttrim") { Obj& o = vh::at(objs, id(2)); if (!o.upd) throw vh::bad_op(); o.upd->trim(); o.shadow->trim(); return observe_obj(o); }
    if (op == "treset") { Obj& o = vh::at(objs, id(2)); if (!o.upd) throw vh::bad_op(); o.upd->reset(); o.shadow->reset(); return observe_obj(o); }
    if (op == "tcopy") {
      Obj& o = vh::at(objs, id(2)); Obj n;
      if (o.upd) { n.upd.reset(new typename F::Upd(*o.upd)); n.shadow.reset(new update_theta_sketch(*o.shadow)); } else if (o.cmp) n.cmp.reset(fam.compact(*o.cmp, o.cmp->is_ordered())); else throw vh::bad_op();
      objs[id(3)] = std::move(n); return observe_obj(objs[id(3)]);
    }
    if (op == "tcompact") {
      Obj& o = vh::at(objs, id(2)); bool ord = w.at(4) == "1"; Obj n;
      n.cmp.reset(with_sketch(o, [&](const auto& s) { return fam.compact(s, ord); }));
      objs[id(3)] = std::move(n); return observe_obj(objs[id(3)]);
    }
    if constexpr (F::generic_ops) {
      if (op == "tfilter") {   // keep entries whose summary total >= threshold
        Obj& o = vh::at(objs, id(2)); int64_t thr = strtoll(w.at(4).c_str(), nullptr, 10); Obj n;
        auto pred = [thr](const typename F::S& s) { return F::total(s) >= thr; };
        n.cmp.reset(with_sketch(o, [&](const auto& s) { return new typename F::Cmp(s.filter(pred)); }));
        objs[id(3)] = std::move(n); return observe_obj(objs[id(3)]);
      }
      if (op == "tfromtheta") {  // tfromtheta kind thetaId newId ordered v...
        auto it = thetas.find(id(2)); if (it == thetas.end()) throw vh::bad_op();
        Obj n; n.cmp.reset(fam.from_theta(*it->second, ints(w, 5), w.at(4) == "1"));
        objs[id(3)] = std::move(n); return observe_obj(objs[id(3)]);
      }
    }
    if (op == "tunew") {
      Obj o; o.uni.reset(new typename F::Uni(fam.make_uni((uint8_t)id(3), (resize_factor)id(4), vh::f32_of_hex(w.at(5)), strtoull(w.at(6).c_str(), nullptr, 10))));
      objs[id(2)] = std::move(o); return "ok";
    }
    if (op == "tuupd") {
      Obj& u = vh::at(objs, id(2)); const Obj& s = vh::at(objs, id(3)); if (!u.uni) throw vh::bad_op();
      bool mv = w.size() > 4 && w[4] == "mv";
      if (mv && s.upd) { typename F::Upd tmp(*s.upd); u.uni->update(std::move(tmp)); }
      else with_sketch(s, [&](const auto& sk) { u.uni->update(sk); return 0; });
      return "ok";
    }
    if (op == "tures") {
      Obj& u = vh::at(objs, id(2)); if (!u.uni) throw vh::bad_op();
      Obj n; n.cmp.reset(fam.result(*u.uni, w.at(4) == "1"));
      objs[id(3)] = std::move(n); return observe_obj(objs[id(3)]);
    }
    if (op == "tureset") { Obj& u = vh::at(objs, id(2)); if (!u.uni) throw vh::bad_op(); u.uni->reset(); return "ok"; }
    if (op == "tinew") {
      Obj o; o.inter.reset(new typename F::Int(fam.make_int(strtoull(w.at(3).c_str(), nullptr, 10))));
      objs[id(2)] = std::move(o); return "ok";
    }
    if (op == "tiupd") {
      Obj& i = vh::at(objs, id(2)); const Obj& s = vh::at(objs, id(3)); if (!i.inter) throw vh::bad_op();
      bool mv = w.size() > 4 && w[4] == "mv";
      if (mv && s.upd) { typename F::Upd tmp(*s.upd); i.inter->update(std::move(tmp)); }
      else with_sketch(s, [&](const auto& sk) { i.inter->update(sk); return 0; });
      return "ok";
    }
    if (op == "tires") {
      Obj& i = vh::at(objs, id(2)); if (!i.inter) throw vh::bad_op();
      Obj n; n.cmp.reset(fam.result(*i.inter, w.at(4) == "1"));
      objs[id(3)] = std::move(n); return observe_obj(objs[id(3)]);
    }
    if (op == "tihas") { Obj& i = vh::at(objs, id(2)); if (!i.inter) throw vh::bad_op(); return std::string("has ") + (i.inter->has_result() ? "1" : "0"); }
    if (op == "tanotb") {   // tanotb kind a b new ordered seed
      const Obj& a = vh::at(objs, id(2)); const Obj& b = vh::at(objs, id(3));
      auto anb = fam.make_anb(strtoull(w.at(6).c_str(), nullptr, 10)); bool ord = w.at(5) == "1"; Obj n;
      n.cmp.reset(with_sketch(a, [&](const auto& sa) { return with_sketch(b, [&](const auto& sb) { return fam.anotb(anb, sa, sb, ord); }); }));
      objs[id(4)] = std::move(n); return observe_obj(objs[id(4)]);
    }
    return "bad-op";
  }
};

static Store<LstFam> lst;
static Store<SumFam> sum;
static Store<AodFam> aod1, aod2, aod3;

static std::string theta_step(const std::vector<std::string>& w) {
  if (w[0] == "new") {
    auto b = update_theta_sketch::builder();
    b.set_lg_k((uint8_t)atoi(w.at(2).c_str())).set_resize_factor((resize_factor)atoi(w.at(3).c_str())).set_p(vh::f32_of_hex(w.at(4))).set_seed(strtoull(w.at(5).c_str(), nullptr, 10));
    thetas[atoi(w.at(1).c_str())].reset(new update_theta_sketch(b.build()));
    return "ok";
  }
  if (w[0] == "upd") {   // upd id u64 <n>
    auto it = thetas.find(atoi(w.at(1).c_str())); if (it == thetas.end()) throw vh::bad_op();
    it->second->update((uint64_t)strtoull(w.at(3).c_str(), nullptr, 10));
    return "ok";
  }
  return "bad-op";
}

static std::string step(const std::vector<std::string>& w) {
  if (w[0] == "new" || w[0] == "upd") return theta_step(w);
  if (w.size() < 2) return "bad-op";
  const std::string& k = w[1];
  if (k == "lst") return lst.step(w);
  if (k == "sum") return sum.step(w);
  if (k == "aod1") return aod1.step(w);
  if (k == "aod2") return aod2.step(w);
  if (k == "aod3") return aod3.step(w);
  return "bad-op";
}

int main() {
  aod1.fam.n = 1; aod2.fam.n = 2; aod3.fam.n = 3;
  return vh::run_loop(step);
}

// Correspondence harness: theta family (C01 update sketch; C02 set ops added below) + hash tie.
#include "common.hpp"
#include "theta_sketch.hpp"
#include "theta_union.hpp"
#include "theta_intersection.hpp"
#include "theta_a_not_b.hpp"
#include "theta_jaccard_similarity.hpp"

using namespace datasketches;
using vh::split;

struct Obj {
  std::unique_ptr<update_theta_sketch> upd;
  std::unique_ptr<compact_theta_sketch> cmp;
  std::unique_ptr<wrapped_compact_theta_sketch> wrp;   // read-only view over `bytes`
  std::shared_ptr<std::vector<uint8_t>> bytes;
  std::unique_ptr<theta_union> uni;
  std::unique_ptr<theta_intersection> inter;
  bool is_sketch() const { return upd || cmp || wrp; }
  const theta_sketch& sk() const { return upd ? static_cast<const theta_sketch&>(*upd) : static_cast<const theta_sketch&>(*cmp); }
};

static std::map<int, Obj> objs;

template<typename S>
static std::string observe(const S& s) {
  std::ostringstream os;
  std::vector<uint64_t> ks;
  for (auto h : s) ks.push_back(h);
  if (!s.is_ordered()) std::sort(ks.begin(), ks.end());
  os << "T " << s.get_theta64() << " " << (s.is_empty() ? 1 : 0) << " " << (s.is_estimation_mode() ? 1 : 0) << " "
     << (s.is_ordered() ? 1 : 0) << " " << s.get_num_retained() << " " << vh::hex_f64(s.get_estimate()) << " " << s.get_seed_hash();
  if (ks.size() <= 4096) { for (auto k : ks) os << " " << k; }
  else os << " fold " << vh::hex_u64(vh::fold64(ks));
  return os.str();
}

static std::string observe_obj(const Obj& o) {
  if (o.wrp) return observe(*o.wrp);
  return observe(o.sk());
}

// apply f to the operand in whatever physical form it has
template<typename F>
static auto with_operand(const Obj& o, F f) {
  if (o.upd) return f(*o.upd);
  if (o.cmp) return f(*o.cmp);
  if (o.wrp) return f(*o.wrp);
  throw std::logic_error("not a sketch");
}

template<typename S>
static void do_update(S& s, const std::string& ty, const std::string& lit) {
  if (ty == "u64") s.update((uint64_t)strtoull(lit.c_str(), nullptr, 10));
  else if (ty == "i64") s.update((int64_t)strtoll(lit.c_str(), nullptr, 10));
  else if (ty == "u32") s.update((uint32_t)strtoull(lit.c_str(), nullptr, 10));
  else if (ty == "i32") s.update((int32_t)strtoll(lit.c_str(), nullptr, 10));
  else if (ty == "u16") s.update((uint16_t)strtoull(lit.c_str(), nullptr, 10));
  else if (ty == "i16") s.update((int16_t)strtoll(lit.c_str(), nullptr, 10));
  else if (ty == "u8") s.update((uint8_t)strtoull(lit.c_str(), nullptr, 10));
  else if (ty == "i8") s.update((int8_t)strtoll(lit.c_str(), nullptr, 10));
  else if (ty == "f64") s.update(vh::f64_of_hex(lit));
  else if (ty == "f32") s.update(vh::f32_of_hex(lit));
  else if (ty == "str") { auto b = vh::bytes_of_hex(lit); s.update(std::string(b.begin(), b.end())); }
  else if (ty == "raw") { auto b = vh::bytes_of_hex(lit); s.update((const void*)b.data(), b.size()); }
  else throw std::runtime_error("bad type");
}

static std::string step(const std::vector<std::string>& w) {
  const std::string& op = w[0];
  if (op == "new") {
    int id = atoi(w[1].c_str());
    auto b = update_theta_sketch::builder();
    b.set_lg_k((uint8_t)atoi(w[2].c_str())).set_resize_factor((resize_factor)atoi(w[3].c_str()))
     .set_p(vh::f32_of_hex(w[4])).set_seed(strtoull(w[5].c_str(), nullptr, 10));
    Obj o; o.upd.reset(new update_theta_sketch(b.build()));
    objs[id] = std::move(o);
    return observe(objs[id].sk());
  }
  if (op == "upd") {
    Obj& o = vh::at(objs, atoi(w[1].c_str()));
    do_update(*o.upd, w[2], w[3]);
    return observe(o.sk());
  }
  if (op == "trim") { Obj& o = vh::at(objs, atoi(w[1].c_str())); o.upd->trim(); return observe(o.sk()); }
  if (op == "reset") { Obj& o = vh::at(objs, atoi(w[1].c_str())); o.upd->reset(); return observe(o.sk()); }
  if (op == "copy") {
    Obj& o = vh::at(objs, atoi(w[1].c_str()));
    Obj n;
    if (o.upd) n.upd.reset(new update_theta_sketch(*o.upd));
    else if (o.wrp) n.cmp.reset(new compact_theta_sketch(*o.wrp, o.wrp->is_ordered()));
    else n.cmp.reset(new compact_theta_sketch(*o.cmp));
    int nid = atoi(w[2].c_str());
    auto tgt = objs.find(nid);
    if (tgt != objs.end() && tgt->second.upd && n.upd) {
      // the target exists: ASSIGN into it (copy assignment for odd ids, move assignment from a temporary for even ids)
      if (nid % 2) *tgt->second.upd = *o.upd; else *tgt->second.upd = std::move(*n.upd);
      return observe(tgt->second.sk());
    }
    objs[nid] = std::move(n);
    return observe(objs[nid].sk());
  }
  if (op == "compact") {
    Obj& o = vh::at(objs, atoi(w[1].c_str()));
    bool ord = w[3] == "1";
    Obj n;
    if (o.upd) n.cmp.reset(new compact_theta_sketch(o.upd->compact(ord)));
    else if (o.wrp) n.cmp.reset(new compact_theta_sketch(*o.wrp, ord));
    else n.cmp.reset(new compact_theta_sketch(*o.cmp, ord));
    int nid = atoi(w[2].c_str());
    objs[nid] = std::move(n);
    return observe(objs[nid].sk());
  }
  if (op == "ser") {   // serialize a compact sketch and re-create it: deser | wrap | deserc | wrapc (c = compressed image)
    Obj& o = vh::at(objs, atoi(w[1].c_str()));
    if (!o.cmp) return "bad-op";
    const std::string& kind = w[3];
    bool compressed = kind == "deserc" || kind == "wrapc";
    uint64_t seed = w.size() > 4 ? strtoull(w[4].c_str(), nullptr, 10) : DEFAULT_SEED;
    auto bytes = compressed ? o.cmp->serialize_compressed() : o.cmp->serialize();
    Obj n;
    if (kind == "deser" || kind == "deserc") {
      n.cmp.reset(new compact_theta_sketch(compact_theta_sketch::deserialize(bytes.data(), bytes.size(), seed)));
    } else {
      n.bytes = std::make_shared<std::vector<uint8_t>>(bytes.begin(), bytes.end());
      n.wrp.reset(new wrapped_compact_theta_sketch(wrapped_compact_theta_sketch::wrap(n.bytes->data(), n.bytes->size(), seed)));
    }
    int nid = atoi(w[2].c_str());
    objs[nid] = std::move(n);
    return observe_obj(objs[nid]);
  }
  if (op == "unew") {
    auto b = theta_union::builder();
    b.set_lg_k((uint8_t)atoi(w[2].c_str())).set_resize_factor((resize_factor)atoi(w[3].c_str()))
     .set_p(vh::f32_of_hex(w[4])).set_seed(strtoull(w[5].c_str(), nullptr, 10));
    Obj o; o.uni.reset(new theta_union(b.build()));
    objs[atoi(w[1].c_str())] = std::move(o);
    return "ok";
  }
  if (op == "uupd") {
    Obj& u = vh::at(objs, atoi(w[1].c_str()));
    const Obj& s = vh::at(objs, atoi(w[2].c_str()));
    bool mv = w.size() > 3 && w[3] == "mv";
    if (mv && s.cmp) { compact_theta_sketch tmp(*s.cmp); u.uni->update(std::move(tmp)); }
    else if (mv && s.upd) { update_theta_sketch tmp(*s.upd); u.uni->update(std::move(tmp)); }
    else with_operand(s, [&](const auto& sk) { u.uni->update(sk); return 0; });
    return "ok";
  }
  if (op == "ures") {
    Obj& u = vh::at(objs, atoi(w[1].c_str()));
    Obj n; n.cmp.reset(new compact_theta_sketch(u.uni->get_result(w[3] == "1")));
    int nid = atoi(w[2].c_str());
    objs[nid] = std::move(n);
    return observe_obj(objs[nid]);
  }
  if (op == "ureset") { vh::at(objs, atoi(w[1].c_str())).uni->reset(); return "ok"; }
  if (op == "inew") {
    Obj o; o.inter.reset(new theta_intersection(strtoull(w[2].c_str(), nullptr, 10)));
    objs[atoi(w[1].c_str())] = std::move(o);
    return "ok";
  }
  if (op == "iupd") {
    Obj& i = vh::at(objs, atoi(w[1].c_str()));
    const Obj& s = vh::at(objs, atoi(w[2].c_str()));
    bool mv = w.size() > 3 && w[3] == "mv";
    if (mv && s.cmp) { compact_theta_sketch tmp(*s.cmp); i.inter->update(std::move(tmp)); }
    else with_operand(s, [&](const auto& sk) { i.inter->update(sk); return 0; });
    return "ok";
  }
  if (op == "ires") {
    Obj& i = vh::at(objs, atoi(w[1].c_str()));
    Obj n; n.cmp.reset(new compact_theta_sketch(i.inter->get_result(w[3] == "1")));
    int nid = atoi(w[2].c_str());
    objs[nid] = std::move(n);
    return observe_obj(objs[nid]);
  }
  if (op == "ihas") { return std::string("has ") + (vh::at(objs, atoi(w[1].c_str())).inter->has_result() ? "1" : "0"); }
  if (op == "anotb") {
    const Obj& a = vh::at(objs, atoi(w[1].c_str()));
    const Obj& b = vh::at(objs, atoi(w[2].c_str()));
    theta_a_not_b anb(strtoull(w[5].c_str(), nullptr, 10));
    bool ord = w[4] == "1";
    Obj n;
    bool mv = w.size() > 6 && w[6] == "mv";
    if (mv && a.cmp) {   // A passed as an rvalue (its entries are moved out of a temporary copy)
      with_operand(b, [&](const auto& sb) { compact_theta_sketch tmp(*a.cmp);
        n.cmp.reset(new compact_theta_sketch(anb.compute(std::move(tmp), sb, ord))); return 0; });
    } else
    with_operand(a, [&](const auto& sa) { return with_operand(b, [&](const auto& sb) {
      n.cmp.reset(new compact_theta_sketch(anb.compute(sa, sb, ord))); return 0; }); });
    int nid = atoi(w[3].c_str());
    objs[nid] = std::move(n);
    return observe_obj(objs[nid]);
  }
  if (op == "jac") {
    const Obj& a = vh::at(objs, atoi(w[1].c_str()));
    const Obj& b = vh::at(objs, atoi(w[2].c_str()));
    uint64_t seed = strtoull(w[3].c_str(), nullptr, 10);
    std::array<double, 3> j{};
    bool exact = false;
    with_operand(a, [&](const auto& sa) { return with_operand(b, [&](const auto& sb) {
      j = theta_jaccard_similarity::jaccard(sa, sb, seed);
      exact = !sa.is_estimation_mode() && !sb.is_estimation_mode();
      return 0; }); });
    // bounds are compared with the model only where the model can compute them (exact mode, the trivial cases, or est = 0.5 fallback)
    bool trivial = (j[0] == j[1] && j[1] == j[2]) || (j[0] == 0.0 && j[1] == 0.5 && j[2] == 1.0);
    if (exact || trivial) return "J " + vh::hex_f64(j[0]) + " " + vh::hex_f64(j[1]) + " " + vh::hex_f64(j[2]);
    return "Jest " + vh::hex_f64(j[1]);
  }
  if (op == "jeq") {
    const Obj& a = vh::at(objs, atoi(w[1].c_str()));
    const Obj& b = vh::at(objs, atoi(w[2].c_str()));
    uint64_t seed = strtoull(w[3].c_str(), nullptr, 10);
    bool eq = false;
    with_operand(a, [&](const auto& sa) { return with_operand(b, [&](const auto& sb) {
      eq = theta_jaccard_similarity::exactly_equal(sa, sb, seed); return 0; }); });
    return std::string("E ") + (eq ? "1" : "0");
  }
  return "bad-op";
}

// hash tie: the *code's* hashing of each input type, observed through a p=1 update sketch of large k
static std::string hash_step(const std::vector<std::string>& w) {
  if (w[0] == "seedhash") { return "S " + std::to_string(compute_seed_hash(strtoull(w[1].c_str(), nullptr, 10))); }
  if (w[0] == "mm") {
    auto b = vh::bytes_of_hex(w[1]); HashState hs;
    MurmurHash3_x64_128(b.data(), b.size(), strtoull(w[2].c_str(), nullptr, 10), hs);
    return "M " + vh::hex_u64(hs.h1) + " " + vh::hex_u64(hs.h2);
  }
  if (w[0] != "hash") return "bad-op";
  uint64_t seed = strtoull(w[3].c_str(), nullptr, 10);
  // observe h1>>1 through the real update path, and full (h1,h2) through MurmurHash3 on the canonical bytes of that path
  auto sk = update_theta_sketch::builder().set_lg_k(5).set_seed(seed).build();
  do_update(sk, w[1], w[2]);
  if (sk.is_empty()) return "H ignored";
  // reproduce the bytes to get h2 as well: use the documented canonical form via the same overload chain is not observable for h2;
  // h2 is tied by the HLL/CPC harnesses. Here print h1>>1 only.
  uint64_t h = 0; for (auto x : sk) h = x;
  return "H1 " + vh::hex_u64(h);
}

// raw mode (L2 tie): entries in the sketch's own iteration order (= slot order of the table)
static std::string raw_step(const std::vector<std::string>& w) {
  std::string r = step(w);
  if (r.rfind("T ", 0) != 0) return r;
  const std::string& op = w[0];
  if (op != "new" && op != "upd" && op != "trim" && op != "reset") return "bad-op";
  Obj& o = vh::at(objs, atoi(w[1].c_str()));
  std::ostringstream os;
  os << "W " << o.upd->get_theta64() << " " << (o.upd->is_empty() ? 1 : 0) << " " << o.upd->get_num_retained() << " raw";
  for (auto h : *o.upd) os << " " << h;
  return os.str();
}

int main(int argc, char** argv) {
  if (argc > 1 && std::string(argv[1]) == "raw") return vh::run_loop(raw_step);
  if (argc > 1 && std::string(argv[1]) == "hash") return vh::run_loop(hash_step);
  return vh::run_loop(step);
}

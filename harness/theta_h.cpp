// Correspondence harness: theta family (C01 update sketch; C02 set ops added below) + hash tie.
#include "common.hpp"
#include "theta_sketch.hpp"
#include "theta_union.hpp"
#include "theta_intersection.hpp"
#include "theta_a_not_b.hpp"
#include "theta_jaccard_similarity.hpp"

using namespace datasketches;
using vh::split;

struct Obj {
  std::unique_ptr<update_theta_sketch> upd;
  std::unique_ptr<compact_theta_sketch> cmp;
  const theta_sketch& sk() const { return upd ? static_cast<const theta_sketch&>(*upd) : static_cast<const theta_sketch&>(*cmp); }
};

static std::map<int, Obj> objs;

static std::string observe(const theta_sketch& s) {
  std::ostringstream os;
  std::vector<uint64_t> ks;
  for (auto h : s) ks.push_back(h);
  if (!s.is_ordered()) std::sort(ks.begin(), ks.end());
  os << "T " << s.get_theta64() << " " << (s.is_empty() ? 1 : 0) << " " << (s.is_estimation_mode() ? 1 : 0) << " "
     << (s.is_ordered() ? 1 : 0) << " " << s.get_num_retained() << " " << vh::hex_f64(s.get_estimate()) << " " << s.get_seed_hash();
  if (ks.size() <= 4096) { for (auto k : ks) os << " " << k; }
  else os << " fold " << vh::hex_u64(vh::fold64(ks));
  return os.str();
}

template<typename S>
static void do_update(S& s, const std::string& ty, const std::string& lit) {
  if (ty == "u64") s.update((uint64_t)strtoull(lit.c_str(), nullptr, 10));
  else if (ty == "i64") s.update((int64_t)strtoll(lit.c_str(), nullptr, 10));
  else if (ty == "u32") s.update((uint32_t)strtoull(lit.c_str(), nullptr, 10));
  else if (ty == "i32") s.update((int32_t)strtoll(lit.c_str(), nullptr, 10));
  else if (ty == "u16") s.update((uint16_t)strtoull(lit.c_str(), nullptr, 10));
  else if (ty == "i16") s.update((int16_t)strtoll(lit.c_str(), nullptr, 10));
  else if (ty == "u8") s.update((uint8_t)strtoull(lit.c_str(), nullptr, 10));
  else if (ty == "i8") s.update((int8_t)strtoll(lit.c_str(), nullptr, 10));
  else if (ty == "f64") s.update(vh::f64_of_hex(lit));
  else if (ty == "f32") s.update(vh::f32_of_hex(lit));
  else if (ty == "str") { auto b = vh::bytes_of_hex(lit); s.update(std::string(b.begin(), b.end())); }
  else if (ty == "raw") { auto b = vh::bytes_of_hex(lit); s.update((const void*)b.data(), b.size()); }
  else throw std::runtime_error("bad type");
}

static std::string step(const std::vector<std::string>& w) {
  const std::string& op = w[0];
  if (op == "new") {
    int id = atoi(w[1].c_str());
    auto b = update_theta_sketch::builder();
    b.set_lg_k((uint8_t)atoi(w[2].c_str())).set_resize_factor((resize_factor)atoi(w[3].c_str()))
     .set_p(vh::f32_of_hex(w[4])).set_seed(strtoull(w[5].c_str(), nullptr, 10));
    Obj o; o.upd.reset(new update_theta_sketch(b.build()));
    objs[id] = std::move(o);
    return observe(objs[id].sk());
  }
  if (op == "upd") {
    Obj& o = objs.at(atoi(w[1].c_str()));
    do_update(*o.upd, w[2], w[3]);
    return observe(o.sk());
  }
  if (op == "trim") { Obj& o = objs.at(atoi(w[1].c_str())); o.upd->trim(); return observe(o.sk()); }
  if (op == "reset") { Obj& o = objs.at(atoi(w[1].c_str())); o.upd->reset(); return observe(o.sk()); }
  if (op == "copy") {
    Obj& o = objs.at(atoi(w[1].c_str()));
    Obj n;
    if (o.upd) n.upd.reset(new update_theta_sketch(*o.upd)); else n.cmp.reset(new compact_theta_sketch(*o.cmp));
    int nid = atoi(w[2].c_str());
    objs[nid] = std::move(n);
    return observe(objs[nid].sk());
  }
  if (op == "compact") {
    Obj& o = objs.at(atoi(w[1].c_str()));
    bool ord = w[3] == "1";
    Obj n;
    if (o.upd) n.cmp.reset(new compact_theta_sketch(o.upd->compact(ord)));
    else n.cmp.reset(new compact_theta_sketch(*o.cmp, ord));
    int nid = atoi(w[2].c_str());
    objs[nid] = std::move(n);
    return observe(objs[nid].sk());
  }
  return "bad-op";
}

// hash tie: the *code's* hashing of each input type, observed through a p=1 update sketch of large k
static std::string hash_step(const std::vector<std::string>& w) {
  if (w[0] == "seedhash") { return "S " + std::to_string(compute_seed_hash(strtoull(w[1].c_str(), nullptr, 10))); }
  if (w[0] == "mm") {
    auto b = vh::bytes_of_hex(w[1]); HashState hs;
    MurmurHash3_x64_128(b.data(), b.size(), strtoull(w[2].c_str(), nullptr, 10), hs);
    return "M " + vh::hex_u64(hs.h1) + " " + vh::hex_u64(hs.h2);
  }
  if (w[0] != "hash") return "bad-op";
  uint64_t seed = strtoull(w[3].c_str(), nullptr, 10);
  // observe h1>>1 through the real update path, and full (h1,h2) through MurmurHash3 on the canonical bytes of that path
  auto sk = update_theta_sketch::builder().set_lg_k(5).set_seed(seed).build();
  do_update(sk, w[1], w[2]);
  if (sk.is_empty()) return "H ignored";
  // reproduce the bytes to get h2 as well: use the documented canonical form via the same overload chain is not observable for h2;
  // h2 is tied by the HLL/CPC harnesses. Here print h1>>1 only.
  uint64_t h = 0; for (auto x : sk) h = x;
  return "H1 " + vh::hex_u64(h);
}

int main(int argc, char** argv) {
  if (argc > 1 && std::string(argv[1]) == "hash") return vh::run_loop(hash_step);
  return vh::run_loop(step);
}

// Wire-format harness for KLL / REQ / classic quantiles (C09 round trip, C10 layout + old images, C11 truncation/corruption).
// Drives REAL sketches (item types float, double, int64, std::string) through the line protocol below and prints one
// observation line per op.  Every check printed in the `checks` field is done here on the implementation alone; the Lean
// model (dsmodel_wire_quant) separately decodes the printed image and must recover the printed API content.
//
//   new <id> <fam> <ty> <k> [hra]        fam: kll|req|quant   ty: f32|f64|i64|str           -> ok
//   coins <bits>                         coin script for the following updates/merges (cycled; "-" = real engine) -> ok
//   upd <id> <hex> ...                   update with items given as hex of their raw payload ("-" = empty string) -> ok
//   merge <dst> <src>                                                                         -> ok
//   ser <id> <coinbits> <hex> ...        all C09 checks; continuation with the given updates   -> IMG <kind> <hex> | <content> | <checks> | <info>
//   pfx <id>                             every strict prefix, bytes and stream paths (forked)  -> PFX <kind> <hex> | bytes=<codes> stream=<codes> | <details>
//   cor <id> [o1,o2,...]                 the given byte offsets (default: first 64) x 8 replacements, both paths (forked) -> COR <kind> <hex> | ofs=<o1,...> bytes=<codes> stream=<codes> | <details>
//   img <id>                                                                                 -> IMG <kind> <hex> | <content> | ok | <info>
//   deser <kind> <hex>                   deserialize an external image on both paths           -> CONTENT <content> | throw
// outcome codes: t throw, a accepted with the reference content, d accepted with other content, e accepted but a getter threw,
//   A asan, U ubsan, T timeout, C alloc_cap (single allocation > 256 MiB), L leak after the call, S other crash,
//   after an accepted deserialize, while the getters run: B asan, V ubsan, M timeout, K alloc_cap, Z other crash;
//   s skipped (an earlier replacement value at the same byte already gave a safety outcome)
#include <unistd.h>
#include <sys/wait.h>
#include <sys/time.h>
#include <signal.h>
#include <fcntl.h>
#include <functional>
#include <new>
#include "common.hpp"
#include "kll_sketch.hpp"
#include "req_sketch.hpp"
#include "quantiles_sketch.hpp"

// ---------------------------------------------------------------- fast sanitizer exit inside forked children
// A forked child that hits an ASan error only has to tell its parent WHAT happened; printing the symbolised report costs
// ~0.3 s per case. `__asan_on_error` is called after the error is classified and before the report is printed.
extern "C" const char* __asan_get_report_description();
extern "C" int __asan_get_report_access_type();
static bool g_in_child = false;
static int g_progress_fd = -1;     // forked children: '+' is written here when a deserialize call returned and the getters are about to run
extern "C" void __asan_on_error() {
  if (!g_in_child || getenv("VH_VERBOSE")) return;
  const char* d = __asan_get_report_description();
  dprintf(2, "AddressSanitizer: %s \n%s of size\n", d ? d : "?", __asan_get_report_access_type() ? "WRITE" : "READ");
  _exit(66);
}

// ---------------------------------------------------------------- allocation tracking / cap
static long g_live = 0;
static bool g_cap_hit = false;
static const size_t ALLOC_CAP = size_t(256) << 20;
static void* vh_alloc(size_t n) {
  if (n > ALLOC_CAP) { g_cap_hit = true; throw std::bad_alloc(); }
  void* p = malloc(n ? n : 1);
  if (!p) throw std::bad_alloc();
  ++g_live;
  return p;
}
static void vh_free(void* p) noexcept { if (p) { --g_live; free(p); } }
void* operator new(size_t n) { return vh_alloc(n); }
void* operator new[](size_t n) { return vh_alloc(n); }
void* operator new(size_t n, const std::nothrow_t&) noexcept { try { return vh_alloc(n); } catch (...) { return nullptr; } }
void* operator new[](size_t n, const std::nothrow_t&) noexcept { try { return vh_alloc(n); } catch (...) { return nullptr; } }
void operator delete(void* p) noexcept { vh_free(p); }
void operator delete[](void* p) noexcept { vh_free(p); }
void operator delete(void* p, size_t) noexcept { vh_free(p); }
void operator delete[](void* p, size_t) noexcept { vh_free(p); }
void operator delete(void* p, const std::nothrow_t&) noexcept { vh_free(p); }
void operator delete[](void* p, const std::nothrow_t&) noexcept { vh_free(p); }

// ---------------------------------------------------------------- coin source
struct Src : datasketches::random_utils::verif_random_source {
  std::string bits; size_t pos = 0; size_t used = 0;
  void reset(const std::string& b) { bits = b; pos = 0; used = 0; }
  bool bit() override { ++used; if (bits.empty()) return false; bool b = bits[pos % bits.size()] == '1'; ++pos; return b; }
  double unit() override { return bit() ? 0.75 : 0.25; }
  uint64_t below(uint64_t n) override { uint64_t v = 0; for (int i = 0; i < 16; ++i) v = v * 2 + (bit() ? 1 : 0); return n ? v % n : 0; }
};
static Src g_src;
static void install(const std::string& bits) {
  if (bits == "-") { datasketches::random_utils::verif_source = nullptr; return; }
  g_src.reset(bits);
  datasketches::random_utils::verif_source = &g_src;
}

// ---------------------------------------------------------------- items
template<class T> struct It {
  static T from(const std::string& hex) {
    auto b = vh::bytes_of_hex(hex);
    if (b.size() != sizeof(T)) throw std::invalid_argument("item size");
    T v; memcpy(&v, b.data(), sizeof(T)); return v;
  }
  static std::string hex(const T& v) { return vh::hex_of_bytes(reinterpret_cast<const uint8_t*>(&v), sizeof(T)); }
};
template<> struct It<std::string> {
  static std::string from(const std::string& hex) { auto b = vh::bytes_of_hex(hex); return std::string(b.begin(), b.end()); }
  static std::string hex(const std::string& v) { return vh::hex_of_bytes(reinterpret_cast<const uint8_t*>(v.data()), v.size()); }
};
template<class T> const char* ty_name();
template<> const char* ty_name<float>() { return "f32"; }
template<> const char* ty_name<double>() { return "f64"; }
template<> const char* ty_name<int64_t>() { return "i64"; }
template<> const char* ty_name<std::string>() { return "str"; }

// ---------------------------------------------------------------- families
template<class T> struct KllF {
  using SK = datasketches::kll_sketch<T>;
  static const char* name() { return "kll"; }
  static SK make(unsigned k, bool) { return SK(static_cast<uint16_t>(k)); }
  static std::string hra(const SK&) { return ""; }
  static std::string extra(const SK& s) { return " nre=" + vh::hex_f64(s.get_normalized_rank_error(false)); }
  static bool max_size(const SK& s, size_t& out) {
    if constexpr (std::is_arithmetic<T>::value) { out = SK::get_max_serialized_size_bytes(s.get_k(), s.get_n()); return true; }
    else { (void)s; (void)out; return false; }
  }
};
template<class T> struct ReqF {
  using SK = datasketches::req_sketch<T>;
  static const char* name() { return "req"; }
  static SK make(unsigned k, bool hra) { return SK(static_cast<uint16_t>(k), hra); }
  static std::string hra(const SK& s) { return std::string(" hra=") + (s.is_HRA() ? "1" : "0"); }
  static std::string extra(const SK&) { return ""; }
  static bool max_size(const SK&, size_t&) { return false; }
};
template<class T> struct QuantF {
  using SK = datasketches::quantiles_sketch<T>;
  static const char* name() { return "quant"; }
  static SK make(unsigned k, bool) { return SK(static_cast<uint16_t>(k)); }
  static std::string hra(const SK&) { return ""; }
  static std::string extra(const SK&) { return ""; }
  static bool max_size(const SK&, size_t&) { return false; }
};

// min / max are determined only up to the comparator's equivalence (REQ re-derives them from the items of a one-level image):
// for floating types -0.0 and +0.0 are the same extreme; both sides print +0.0
template<class T> T canon_extreme(const T& v) { return v; }
template<> float canon_extreme<float>(const float& v) { return v == 0.0f ? 0.0f : v; }
template<> double canon_extreme<double>(const double& v) { return v == 0.0 ? 0.0 : v; }

// canonical API content; wsum = sum of the weights the iterator reported
template<class F, class T> std::string content(const typename F::SK& s, uint64_t* wsum = nullptr) {
  std::ostringstream o;
  o << "n=" << s.get_n() << " k=" << s.get_k() << " est=" << (s.is_estimation_mode() ? 1 : 0) << F::hra(s);
  uint64_t ws = 0;
  if (s.is_empty()) {
    o << " min=none max=none" << F::extra(s) << " items=none";
  } else {
    o << " min=" << It<T>::hex(canon_extreme<T>(s.get_min_item())) << " max=" << It<T>::hex(canon_extreme<T>(s.get_max_item())) << F::extra(s) << " items=";
    bool first = true;
    size_t cnt = 0;
    for (auto it = s.begin(); it != s.end(); ++it) {
      auto p = *it;
      if (!first) o << ",";
      first = false;
      o << It<T>::hex(p.first) << ":" << p.second;
      ws += p.second;
      if (++cnt > 2000000) throw std::runtime_error("iteration does not end");
    }
    if (first) o << "none";
  }
  if (wsum) *wsum = ws;
  return o.str();
}

// observables that do not depend on the coin flips
template<class F, class T> std::string observables(const typename F::SK& s) {
  std::ostringstream o;
  o << s.get_n() << " " << s.get_k() << " " << s.is_estimation_mode() << " " << s.get_num_retained() << F::hra(s);
  if (!s.is_empty()) o << " " << It<T>::hex(canon_extreme<T>(s.get_min_item())) << " " << It<T>::hex(canon_extreme<T>(s.get_max_item()));
  return o.str();
}

// ---------------------------------------------------------------- forked case runner
static std::string slurp(const char* path) {
  std::string s; FILE* f = fopen(path, "r"); if (!f) return s;
  char buf[4096]; size_t n; while ((n = fread(buf, 1, sizeof buf, f)) > 0) s.append(buf, n);
  fclose(f); return s;
}
static std::string san_summary(const std::string& err) {
  // "ERROR: AddressSanitizer: heap-buffer-overflow on ..." / "runtime error: ..."
  size_t p = err.find("AddressSanitizer: ");
  if (p != std::string::npos) {
    size_t e = err.find_first_of(" \n", p + 18);
    std::string kind = err.substr(p + 18, e - (p + 18));
    std::string rw = err.find("\nWRITE of size") != std::string::npos ? "-write" : (err.find("\nREAD of size") != std::string::npos ? "-read" : "");
    return kind + rw;
  }
  p = err.find("runtime error: ");
  if (p != std::string::npos) {
    size_t e = err.find('\n', p);
    std::string m = err.substr(p + 15, std::min<size_t>(e - (p + 15), 60));
    for (auto& c : m) if (c == ' ' || c == '|' || c == ',') c = '_';
    return m;
  }
  return "";
}
// runs fn(i) for i in [0, n) in forked children; a child that dies yields a safety code for the case it was running
// group > 1: after a crash the remaining cases of the same group (same corrupted byte) are skipped (code 's')
static std::string run_cases(size_t n, const std::function<char(size_t)>& fn, std::string& details, size_t group = 1) {
  std::string res;
  while (res.size() < n) {
    size_t start = res.size();
    int pfd[2];
    if (pipe(pfd) != 0) throw std::runtime_error("pipe");
    char errfile[] = "/tmp/wqh-err-XXXXXX";
    int efd = mkstemp(errfile);
    std::cout.flush(); fflush(stdout); fflush(stderr);
    pid_t pid = fork();
    if (pid < 0) throw std::runtime_error("fork");
    if (pid == 0) {
      close(pfd[0]);
      dup2(efd, 2);
      g_in_child = true;
      g_progress_fd = pfd[1];
      for (size_t i = start; i < n; ++i) {
        struct itimerval tv; memset(&tv, 0, sizeof tv); tv.it_value.tv_sec = 5; setitimer(ITIMER_REAL, &tv, nullptr);
        struct timeval t0, t1; gettimeofday(&t0, nullptr);
        char c = fn(i);
        if (getenv("VH_SLOW")) {
          gettimeofday(&t1, nullptr);
          double dt = (t1.tv_sec - t0.tv_sec) + 1e-6 * (t1.tv_usec - t0.tv_usec);
          if (dt > 0.1) { FILE* f = fopen("/tmp/wqh-slow.log", "a"); if (f) { fprintf(f, "case %zu code %c %.2fs\n", i, c, dt); fclose(f); } }
        }
        if (write(pfd[1], &c, 1) != 1) _exit(3);
        if (group > 1 && (c == 'C' || c == 'K' || c == 'L')) {   // a safety outcome without a crash: skip the rest of the group as well
          while ((i + 1) % group != 0 && i + 1 < n) { ++i; char sk = 's'; if (write(pfd[1], &sk, 1) != 1) _exit(3); }
        }
      }
      _exit(0);
    }
    close(pfd[1]);
    char buf[4096]; ssize_t k;
    bool in_use = false;      // the last thing the child reported was '+': it died (if it died) while the getters of an accepted sketch ran
    while ((k = read(pfd[0], buf, sizeof buf)) > 0)
      for (ssize_t q = 0; q < k; ++q) { if (buf[q] == '+') in_use = true; else { res.push_back(buf[q]); in_use = false; } }
    close(pfd[0]);
    int st = 0; waitpid(pid, &st, 0);
    if (res.size() < n) {
      std::string err = slurp(errfile);
      if (getenv("VH_VERBOSE")) fprintf(stderr, "---- child died at case %zu:\n%s\n", res.size(), err.c_str());
      char code = 'S';
      if (WIFSIGNALED(st) && WTERMSIG(st) == SIGALRM) code = 'T';
      else if (err.find("AddressSanitizer") != std::string::npos) code = 'A';
      else if (err.find("runtime error") != std::string::npos) code = 'U';
      if (in_use) code = (code == 'A') ? 'B' : (code == 'U') ? 'V' : (code == 'T') ? 'M' : 'Z';
      details += " [case " + std::to_string(res.size()) + " " + std::string(1, code) + " " + san_summary(err) + "]";
      res.push_back(code);
      while (group > 1 && res.size() % group != 0 && res.size() < n) res.push_back('s');
    }
    close(efd); unlink(errfile);
  }
  return res;
}

// ---------------------------------------------------------------- one deserialize attempt (runs inside a forked child)
template<class F, class T> char try_case(const uint8_t* data, size_t n, int path, const std::string& ref, bool exercise) {
  using SK = typename F::SK;
  g_cap_hit = false;
  long live0 = g_live;
  char code = 't';
  try {
    uint8_t* blk = static_cast<uint8_t*>(malloc(n));   // exact-size heap block: ASan red zones on both sides
    if (n) memcpy(blk, data, n);
    struct Free { uint8_t* p; ~Free() { free(p); } } fr{blk};
    auto use = [&](SK& s) {
      std::string c;
      if (g_progress_fd >= 0) { char plus = '+'; if (write(g_progress_fd, &plus, 1) != 1) _exit(3); }
      g_cap_hit = false;
      try {
        c = content<F, T>(s);
        if (exercise) {
          (void)s.get_num_retained();
          size_t sz = s.get_serialized_size_bytes(); (void)sz;
          std::ostringstream os; s.serialize(os);
          if (!s.is_empty()) { (void)s.get_rank(s.get_min_item()); (void)s.get_quantile(0.5); }
        }
      } catch (const std::exception&) { code = g_cap_hit ? 'K' : 'e'; g_cap_hit = false; return; }
      code = (c == ref) ? 'a' : 'd';
    };
    if (path == 0) { SK s = SK::deserialize(blk, n); use(s); }
    else { std::string str(reinterpret_cast<const char*>(blk), n); std::istringstream is(str); SK s = SK::deserialize(is); use(s); }
  } catch (const std::exception&) { code = 't'; }
  catch (...) { code = 't'; }
  if (g_cap_hit) code = 'C';
  else if (g_live != live0) code = 'L';
  return code;
}

static const uint8_t REPL_FIXED[5] = {0x00, 0x01, 0x7F, 0x80, 0xFF};
static uint8_t replacement(uint8_t b, int j) {
  if (j < 5) return REPL_FIXED[j];
  if (j == 5) return b ^ 1;
  if (j == 6) return b ^ 0x80;
  return static_cast<uint8_t>(b + 1);
}

// ---------------------------------------------------------------- prefix / corruption sweeps over ONE image (a live sketch's, or a stored legacy / shipped one)
template<class F, class T> std::string pfx_of(const std::string& kind, const std::string& img, const std::string& ref) {
  const uint8_t* d = reinterpret_cast<const uint8_t*>(img.data());
  const size_t n = img.size();
  std::string details;
  // cases: path-major; a warm-up call first so that lazily initialised library state is not counted as a leak
  auto fn = [&](size_t i) -> char {
    static bool warm = false;
    if (!warm) { int fd = g_progress_fd; g_progress_fd = -1; try_case<F, T>(d, n, 0, ref, false); try_case<F, T>(d, n, 1, ref, false); g_progress_fd = fd; warm = true; }
    return try_case<F, T>(d, i % n, static_cast<int>(i / n), ref, false);
  };
  std::string codes = n ? run_cases(2 * n, fn, details) : "";
  std::ostringstream o;
  o << "PFX " << kind << " " << vh::hex_of_bytes(d, n) << " | bytes=" << codes.substr(0, n) << " stream=" << codes.substr(n) << " |" << details;
  return o.str();
}

// offsets: the byte positions to corrupt (chosen by the spec from the Lean field map: all structural bytes);
// none given = the first 64 bytes
template<class F, class T> std::string cor_of(const std::string& kind, const std::string& img, const std::string& ref, const std::vector<size_t>& offsets) {
  const size_t n = img.size();
  std::vector<size_t> ofs;
  if (offsets.empty()) { for (size_t i = 0; i < std::min<size_t>(n, 64); ++i) ofs.push_back(i); }
  else { for (size_t o : offsets) if (o < n) ofs.push_back(o); }
  const size_t nofs = ofs.size();
  std::string details;
  auto fn = [&](size_t i) -> char {
    static bool warm = false;
    const uint8_t* d = reinterpret_cast<const uint8_t*>(img.data());
    if (!warm) { int fd = g_progress_fd; g_progress_fd = -1; try_case<F, T>(d, n, 0, ref, true); try_case<F, T>(d, n, 1, ref, true); g_progress_fd = fd; warm = true; }
    const int path = static_cast<int>(i / (nofs * 8));
    const size_t off = ofs[(i % (nofs * 8)) / 8];
    const int j = static_cast<int>(i % 8);
    std::string m = img;
    m[off] = static_cast<char>(replacement(static_cast<uint8_t>(img[off]), j));
    if (m == img) return 'a';
    return try_case<F, T>(reinterpret_cast<const uint8_t*>(m.data()), n, path, ref, true);
  };
  std::string codes = run_cases(2 * nofs * 8, fn, details, 8);
  std::ostringstream o;
  o << "COR " << kind << " " << vh::hex_of_bytes(reinterpret_cast<const uint8_t*>(img.data()), n) << " | ofs=";
  for (size_t i = 0; i < nofs; ++i) o << (i ? "," : "") << ofs[i];
  if (!nofs) o << "-";
  o << " bytes=" << codes.substr(0, nofs * 8) << " stream=" << codes.substr(nofs * 8) << " |" << details;
  return o.str();
}

// content of a stored image as the bytes reader of the current tree restores it (throws if the full image is rejected)
template<class F, class T> std::string stored_ref(const std::string& img) {
  using SK = typename F::SK;
  std::unique_ptr<uint8_t, void(*)(void*)> blk(static_cast<uint8_t*>(malloc(img.size())), free);
  if (!img.empty()) memcpy(blk.get(), img.data(), img.size());
  SK s = SK::deserialize(blk.get(), img.size());
  return content<F, T>(s);
}

// ---------------------------------------------------------------- sketch objects
struct ISk {
  virtual ~ISk() {}
  virtual std::string kind() const = 0;
  virtual void update(const std::string& hex) = 0;
  virtual void merge(ISk& o) = 0;
  virtual std::string ser(const std::string& coins, const std::vector<std::string>& vals) = 0;
  virtual std::string pfx() = 0;
  virtual std::string cor(const std::vector<size_t>& offsets) = 0;
  virtual std::string img() = 0;
};

template<class F, class T> struct SkImpl : ISk {
  using SK = typename F::SK;
  SK sk; unsigned k; bool hra;
  SkImpl(unsigned k_, bool hra_) : sk(F::make(k_, hra_)), k(k_), hra(hra_) {}
  std::string kind() const override { return std::string(F::name()) + "." + ty_name<T>(); }
  void update(const std::string& hex) override { sk.update(It<T>::from(hex)); }
  void merge(ISk& o) override {
    auto* p = dynamic_cast<SkImpl<F, T>*>(&o);
    if (!p) throw std::invalid_argument("merge: kind mismatch");
    sk.merge(p->sk);
  }
  std::string image() const { std::ostringstream os; sk.serialize(os); return os.str(); }

  std::string ser(const std::string& coins, const std::vector<std::string>& vals) override {
    std::vector<std::string> fails;
    auto fail = [&](const std::string& key, const std::string& detail = "") { fails.push_back(detail.empty() ? key : key + ":" + detail); };
    const std::string img = image();
    uint64_t wsum = 0;
    const std::string c0 = content<F, T>(sk, &wsum);          // after the first serialize (classic quantiles sorts its base buffer there)
    const size_t adv = sk.get_serialized_size_bytes();
    if (adv != img.size()) fail("advertised-size-ne-stream-image", "adv=" + std::to_string(adv) + ",stream=" + std::to_string(img.size()));
    std::string bytes0;
    for (unsigned h : {0u, 1u, 8u, 13u}) {
      try {
        auto b = sk.serialize(h);
        if (b.size() != h + adv) fail("bytes-image-size-ne-header-plus-advertised", "h=" + std::to_string(h));
        bool z = b.size() >= h;
        for (unsigned i = 0; z && i < h; ++i) if (b[i] != 0) z = false;
        if (!z) { fail("header-bytes-not-reserved-zero", "h=" + std::to_string(h)); continue; }
        std::string rest(reinterpret_cast<const char*>(b.data()) + h, b.size() - h);
        if (h == 0) bytes0 = rest;
        if (rest != img) {
          bool padded = rest.size() > img.size() && rest.compare(0, img.size(), img) == 0;
          for (size_t i = img.size(); padded && i < rest.size(); ++i) if (rest[i] != 0) padded = false;
          if (padded) fail("bytes-image-zero-padded-beyond-stream-image", "h=" + std::to_string(h) + ",extra=" + std::to_string(rest.size() - img.size()));
          else fail("bytes-image-ne-stream-image", "h=" + std::to_string(h));
        }
      } catch (const std::exception& e) { fail("serialize-with-header-threw", "h=" + std::to_string(h)); }
    }
    size_t mx = 0;
    if (F::max_size(sk, mx) && img.size() > mx) fail("size-exceeds-published-max", std::to_string(img.size()) + ">" + std::to_string(mx));
    // stream reader consumes exactly the image
    try {
      std::string ws = img + std::string(16, '\xA5');
      std::istringstream is(ws);
      SK r = SK::deserialize(is);
      long pos = static_cast<long>(is.tellg());
      if (pos != static_cast<long>(img.size())) fail("stream-reader-consumed-ne-image-size", "pos=" + std::to_string(pos) + ",size=" + std::to_string(img.size()));
      if (content<F, T>(r) != c0) fail("stream-restored-content-differs");
    } catch (const std::exception&) { fail("stream-deserialize-threw"); }
    // bytes reader, exact-size heap block; re-serialization; continuation
    try {
      std::unique_ptr<uint8_t, void(*)(void*)> blk(static_cast<uint8_t*>(malloc(img.size())), free);
      memcpy(blk.get(), img.data(), img.size());
      SK r = SK::deserialize(blk.get(), img.size());
      if (content<F, T>(r) != c0) fail("bytes-restored-content-differs");
      std::ostringstream os2; r.serialize(os2);
      if (os2.str() != img) fail("reserialized-image-differs");
      auto b2 = r.serialize(0);
      if (std::string(reinterpret_cast<const char*>(b2.data()), b2.size()) != bytes0) fail("reserialized-bytes-image-differs");
      if (!bytes0.empty() && bytes0 != img) {    // the byte-vector form differs from the stream form: it must at least restore the same sketch
        std::unique_ptr<uint8_t, void(*)(void*)> blk2(static_cast<uint8_t*>(malloc(bytes0.size())), free);
        memcpy(blk2.get(), bytes0.data(), bytes0.size());
        SK r2 = SK::deserialize(blk2.get(), bytes0.size());
        if (content<F, T>(r2) != c0) fail("bytes-image-restored-content-differs");
      }
      // continue the same updates / merge on original (copy) and restored under the same coins
      auto* saved = datasketches::random_utils::verif_source;
      install(coins);
      SK a(sk);
      for (auto& v : vals) a.update(It<T>::from(v));
      install(coins);
      SK b = SK::deserialize(blk.get(), img.size());
      install(coins);
      for (auto& v : vals) b.update(It<T>::from(v));
      const std::string ca = content<F, T>(a), cb = content<F, T>(b);
      if (ca != cb) fail("continue-updates-diverge");
      if (observables<F, T>(a) != observables<F, T>(b)) fail("continue-observables-diverge");
      if (a.get_n() != sk.get_n() + vals.size()) fail("continue-n-wrong");
      install(coins);
      SK m = F::make(k, hra);
      for (auto it = vals.rbegin(); it != vals.rend(); ++it) m.update(It<T>::from(*it));
      install(coins); a.merge(m);
      install(coins); b.merge(m);
      if (content<F, T>(a) != content<F, T>(b)) fail("continue-merge-diverges");
      if (observables<F, T>(a) != observables<F, T>(b)) fail("continue-merge-observables-diverge");
      // restored as the merge *source*
      install(coins); SK t1 = F::make(k, hra); for (auto& v : vals) t1.update(It<T>::from(v));
      SK t2(t1);
      install(coins); t1.merge(sk);
      install(coins); t2.merge(r);
      if (content<F, T>(t1) != content<F, T>(t2)) fail("merge-from-restored-diverges");
      datasketches::random_utils::verif_source = saved;
    } catch (const std::exception& e) { fail("bytes-deserialize-or-continue-threw", getenv("VH_VERBOSE") ? e.what() : ""); }
    std::ostringstream o;
    o << "IMG " << kind() << " " << vh::hex_of_bytes(reinterpret_cast<const uint8_t*>(img.data()), img.size()) << " | " << c0 << " | ";
    if (fails.empty()) o << "ok";
    else for (size_t i = 0; i < fails.size(); ++i) o << (i ? "," : "") << fails[i];
    o << " | size=" << img.size() << " adv=" << adv << " wsum=" << wsum << " n=" << sk.get_n() << " retained=" << sk.get_num_retained();
    return o.str();
  }

  std::string pfx() override { return pfx_of<F, T>(kind(), image(), content<F, T>(sk)); }

  std::string img() override {
    const std::string im = image();
    uint64_t wsum = 0;
    const std::string c = content<F, T>(sk, &wsum);
    // both writers must produce the documented image: the model decodes the stream writer's bytes, and the byte-vector writer's
    // image must be the same bytes (a writer-specific slip in either shows up as a difference, or in the model's reading)
    std::string chk = "ok";
    try {
      auto b = sk.serialize(0);
      if (std::string(reinterpret_cast<const char*>(b.data()), b.size()) != im) chk = "bytes-image-ne-stream-image";
    } catch (const std::exception&) { chk = "serialize-bytes-threw"; }
    return "IMG " + kind() + " " + vh::hex_of_bytes(reinterpret_cast<const uint8_t*>(im.data()), im.size()) + " | " + c + " | " + chk + " | size=" +
      std::to_string(im.size()) + " wsum=" + std::to_string(wsum) + " n=" + std::to_string(sk.get_n());
  }

  std::string cor(const std::vector<size_t>& offsets) override { return cor_of<F, T>(kind(), image(), content<F, T>(sk), offsets); }
};

template<class F, class T> std::string deser_content(const std::vector<uint8_t>& b) {
  using SK = typename F::SK;
  std::unique_ptr<uint8_t, void(*)(void*)> blk(static_cast<uint8_t*>(malloc(b.size())), free);
  if (!b.empty()) memcpy(blk.get(), b.data(), b.size());
  SK s1 = SK::deserialize(blk.get(), b.size());
  std::string str(b.begin(), b.end());
  std::istringstream is(str);
  SK s2 = SK::deserialize(is);
  const std::string c1 = content<F, T>(s1), c2 = content<F, T>(s2);
  if (c1 != c2) return "CONTENT-PATHS-DIFFER bytes: " + c1 + " stream: " + c2;
  // the restored sketch must also ANSWER from that content: its sorted view is ordered and weighs n (a reader that trusts a
  // "sorted" flag the image does not carry returns the right items and wrong ranks)
  for (const SK* s : {&s1, &s2}) {
    if (s->is_empty()) continue;
    auto view = s->get_sorted_view();
    bool first = true; T prev{}; uint64_t total = 0;
    for (auto it = view.begin(); it != view.end(); ++it) {
      const auto p = *it;
      if (!first && std::less<T>()(p.first, prev)) return "CONTENT-QUERY-INCONSISTENT sorted view is not ordered | " + c1;
      prev = p.first; first = false; total = p.second;      // (the view's weights are cumulative: the last one is the total)
    }
    if (total != s->get_n()) return "CONTENT-QUERY-INCONSISTENT sorted view weighs " + std::to_string(total) + ", n = " + std::to_string(s->get_n()) + " | " + c1;
  }
  return "CONTENT " + c1;
}

template<class Fn> void dispatch(const std::string& fam, const std::string& ty, Fn fn) {
#define DISPATCH_TY(FAM) \
  if (ty == "f32") { fn(FAM<float>{}, float{}); return; } \
  if (ty == "f64") { fn(FAM<double>{}, double{}); return; } \
  if (ty == "i64") { fn(FAM<int64_t>{}, int64_t{}); return; } \
  if (ty == "str") { fn(FAM<std::string>{}, std::string{}); return; }
  if (fam == "kll") { DISPATCH_TY(KllF) }
  if (fam == "req") { DISPATCH_TY(ReqF) }
  if (fam == "quant") { DISPATCH_TY(QuantF) }
#undef DISPATCH_TY
  throw std::invalid_argument("unknown kind " + fam + "." + ty);
}

int main() {
  std::map<int, std::unique_ptr<ISk>> sk;
  install("0");
  auto get = [&](const std::string& id) -> ISk& {
    auto it = sk.find(atoi(id.c_str()));
    if (it == sk.end()) throw std::invalid_argument("no such sketch");
    return *it->second;
  };
  int rc = vh::run_loop([&](const std::vector<std::string>& w) -> std::string {
    const std::string& op = w[0];
    if (op == "new") {
      unsigned k = static_cast<unsigned>(atoi(w.at(4).c_str()));
      bool hra = w.size() > 5 && w[5] == "1";
      std::unique_ptr<ISk> p;
      dispatch(w.at(2), w.at(3), [&](auto f, auto t) { p.reset(new SkImpl<decltype(f), decltype(t)>(k, hra)); });
      sk[atoi(w.at(1).c_str())] = std::move(p);
      return "ok";
    }
    if (op == "coins") { install(w.at(1)); return "ok"; }
    if (op == "upd") { ISk& s = get(w.at(1)); for (size_t i = 2; i < w.size(); ++i) s.update(w[i]); return "ok"; }
    if (op == "merge") { get(w.at(1)).merge(get(w.at(2))); return "ok"; }
    if (op == "ser") { std::vector<std::string> vals(w.begin() + 3, w.end()); return get(w.at(1)).ser(w.at(2), vals); }
    if (op == "pfx") return get(w.at(1)).pfx();
    if (op == "cor") {
      std::vector<size_t> ofs;
      if (w.size() > 2) { std::istringstream is(w[2]); std::string t; while (std::getline(is, t, ',')) ofs.push_back(static_cast<size_t>(atol(t.c_str()))); }
      return get(w.at(1)).cor(ofs);
    }
    if (op == "img") return get(w.at(1)).img();
    if (op == "pfximg" || op == "corimg") {     // <kind> <hex> [offsets]: the same sweeps over a stored (legacy / shipped) image
      auto dot = w.at(1).find('.');
      if (dot == std::string::npos) throw std::invalid_argument("kind");
      auto b = vh::bytes_of_hex(w.at(2));
      const std::string img(b.begin(), b.end());
      std::vector<size_t> ofs;
      if (w.size() > 3) { std::istringstream is(w[3]); std::string t; while (std::getline(is, t, ',')) ofs.push_back(static_cast<size_t>(atol(t.c_str()))); }
      std::string out;
      dispatch(w[1].substr(0, dot), w[1].substr(dot + 1), [&](auto f, auto t) {
        const std::string ref = stored_ref<decltype(f), decltype(t)>(img);
        out = op == "pfximg" ? pfx_of<decltype(f), decltype(t)>(w[1], img, ref) : cor_of<decltype(f), decltype(t)>(w[1], img, ref, ofs);
      });
      return out;
    }
    if (op == "deser") {
      auto dot = w.at(1).find('.');
      if (dot == std::string::npos) throw std::invalid_argument("kind");
      std::string out;
      auto b = vh::bytes_of_hex(w.at(2));
      dispatch(w[1].substr(0, dot), w[1].substr(dot + 1), [&](auto f, auto t) { out = deser_content<decltype(f), decltype(t)>(b); });
      return out;
    }
    throw std::invalid_argument("unknown op");
  });
  sk.clear();
  datasketches::random_utils::verif_source = nullptr;
  return rc;
}

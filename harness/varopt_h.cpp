// Correspondence harness: VarOpt sketch + union (C16) on the real headers.
// Every random choice of the code is supplied from the op line (`D <f64 hex>…`, `I <nat>…`) through the
// DATASKETCHES_VERIF random-source hook, and consumption is counted.
#include "common.hpp"
#include <deque>
#include "var_opt_sketch.hpp"
#include "var_opt_union.hpp"

using namespace datasketches;
typedef var_opt_sketch<int64_t> sketch_t;
typedef var_opt_union<int64_t> union_t;

struct Source : public random_utils::verif_random_source {
  std::deque<double> us; std::deque<uint64_t> is;
  size_t used_u = 0, used_i = 0;
  bool bit() override { return false; }
  double unit() override {
    if (us.empty()) return 0.5;
    double u = us.front(); us.pop_front(); ++used_u; return u;
  }
  uint64_t below(uint64_t n) override {
    if (is.empty()) return 0;
    uint64_t x = is.front(); is.pop_front(); ++used_i; return x % n;
  }
};
static Source src;

// observation of a C++ exception: the single token `throw` (message only with VH_VERBOSE, for debugging)
static std::string thrown(const std::exception& e) {
  return getenv("VH_VERBOSE") ? std::string("throw ") + e.what() : std::string("throw");
}

struct Obj {
  std::unique_ptr<sketch_t> sk;
  std::unique_ptr<union_t> un;
  bool dead = false;
};
static std::map<int, Obj> objs;

static void load_draws(const std::vector<std::string>& w, size_t& nhead) {
  src.us.clear(); src.is.clear(); src.used_u = src.used_i = 0;
  nhead = w.size();
  int mode = 0;
  for (size_t i = 0; i < w.size(); ++i) {
    if (w[i] == "D") { if (nhead == w.size()) nhead = i; mode = 1; continue; }
    if (w[i] == "I") { if (nhead == w.size()) nhead = i; mode = 2; continue; }
    if (mode == 1) src.us.push_back(vh::f64_of_hex(w[i]));
    else if (mode == 2) src.is.push_back(strtoull(w[i].c_str(), nullptr, 10));
  }
}

static std::string observe(const sketch_t& s) {
  std::ostringstream os;
  os << "S " << s.get_n() << " " << s.get_k() << " " << s.get_num_samples() << " c=" << src.used_u << "," << src.used_i << " |";
  for (auto it = s.begin(); it != s.end(); ++it) {
    auto p = *it;
    os << " " << p.first << ":" << vh::hex_f64(p.second);
  }
  auto p0 = [](const int64_t&) { return true; };
  auto p1 = [](const int64_t& x) { return x % 2 == 0; };
  auto p2 = [](const int64_t& x) { return x % 3 == 0; };
  subset_summary r[3];
  bool ok[3];
  for (int i = 0; i < 3; ++i) {
    try { r[i] = i == 0 ? s.estimate_subset_sum(p0) : i == 1 ? s.estimate_subset_sum(p1) : s.estimate_subset_sum(p2); ok[i] = true; }
    catch (const std::exception&) { ok[i] = false; }
  }
  for (int i = 0; i < 3; ++i) {
    if (ok[i]) os << " | " << vh::hex_f64(r[i].lower_bound) << " " << vh::hex_f64(r[i].estimate) << " "
                  << vh::hex_f64(r[i].upper_bound) << " " << vh::hex_f64(r[i].total_sketch_weight);
    else os << " | throw";
  }
  return os.str();
}

static Obj* live(int id, bool want_union) {
  auto it = objs.find(id);
  if (it == objs.end() || it->second.dead) return nullptr;
  if (want_union ? !it->second.un : !it->second.sk) return nullptr;
  return &it->second;
}

static void put_sketch(int id, sketch_t&& s) { Obj o; o.sk.reset(new sketch_t(std::move(s))); objs[id] = std::move(o); }
static void put_union(int id, union_t&& u) { Obj o; o.un.reset(new union_t(std::move(u))); objs[id] = std::move(o); }
static void put_dead(int id) { Obj o; o.dead = true; objs[id] = std::move(o); }

static std::string step(const std::vector<std::string>& wfull) {
  size_t nhead;
  load_draws(wfull, nhead);
  std::vector<std::string> w(wfull.begin(), wfull.begin() + nhead);
  const std::string& op = w[0];
  auto I = [&](size_t i) { return atoi(w.at(i).c_str()); };
  if (op == "new" && w.size() == 4) {
    int id = I(1);
    try { put_sketch(id, sketch_t((uint32_t)strtoul(w[2].c_str(), nullptr, 10), (resize_factor)I(3))); }
    catch (const std::exception&) { put_dead(id); return "throw"; }
    return observe(*objs[id].sk);
  }
  if (op == "upd" && w.size() == 4) {
    Obj* o = live(I(1), false);
    if (!o) return "dead";
    int64_t item = strtoll(w[2].c_str(), nullptr, 10);
    double wt = vh::f64_of_hex(w[3]);
    try { o->sk->update(item, wt); }
    catch (const std::invalid_argument& e) { return thrown(e); }   // argument validation happens before any mutation
    catch (const std::exception& e) { put_dead(I(1)); return thrown(e); }
    return observe(*o->sk);
  }
  if (op == "copy" && w.size() == 3) {
    Obj* o = live(I(1), false);
    if (!o) return "dead";
    sketch_t c(*o->sk);
    put_sketch(I(2), std::move(c));
    return observe(*objs[I(2)].sk);
  }
  if (op == "serde" && w.size() == 3) {
    Obj* o = live(I(1), false);
    if (!o) return "dead";
    int dst = I(2);
    try {
      // alternate between the bytes and the stream paths
      if ((dst & 1) == 0) {
        auto b = o->sk->serialize();
        put_sketch(dst, sketch_t::deserialize(b.data(), b.size()));
      } else {
        std::stringstream ss(std::ios::in | std::ios::out | std::ios::binary);
        o->sk->serialize(ss);
        put_sketch(dst, sketch_t::deserialize(ss));
      }
    } catch (const std::exception&) { put_dead(dst); return "throw"; }
    return observe(*objs[dst].sk);
  }
  if (op == "reset" && w.size() == 2) {
    Obj* o = live(I(1), false);
    if (!o) return "dead";
    o->sk->reset();
    return observe(*o->sk);
  }
  if (op == "unew" && w.size() == 3) {
    int id = I(1);
    try { put_union(id, union_t((uint32_t)strtoul(w[2].c_str(), nullptr, 10))); }
    catch (const std::exception&) { put_dead(id); return "throw"; }
    return "U";
  }
  if (op == "umerge" && w.size() == 3) {
    Obj* u = live(I(1), true);
    Obj* s = live(I(2), false);
    if (!u || !s) return "dead";
    // every second union update goes through the RVALUE overload (on a temporary copy, so the source object stays usable):
    // the two overloads walk the input with different iterators and must feed the gadget the same (item, weight, mark) triples
    static unsigned n_umerge = 0;
    try {
      if (++n_umerge % 2 == 0) { auto tmp(*s->sk); u->un->update(std::move(tmp)); }
      else u->un->update(*s->sk);
    }
    catch (const std::exception& e) { put_dead(I(1)); return thrown(e); }
    return "U c=" + std::to_string(src.used_u) + "," + std::to_string(src.used_i);
  }
  if (op == "ures" && w.size() == 3) {
    Obj* u = live(I(1), true);
    if (!u) return "dead";
    int dst = I(2);
    try { put_sketch(dst, u->un->get_result()); }
    catch (const std::exception&) { put_dead(dst); return "throw"; }
    return observe(*objs[dst].sk);
  }
  if (op == "ucopy" && w.size() == 3) {
    Obj* u = live(I(1), true);
    if (!u) return "dead";
    union_t c(*u->un);
    // the target is a live union: ASSIGN into it (alternately copy / move assignment, the latter also exchanges the two gadgets)
    static unsigned n_uassign = 0;
    auto tgt = objs.find(I(2));
    if (tgt != objs.end() && tgt->second.un && I(1) != I(2)) {
      if (++n_uassign % 2) *tgt->second.un = *u->un; else *tgt->second.un = std::move(c);
      return "U";
    }
    put_union(I(2), std::move(c));
    return "U";
  }
  if (op == "userde" && w.size() == 3) {
    Obj* u = live(I(1), true);
    if (!u) return "dead";
    int dst = I(2);
    try {
      if ((dst & 1) == 0) {
        auto b = u->un->serialize();
        put_union(dst, union_t::deserialize(b.data(), b.size()));
      } else {
        std::stringstream ss(std::ios::in | std::ios::out | std::ios::binary);
        u->un->serialize(ss);
        put_union(dst, union_t::deserialize(ss));
      }
    } catch (const std::exception&) { put_dead(dst); return "throw"; }
    return "U";
  }
  if (op == "ureset" && w.size() == 2) {
    Obj* u = live(I(1), true);
    if (!u) return "dead";
    u->un->reset();
    return "U";
  }
  return "bad-op";
}

// On the tree the check was first built on, get_result() leaked the two arrays allocated in mark_moving_gadget_coercer
// when its transferred-weight check threw (repaired by dc2ac23).  Nothing is suppressed by default any more;
// VH_LSAN_SUPP=1 restores the old suppression for experiments on such a tree.
extern "C" const char* __lsan_default_suppressions() {
  return getenv("VH_LSAN_SUPP") ? "leak:mark_moving_gadget_coercer\n" : "";
}

int main() {
  random_utils::verif_source = &src;
  return vh::run_loop(step);
}

// Correspondence harness: count-min sketch (C14).  Public API only:
// constructor, update / get_estimate / get_lower_bound / get_upper_bound (uint64_t, int64_t, std::string, (ptr,len)
// overloads), get_total_weight, get_relative_error, get_num_hashes/buckets, is_empty, merge, begin/end,
// serialize/deserialize (bytes, bytes with header, stream), suggest_num_buckets / suggest_num_hashes.
//
// mode `loc`: derives the row locations of an item FROM THE IMPLEMENTATION (fresh sketch, one update of weight 1,
// which cell of each row changed, read through begin()/end()).  The generator puts them on the op lines after `@`
// for the Lean model; this harness ignores everything after `@`.
#include "common.hpp"
#include "count_min.hpp"

using namespace datasketches;

template<typename W> struct fmt;
template<> struct fmt<int64_t> {
  static std::string out(int64_t v) { return std::to_string(v); }
  static int64_t in(const std::string& s) { return (int64_t)strtoll(s.c_str(), nullptr, 10); }
  static uint64_t bits(int64_t v) { return (uint64_t)v; }
};
template<> struct fmt<uint64_t> {
  static std::string out(uint64_t v) { return std::to_string(v); }
  static uint64_t in(const std::string& s) { if (!s.empty() && s[0] == '-') throw std::runtime_error("bad-op"); return (uint64_t)strtoull(s.c_str(), nullptr, 10); }
  static uint64_t bits(uint64_t v) { return v; }
};
template<> struct fmt<double> {
  static std::string out(double v) { return vh::hex_f64(v); }
  static double in(const std::string& s) { return vh::f64_of_hex(s); }
  static uint64_t bits(double v) { uint64_t u; memcpy(&u, &v, 8); return u; }
};

struct IObj {
  virtual ~IObj() {}
  virtual const char* kind() const = 0;
  virtual bool sane() const = 0;
  virtual std::string head() const = 0;
  virtual std::string total() const = 0;
  virtual std::string upd(const std::string& ty, const std::string& lit, const std::string& w) = 0;
  virtual std::string query(const std::string& ty, const std::string& lit) const = 0;
  virtual std::string dump() const = 0;
  virtual void merge(const IObj& o) = 0;
  virtual std::unique_ptr<IObj> copy() const = 0;
  virtual std::unique_ptr<IObj> rt(const std::string& mode, uint64_t seed, size_t& img) const = 0;
};

template<typename W>
struct TObj : IObj {
  count_min_sketch<W> s;
  const char* k;
  TObj(count_min_sketch<W>&& sk, const char* kind) : s(std::move(sk)), k(kind) {}
  TObj(const count_min_sketch<W>& sk, const char* kind) : s(sk), k(kind) {}
  const char* kind() const override { return k; }
  size_t ncells() const { return (size_t)(s.end() - s.begin()); }
  bool sane() const override { return ncells() == (size_t)s.get_num_hashes() * (size_t)s.get_num_buckets(); }
  std::string head() const override {
    std::ostringstream os;
    os << "S " << (unsigned)s.get_num_hashes() << " " << s.get_num_buckets() << " " << s.get_seed() << " " << ncells() << " "
       << vh::hex_f64(s.get_relative_error()) << " " << (s.is_empty() ? 1 : 0);
    return os.str();
  }
  std::string total() const override { return fmt<W>::out(s.get_total_weight()); }

  std::string upd(const std::string& ty, const std::string& lit, const std::string& ws) override {
    W w = fmt<W>::in(ws);
    W est;
    if (ty == "u64") { uint64_t v = strtoull(lit.c_str(), nullptr, 10); s.update(v, w); est = s.get_estimate(v); }
    else if (ty == "i64") { int64_t v = strtoll(lit.c_str(), nullptr, 10); s.update(v, w); est = s.get_estimate(v); }
    else if (ty == "str") { auto b = vh::bytes_of_hex(lit); std::string x(b.begin(), b.end()); s.update(x, w); est = s.get_estimate(x); }
    else if (ty == "raw") { auto b = vh::bytes_of_hex(lit); s.update((const void*)b.data(), b.size(), w); est = s.get_estimate((const void*)b.data(), b.size()); }
    else throw std::runtime_error("bad item type");
    return "U " + total() + " " + fmt<W>::out(est);
  }
  std::string query(const std::string& ty, const std::string& lit) const override {
    W e, l, u;
    if (ty == "u64") { uint64_t v = strtoull(lit.c_str(), nullptr, 10); e = s.get_estimate(v); l = s.get_lower_bound(v); u = s.get_upper_bound(v); }
    else if (ty == "i64") { int64_t v = strtoll(lit.c_str(), nullptr, 10); e = s.get_estimate(v); l = s.get_lower_bound(v); u = s.get_upper_bound(v); }
    else if (ty == "str") { auto b = vh::bytes_of_hex(lit); std::string x(b.begin(), b.end()); e = s.get_estimate(x); l = s.get_lower_bound(x); u = s.get_upper_bound(x); }
    else if (ty == "raw") { auto b = vh::bytes_of_hex(lit); const void* p = b.data(); e = s.get_estimate(p, b.size()); l = s.get_lower_bound(p, b.size()); u = s.get_upper_bound(p, b.size()); }
    else throw std::runtime_error("bad item type");
    return "Q " + fmt<W>::out(e) + " " + fmt<W>::out(l) + " " + fmt<W>::out(u);
  }
  std::string dump() const override {
    std::ostringstream os;
    size_t n = ncells();
    os << "D " << total() << " " << (s.is_empty() ? 1 : 0) << " " << n;
    if (n <= 512) { for (auto it = s.begin(); it != s.end(); ++it) os << " " << fmt<W>::out(*it); }
    else {
      std::vector<uint64_t> v; size_t nz = 0;
      for (auto it = s.begin(); it != s.end(); ++it) { v.push_back(fmt<W>::bits(*it)); if (*it != 0) ++nz; }
      os << " fold " << vh::hex_u64(vh::fold64(v)) << " nz " << nz;
    }
    return os.str();
  }
  void merge(const IObj& o) override {
    const TObj<W>* t = dynamic_cast<const TObj<W>*>(&o);
    if (!t) throw std::logic_error("bad-op");
    s.merge(t->s);
  }
  std::unique_ptr<IObj> copy() const override { return std::unique_ptr<IObj>(new TObj<W>(s, k)); }
  std::unique_ptr<IObj> rt(const std::string& mode, uint64_t seed, size_t& img) const override {
    img = s.get_serialized_size_bytes();
    if (mode == "stream") {
      std::stringstream ss(std::ios::in | std::ios::out | std::ios::binary);
      s.serialize(ss);
      if ((size_t)ss.tellp() != img) img = (size_t)-1;
      return std::unique_ptr<IObj>(new TObj<W>(count_min_sketch<W>::deserialize(ss, seed), k));
    }
    unsigned hdr = mode == "hdr" ? 5 : 0;
    auto b = s.serialize(hdr);
    if (b.size() != img + hdr) img = (size_t)-1;
    // exact-size heap copy so that ASan sees any over-read
    std::unique_ptr<uint8_t[]> buf(new uint8_t[b.size() - hdr]);
    memcpy(buf.get(), b.data() + hdr, b.size() - hdr);
    return std::unique_ptr<IObj>(new TObj<W>(count_min_sketch<W>::deserialize(buf.get(), b.size() - hdr, seed), k));
  }
};

static std::map<int, std::unique_ptr<IObj>> objs;

struct no_object {};
static IObj& at(const std::string& id) { auto it = objs.find(atoi(id.c_str())); if (it == objs.end()) throw no_object(); return *it->second; }

static std::string step_(const std::vector<std::string>& w);
// an op naming an object that does not exist (its constructor threw) is answered `no-object` by harness and model
static std::string step(const std::vector<std::string>& w) {
  try { return step_(w); } catch (const no_object&) { return "no-object"; }
}

static std::string step_(const std::vector<std::string>& w) {
  const std::string& op = w[0];
  if (op == "new" && w.size() == 6) {
    int id = atoi(w[1].c_str());
    unsigned long nh = strtoul(w[3].c_str(), nullptr, 10), nb = strtoul(w[4].c_str(), nullptr, 10);
    uint64_t seed = strtoull(w[5].c_str(), nullptr, 10);
    if (nh > 255 || nb > 0xffffffffUL) return "bad-op";
    std::unique_ptr<IObj> o;
    if (w[2] == "i64") o.reset(new TObj<int64_t>(count_min_sketch<int64_t>((uint8_t)nh, (uint32_t)nb, seed), "i64"));
    else if (w[2] == "u64") o.reset(new TObj<uint64_t>(count_min_sketch<uint64_t>((uint8_t)nh, (uint32_t)nb, seed), "u64"));
    else if (w[2] == "f64") o.reset(new TObj<double>(count_min_sketch<double>((uint8_t)nh, (uint32_t)nb, seed), "f64"));
    else return "bad-op";
    std::string h = o->head();
    objs[id] = std::move(o);
    return h;
  }
  if (op == "upd" && w.size() >= 6) {
    IObj& o = at(w[1]);
    if (!o.sane()) return "unsafe";   // array smaller than hashes*buckets: the update would be out of bounds
    return o.upd(w[2], w[3], w[4]);
  }
  if (op == "q" && w.size() >= 5) {
    IObj& o = at(w[1]);
    if (!o.sane()) return "unsafe";
    return o.query(w[2], w[3]);
  }
  if (op == "dump" && w.size() == 2) return at(w[1]).dump();
  if (op == "merge" && w.size() == 3) {
    IObj& a = at(w[1]); IObj& b = at(w[2]);
    if (!a.sane() || !b.sane()) return "unsafe";
    if (std::string(a.kind()) != b.kind()) return "bad-op";
    a.merge(b);
    return "M " + a.total();
  }
  if (op == "copy" && w.size() == 3) {
    auto c = at(w[1]).copy();
    std::string t = c->total();
    objs[atoi(w[2].c_str())] = std::move(c);
    return "C " + t;
  }
  if (op == "rt" && w.size() == 5) {
    IObj& a = at(w[1]);
    if (!a.sane()) return "unsafe";
    size_t img = 0;
    auto c = a.rt(w[3], strtoull(w[4].c_str(), nullptr, 10), img);
    std::string t = c->total();
    objs[atoi(w[2].c_str())] = std::move(c);
    return (img == (size_t)-1 ? std::string("R size-mismatch ") : "R " + std::to_string(img) + " ") + t;
  }
  if (op == "sb" && w.size() == 2) return "B " + std::to_string(count_min_sketch<uint64_t>::suggest_num_buckets(vh::f64_of_hex(w[1])));
  if (op == "sh" && w.size() == 2) return "H " + std::to_string((unsigned)count_min_sketch<uint64_t>::suggest_num_hashes(vh::f64_of_hex(w[1])));
  return "bad-op";
}

// loc <num_hashes> <num_buckets> <seed> <ity> <literal>  ->  L b0 b1 ... | L ignored | throw
static std::string loc_step(const std::vector<std::string>& w) {
  if (w[0] != "loc" || w.size() != 6) return "bad-op";
  unsigned long nh = strtoul(w[1].c_str(), nullptr, 10), nb = strtoul(w[2].c_str(), nullptr, 10);
  if (nh > 255 || nb > 0xffffffffUL) return "bad-op";
  TObj<uint64_t> o(count_min_sketch<uint64_t>((uint8_t)nh, (uint32_t)nb, strtoull(w[3].c_str(), nullptr, 10)), "u64");
  if (!o.sane()) return "L unsafe";
  o.upd(w[4], w[5], "1");
  if (o.s.is_empty()) return "L ignored";
  std::ostringstream os; os << "L";
  auto it = o.s.begin();
  for (unsigned long r = 0; r < nh; ++r) {
    long found = -1; bool bad = false;
    for (unsigned long b = 0; b < nb; ++b, ++it) {
      if (*it != 0) { if (found >= 0 || *it != 1) bad = true; found = (long)b; }
    }
    if (found < 0 || bad) os << " -"; else os << " " << found;
  }
  return os.str();
}

int main(int argc, char** argv) {
  if (argc > 1 && std::string(argv[1]) == "loc") return vh::run_loop(loc_step);
  return vh::run_loop(step);
}

// Correspondence harness for the frequent-items family (C12): real frequent_items_sketch, public API only.
//
//   new <id> <u64|i64|f64> <int|str> <lg_max> <lg_start>      -> S-line | throw
//   upd|updmv <id> <item> <weight> [hint]                      -> S-line | throw     (hints are for the model only; mv = rvalue overload)
//   merge|mergemv <dst> <src> [hint nact sumlb]                -> S-line of dst
//   ser <id> <newid> <bytes|stream>                            -> S-line of the deserialised copy
//   q <id> <item>*                                             -> Q total offset nact | est:lb:ub ...
//   fi <id> <nfn|nfp> <t0|thalf|toff|t2off|tdef|literal>       -> F thr n | estimates in returned order | rows sorted (est desc, item asc)
//   apriori <lg> <w>                                           -> A hex(get_apriori_error)
//
// Integer items use an explicit identity hash functor so that the L2 table model of the Lean side knows every probe
// position (fmix64(key) & mask); string items use the default std::hash.  uint64/int64 weights are printed in
// decimal, double weights as the 16 hex digits of their bits.
#include "common.hpp"
#include <frequent_items_sketch.hpp>

using namespace datasketches;

struct id_hash { size_t operator()(uint64_t k) const { return static_cast<size_t>(k); } };

template<class W> struct WT;
template<> struct WT<uint64_t> {
  static bool parse(const std::string& s, uint64_t& w) {
    if (s.empty() || s[0] == '-') return false;
    char* e; w = strtoull(s.c_str(), &e, 10); return *e == 0; }
  static std::string fmt(uint64_t w) { return std::to_string(w); }
};
template<> struct WT<int64_t> {
  static bool parse(const std::string& s, int64_t& w) { if (s.empty()) return false; char* e; w = strtoll(s.c_str(), &e, 10); return *e == 0; }
  static std::string fmt(int64_t w) { return std::to_string(w); }
};
template<> struct WT<double> {
  static bool parse(const std::string& s, double& w) { if (s.size() != 16) return false; w = vh::f64_of_hex(s); return true; }
  static std::string fmt(double w) { return vh::hex_f64(w); }
};

template<class T> struct IT;
template<> struct IT<uint64_t> {
  static bool parse(const std::string& s, uint64_t& x) { if (s.empty()) return false; char* e; x = strtoull(s.c_str(), &e, 10); return *e == 0; }
  static std::string fmt(uint64_t x) { return std::to_string(x); }
};
template<> struct IT<std::string> {
  static bool parse(const std::string& s, std::string& x) { x = s; return true; }
  static std::string fmt(const std::string& x) { return x; }
};

struct Base {
  virtual ~Base() {}
  virtual std::string S() = 0;
  virtual std::string upd(const std::string& item, const std::string& w, bool rvalue) = 0;
  virtual std::string merge(Base& o, bool rvalue) = 0;
  virtual std::unique_ptr<Base> ser(const std::string& mode) = 0;
  virtual std::unique_ptr<Base> clone() = 0;                 // copy construction
  virtual bool assign(Base& o, bool by_move) = 0;            // copy / move assignment into this live sketch (false: other type)
  virtual std::string q(const std::vector<std::string>& w) = 0;
  virtual std::string fi(const std::string& et, const std::string& spec) = 0;
};

template<class T, class W, class H>
struct Box : Base {
  using SK = frequent_items_sketch<T, W, H>;
  SK sk;
  Box(uint8_t lgmax, uint8_t lgstart) : sk(lgmax, lgstart) {}
  explicit Box(SK&& s) : sk(std::move(s)) {}

  std::string S() override {
    return "S " + WT<W>::fmt(sk.get_total_weight()) + " " + WT<W>::fmt(sk.get_maximum_error()) + " " +
           std::to_string(sk.get_num_active_items()) + " " + (sk.is_empty() ? "1" : "0") + " " + vh::hex_f64(sk.get_epsilon());
  }
  std::string upd(const std::string& item, const std::string& w, bool rvalue) override {
    T x; W wt;
    if (!IT<T>::parse(item, x) || !WT<W>::parse(w, wt)) return "bad-op";
    if (rvalue) { T y(x); sk.update(std::move(y), wt); }   // update(T&&)
    else sk.update(x, wt);                                 // update(const T&)
    return S();
  }
  std::string merge(Base& o, bool rvalue) override {
    auto* p = dynamic_cast<Box*>(&o);
    if (!p) return "bad-op";
    if (rvalue) { SK tmp(p->sk); sk.merge(std::move(tmp)); }   // merge(frequent_items_sketch&&) on a copy
    else sk.merge(p->sk);                                      // merge(const frequent_items_sketch&)
    return S();
  }
  std::unique_ptr<Base> ser(const std::string& mode) override {
    if (mode == "stream") {
      std::stringstream ss(std::ios::in | std::ios::out | std::ios::binary);
      sk.serialize(ss);
      return std::unique_ptr<Base>(new Box(SK::deserialize(ss)));
    }
    auto bytes = sk.serialize();
    // exact-size heap copy so that ASan sees any over-read
    std::unique_ptr<uint8_t[]> buf(new uint8_t[bytes.size()]);
    memcpy(buf.get(), bytes.data(), bytes.size());
    return std::unique_ptr<Base>(new Box(SK::deserialize(buf.get(), bytes.size())));
  }
  std::string q(const std::vector<std::string>& w) override {
    std::string out = "Q " + WT<W>::fmt(sk.get_total_weight()) + " " + WT<W>::fmt(sk.get_maximum_error()) + " " +
                      std::to_string(sk.get_num_active_items()) + " |";
    for (size_t i = 2; i < w.size(); ++i) {
      T x; if (!IT<T>::parse(w[i], x)) return "bad-op";
      out += " " + WT<W>::fmt(sk.get_estimate(x)) + ":" + WT<W>::fmt(sk.get_lower_bound(x)) + ":" + WT<W>::fmt(sk.get_upper_bound(x));
    }
    return out;
  }
  std::unique_ptr<Base> clone() override { return std::unique_ptr<Base>(new Box(*this)); }
  bool assign(Base& o, bool by_move) override {
    auto* b = dynamic_cast<Box*>(&o);
    if (!b) return false;
    if (by_move) { SK tmp(b->sk); sk = std::move(tmp); } else sk = b->sk;
    return true;
  }
  std::string fi(const std::string& et, const std::string& spec) override {
    frequent_items_error_type e;
    if (et == "nfn") e = NO_FALSE_NEGATIVES; else if (et == "nfp") e = NO_FALSE_POSITIVES; else return "bad-op";
    const W off = sk.get_maximum_error();
    W thr = off;
    bool deflt = false;
    if (spec == "t0") thr = 0;
    else if (spec == "thalf") thr = off / 2;
    else if (spec == "toff") thr = off;
    else if (spec == "t2off") thr = 2 * off;
    else if (spec == "tdef") deflt = true;
    else if (!WT<W>::parse(spec, thr) || thr < 0) return "bad-op";
    auto rows = deflt ? sk.get_frequent_items(e) : sk.get_frequent_items(e, thr);
    std::string out = "F " + WT<W>::fmt(thr) + " " + std::to_string(rows.size()) + " |";
    for (auto& r : rows) out += " " + WT<W>::fmt(r.get_estimate());
    out += " |";
    struct R { T item; W est, lb, ub; };
    std::vector<R> rs;
    for (auto& r : rows) rs.push_back(R{r.get_item(), r.get_estimate(), r.get_lower_bound(), r.get_upper_bound()});
    std::sort(rs.begin(), rs.end(), [](const R& a, const R& b) { return a.est != b.est ? a.est > b.est : a.item < b.item; });
    for (auto& r : rs) out += " " + IT<T>::fmt(r.item) + ":" + WT<W>::fmt(r.est) + ":" + WT<W>::fmt(r.lb) + ":" + WT<W>::fmt(r.ub);
    return out;
  }
};

static std::map<int, std::unique_ptr<Base>> objs;

static std::unique_ptr<Base> make(const std::string& wty, const std::string& ity, int lgmax, int lgstart) {
  const uint8_t a = (uint8_t)lgmax, b = (uint8_t)lgstart;
  if (ity == "int") {
    if (wty == "u64") return std::unique_ptr<Base>(new Box<uint64_t, uint64_t, id_hash>(a, b));
    if (wty == "i64") return std::unique_ptr<Base>(new Box<uint64_t, int64_t, id_hash>(a, b));
    if (wty == "f64") return std::unique_ptr<Base>(new Box<uint64_t, double, id_hash>(a, b));
  } else if (ity == "str") {
    if (wty == "u64") return std::unique_ptr<Base>(new Box<std::string, uint64_t, std::hash<std::string>>(a, b));
    if (wty == "i64") return std::unique_ptr<Base>(new Box<std::string, int64_t, std::hash<std::string>>(a, b));
    if (wty == "f64") return std::unique_ptr<Base>(new Box<std::string, double, std::hash<std::string>>(a, b));
  }
  return nullptr;
}

static std::string step(const std::vector<std::string>& w) {
  const std::string& op = w[0];
  if (op == "new" && w.size() == 6) {
    auto p = make(w[2], w[3], atoi(w[4].c_str()), atoi(w[5].c_str()));
    if (!p) return "bad-op";
    std::string s = p->S();
    objs[atoi(w[1].c_str())] = std::move(p);
    return s;
  }
  if ((op == "upd" || op == "updmv") && w.size() >= 4) return objs.at(atoi(w[1].c_str()))->upd(w[2], w[3], op == "updmv");
  if ((op == "merge" || op == "mergemv") && w.size() >= 3) {
    Base& d = *objs.at(atoi(w[1].c_str()));
    Base& s = *objs.at(atoi(w[2].c_str()));
    return d.merge(s, op == "mergemv");
  }
  if (op == "ser" && w.size() == 4) {
    auto p = objs.at(atoi(w[1].c_str()))->ser(w[3]);
    std::string s = p->S();
    objs[atoi(w[2].c_str())] = std::move(p);
    return s;
  }
  if (op == "copy" && w.size() == 3) {      // copy <src> <dst>: assignment when dst is a live sketch of the same type (alternately copy / move), else copy construction
    Base& s = *objs.at(atoi(w[1].c_str()));
    const int d = atoi(w[2].c_str());
    static unsigned n_assign = 0;
    auto it = objs.find(d);
    if (it != objs.end() && it->second.get() != &s && it->second->assign(s, (++n_assign % 2) == 0)) return it->second->S();
    if (it != objs.end() && it->second.get() == &s) return s.S();
    objs[d] = s.clone();
    return objs[d]->S();
  }
  if (op == "q" && w.size() >= 2) return objs.at(atoi(w[1].c_str()))->q(w);
  if (op == "fi" && w.size() == 4) return objs.at(atoi(w[1].c_str()))->fi(w[2], w[3]);
  if (op == "apriori" && w.size() == 3) {
    using SK = frequent_items_sketch<uint64_t, uint64_t, id_hash>;
    return "A " + vh::hex_f64(SK::get_apriori_error((uint8_t)atoi(w[1].c_str()), strtoull(w[2].c_str(), nullptr, 10)));
  }
  return "bad-op";
}

int main() { return vh::run_loop(step); }

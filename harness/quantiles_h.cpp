// Correspondence harness: classic quantiles_sketch (C07 / C08 parts "quantiles").
// Line protocol: see lean/DSModel/Quantiles/Driver.lean.  Every internal random choice (random_bit in zip_buffer,
// the uniform offset in zip_buffer_with_stride) is supplied by the installed verif_random_source and its arity logged.
#include "common.hpp"
#include <deque>
#include "quantiles_sketch.hpp"

using namespace datasketches;

#ifndef DATASKETCHES_VERIF
#error "compile with -DDATASKETCHES_VERIF"
#endif

struct Source : random_utils::verif_random_source {
  std::deque<uint64_t> q;
  std::vector<uint64_t> log; // arities of the choices consumed
  uint64_t next(uint64_t ar) {
    log.push_back(ar);
    if (q.empty()) return 0;
    uint64_t v = q.front(); q.pop_front();
    return ar == 0 ? v : v % ar;
  }
  bool bit() override { return next(2) != 0; }
  double unit() override { throw std::logic_error("unit() is not used by the classic quantiles sketch"); }
  uint64_t below(uint64_t n) override { return next(n); }
};

template<typename T> struct ItemIO;
template<> struct ItemIO<int64_t> {
  static int64_t parse(const std::string& s) { return (int64_t)strtoll(s.c_str(), nullptr, 10); }
  static std::string render(int64_t x) { return std::to_string(x); }
};
template<> struct ItemIO<double> {
  static double parse(const std::string& s) { return vh::f64_of_hex(s); }
  static std::string render(double x) { return x == 0.0 ? vh::hex_f64(0.0) : vh::hex_f64(x); }
};

template<> struct ItemIO<std::string> {
  static std::string parse(const std::string& s) { return s; }
  static std::string render(const std::string& x) { return x; }
};

// a custom (non-default) comparator for a non-arithmetic item type: shorter strings first, then lexicographic
struct LengthFirst {
  bool operator()(const std::string& a, const std::string& b) const {
    return a.size() < b.size() || (a.size() == b.size() && a < b);
  }
};

template<typename T, typename C = std::less<T>>
struct Runner {
  using Sk = quantiles_sketch<T, C>;
  using IO = ItemIO<T>;
  std::map<int, std::unique_ptr<Sk>> objs;
  Source src;

  Runner() { random_utils::verif_source = &src; }

  static std::string view_str(const Sk& s, uint64_t* total_out, size_t* count_out) {
    auto v = s.get_sorted_view();
    std::string out; uint64_t last = 0; size_t cnt = 0;
    for (auto it = v.begin(); it != v.end(); ++it) {
      if (cnt) out += ",";
      out += IO::render((*it).first) + "*" + std::to_string((*it).second);
      last = (*it).second; ++cnt;
    }
    if (total_out) *total_out = last;
    if (count_out) *count_out = cnt;
    return out;
  }

  std::string observe(const Sk& s, size_t consumed) {
    std::ostringstream os;
    os << "O " << s.get_k() << " " << s.get_n() << " ";
    if (s.is_empty()) os << "- -"; else os << IO::render(s.get_min_item()) << " " << IO::render(s.get_max_item());
    os << " " << s.get_num_retained() << " " << (s.is_estimation_mode() ? 1 : 0) << " " << consumed << " I";
    size_t budget = (size_t)s.get_n() + 1; // a runaway iterator is cut (and reported by ASan anyway)
    for (auto it = s.begin(); it != s.end() && budget > 0; ++it, --budget) {
      auto p = *it;
      os << " " << IO::render(p.first) << ":" << p.second;
    }
    return os.str();
  }

  // mutating ops shared by the top level and by `tree`; returns the id of the object to observe, -1 = bad-op
  int apply(std::map<int, std::unique_ptr<Sk>>& o, const std::vector<std::string>& w) {
    const std::string& op = w[0];
    if (op == "new" && w.size() == 3) {
      int id = atoi(w[1].c_str());
      long k = atol(w[2].c_str());
      if (k < 0 || k > 65535) throw std::invalid_argument("k does not fit uint16_t");
      std::unique_ptr<Sk> p(new Sk((uint16_t)k));
      o[id] = std::move(p);
      return id;
    }
    if (op == "upd" && w.size() == 3) {
      int id = atoi(w[1].c_str());
      auto it = o.find(id); if (it == o.end()) return -1;
      it->second->update(IO::parse(w[2]));
      return id;
    }
    if (op == "merge" && w.size() == 4) {
      int d = atoi(w[1].c_str()), s = atoi(w[2].c_str());
      if (d == s || !o.count(d) || !o.count(s)) return -1;
      if (w[3] == "r") { Sk tmp(*o[s]); o[d]->merge(std::move(tmp)); }
      else o[d]->merge(static_cast<const Sk&>(*o[s]));
      return d;
    }
    if (op == "copy" && w.size() == 3) {
      int s = atoi(w[1].c_str()), d = atoi(w[2].c_str());
      if (!o.count(s)) return -1;
      std::unique_ptr<Sk> p(new Sk(*o[s]));
      o[d] = std::move(p);
      return d;
    }
    if (op == "view" && w.size() == 2) {
      int id = atoi(w[1].c_str());
      if (!o.count(id)) return -1;
      (void)o[id]->get_sorted_view();
      return id;
    }
    return -1;
  }

  std::string tree(const std::vector<std::string>& w) {
    int id = atoi(w[1].c_str());
    std::vector<std::vector<std::string>> ops(1);
    for (size_t i = 3; i < w.size(); ++i) { if (w[i] == ";") ops.emplace_back(); else ops.back().push_back(w[i]); }
    std::vector<uint64_t> choice; // current path
    std::vector<std::string> leaves;
    std::deque<uint64_t> saved_q = src.q; std::vector<uint64_t> saved_log = src.log;
    const size_t cap = 1u << 16;
    bool more = true;
    while (more) {
      std::map<int, std::unique_ptr<Sk>> o;
      src.q.assign(choice.begin(), choice.end());
      src.log.clear();
      for (auto& g : ops) { if (g.empty() || apply(o, g) < 0) { src.q = saved_q; src.log = saved_log; return "bad-op"; } }
      std::string leaf = "a";
      for (size_t i = 0; i < src.log.size(); ++i) { if (i) leaf += "."; leaf += std::to_string(src.log[i]); }
      if (!o.count(id)) leaf += ":missing";
      else {
        uint64_t total = 0; size_t cnt = 0;
        std::string vs = view_str(*o[id], &total, &cnt);
        leaf += ":" + std::to_string(total) + ":" + vs;
      }
      leaves.push_back(leaf);
      if (leaves.size() > cap) { src.q = saved_q; src.log = saved_log; return "L overflow"; }
      // odometer: extend the path with the zeros that were implicitly taken, then advance
      std::vector<uint64_t> ar = src.log;
      choice.resize(ar.size(), 0);
      more = false;
      while (!choice.empty()) {
        size_t i = choice.size() - 1;
        if (choice[i] + 1 < ar[i]) { ++choice[i]; more = true; break; }
        choice.pop_back(); ar.pop_back();
      }
    }
    src.q = saved_q; src.log = saved_log;
    std::sort(leaves.begin(), leaves.end());
    std::string out = "L " + std::to_string(leaves.size());
    for (auto& l : leaves) out += " " + l;
    return out;
  }

  std::string est(int id) { return objs[id]->is_estimation_mode() ? "1 " : "0 "; }

  std::string step(const std::vector<std::string>& w) {
    const std::string& op = w[0];
    if (op == "rand") {
      for (size_t i = 1; i < w.size(); ++i) src.q.push_back(strtoull(w[i].c_str(), nullptr, 10));
      return "RND " + std::to_string(src.q.size());
    }
    if (op == "view" && w.size() == 2) {
      int id = atoi(w[1].c_str()); if (!objs.count(id)) return "bad-op";
      uint64_t total = 0; size_t cnt = 0;
      std::string vs = view_str(*objs[id], &total, &cnt);
      return "V " + std::to_string(total) + " " + std::to_string(cnt) + " " + vs;
    }
    if (op == "rank" && w.size() == 4) {
      int id = atoi(w[1].c_str()); if (!objs.count(id)) return "bad-op";
      return std::string("R ") + est(id) + vh::hex_f64(objs[id]->get_rank(IO::parse(w[2]), w[3] == "1"));
    }
    if (op == "quant" && w.size() == 4) {
      int id = atoi(w[1].c_str()); if (!objs.count(id)) return "bad-op";
      return std::string("Q ") + est(id) + IO::render(objs[id]->get_quantile(vh::f64_of_hex(w[2]), w[3] == "1"));
    }
    if ((op == "cdf" || op == "pmf") && w.size() >= 3) {
      int id = atoi(w[1].c_str()); if (!objs.count(id)) return "bad-op";
      std::vector<T> sp; for (size_t i = 3; i < w.size(); ++i) sp.push_back(IO::parse(w[i]));
      auto r = op == "cdf" ? objs[id]->get_CDF(sp.data(), (uint32_t)sp.size(), w[2] == "1")
                           : objs[id]->get_PMF(sp.data(), (uint32_t)sp.size(), w[2] == "1");
      std::string out = std::string(op == "cdf" ? "C " : "P ") + (objs[id]->is_estimation_mode() ? "1" : "0");
      for (double x : r) out += " " + vh::hex_f64(x);
      return out;
    }
    if (op == "err" && w.size() == 3) {
      int id = atoi(w[1].c_str()); if (!objs.count(id)) return "bad-op";
      return "E " + vh::hex_f64(objs[id]->get_normalized_rank_error(w[2] == "1"));
    }
    if (op == "tree" && w.size() >= 4 && w[2] == ";") return tree(w);
    int id = apply(objs, w);
    if (id < 0) return "bad-op";
    return observe(*objs[id], src.log.size());
  }
};

int main() {
  std::unique_ptr<Runner<int64_t>> ri; std::unique_ptr<Runner<double>> rf; std::unique_ptr<Runner<std::string, LengthFirst>> rs;
  return vh::run_loop([&](const std::vector<std::string>& w) -> std::string {
    if (w[0] == "T" && w.size() == 2) {
      ri.reset(); rf.reset(); rs.reset();
      if (w[1] == "i64") { ri.reset(new Runner<int64_t>()); return "T ok"; }
      if (w[1] == "f64") { rf.reset(new Runner<double>()); return "T ok"; }
      if (w[1] == "str") { rs.reset(new Runner<std::string, LengthFirst>()); return "T ok"; }
      return "bad-op";
    }
    if (ri) return ri->step(w);
    if (rf) return rf->step(w);
    if (rs) return rs->step(w);
    return "bad-op";
  });
}

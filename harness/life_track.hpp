// C19 harness instrumentation: a stateful tracking allocator and an instrumented item type.
//
//  * Ledger: every block handed out by a TrackAlloc (id, element kind, element size, count, allocator
//    instance).  deallocate() must name a live block of this ledger, with the allocated count, through an
//    allocator instance equal to the allocating one; anything else is a FATAL finding (size mismatch,
//    double free, foreign free).
//  * Item: every constructor / assignment / destructor / value read is checked against a registry of live
//    Item addresses: construct over a live object, double destroy, use after destroy, read of a moved-from
//    value are FATAL findings.  Addresses are resolved to (block, index) through the ledger.
#pragma once
#include <cstdint>
#include <cstdlib>
#include <cstring>
#include <cstddef>
#include <string>
#include <vector>
#include <map>
#include <unordered_map>
#include <algorithm>
#include <iostream>
#include <sstream>
#include <new>
#include <utility>
#include <unistd.h>

namespace life {

struct Block { uint64_t id; std::string kind; size_t esz; size_t n; char* base; int inst; long item_off; };

struct Ledger {
  std::map<uintptr_t, Block> live;
  uint64_t next_id = 0;
  bool muted = false;           // harness-internal work (image digests): checked but not logged per op
  std::vector<std::string> op_allocs, op_frees;
  long op_ctor_in = 0, op_dtor_in = 0;
  long total_allocs = 0, total_frees = 0, total_ctor = 0, total_dtor = 0;
  std::vector<std::string> op_soft;   // findings that do not endanger the process (reported, execution continues)
  bool shared_inst = false;           // every object uses one allocator instance (else one instance per object)

  void begin_op() { op_allocs.clear(); op_frees.clear(); op_soft.clear(); op_ctor_in = op_dtor_in = 0; }
  const Block* find(const void* p) const {
    uintptr_t a = (uintptr_t)p;
    auto it = live.upper_bound(a);
    if (it == live.begin()) return nullptr;
    --it;
    const Block& b = it->second;
    if (a >= (uintptr_t)b.base && a < (uintptr_t)b.base + b.n * b.esz) return &b;
    return nullptr;
  }
};

inline Ledger& ledger() { static Ledger l; return l; }
inline bool h_kind(const std::string& k) { return k == "item" || k == "entry" || k == "u64" || k == "u16" || k == "view"; }

// a finding of the instrumentation: print it as the observation of the current op and stop (the process state
// is not trustworthy afterwards; _exit skips destructors and the leak check)
extern "C" void __sanitizer_print_stack_trace(void);
[[noreturn]] inline void fatal(const std::string& what) {
  if (getenv("VH_VERBOSE")) __sanitizer_print_stack_trace();
  std::cout << "FATAL " << what << std::endl;
  std::cout.flush();
  _exit(0);
}

extern "C" void __sanitizer_print_stack_trace(void);
template<class T> struct kind_of { static std::string name() { return "o" + std::to_string(sizeof(T)); } static long item_off() { return -1; } };

template<class T> class TrackAlloc {
public:
  using value_type = T;
  using propagate_on_container_copy_assignment = std::true_type;
  using propagate_on_container_move_assignment = std::true_type;
  using propagate_on_container_swap = std::true_type;
  using is_always_equal = std::false_type;
  template<class U> struct rebind { using other = TrackAlloc<U>; };
  int inst;
  explicit TrackAlloc(int i) : inst(i) {}
  // a default-constructed allocator means the instance supplied by the user was not propagated: reported, not fatal
  TrackAlloc() : inst(-1) { if (getenv("VH_VERBOSE")) __sanitizer_print_stack_trace(); ledger().op_soft.push_back("default-allocator"); }
  TrackAlloc(const TrackAlloc& o) noexcept : inst(o.inst) {}
  template<class U> TrackAlloc(const TrackAlloc<U>& o) noexcept : inst(o.inst) {}
  TrackAlloc& operator=(const TrackAlloc& o) noexcept { inst = o.inst; return *this; }

  T* allocate(size_t n) {
    Ledger& L = ledger();
    void* p = ::operator new(n * sizeof(T) + (n == 0 ? 1 : 0));
    Block b{L.next_id++, kind_of<T>::name(), sizeof(T), n, (char*)p, inst, kind_of<T>::item_off()};
    L.live[(uintptr_t)p] = b;
    ++L.total_allocs;
    if (!L.muted) L.op_allocs.push_back(b.kind + "*" + std::to_string(n));
    return (T*)p;
  }
  void deallocate(T* p, size_t n) noexcept {
    Ledger& L = ledger();
    auto it = L.live.find((uintptr_t)p);
    if (it == L.live.end()) fatal("dealloc-unknown-block kind=" + kind_of<T>::name() + " n=" + std::to_string(n) + " (double free or foreign pointer)");
    const Block& b = it->second;
    if (b.n != n) fatal("dealloc-size-mismatch kind=" + b.kind + " allocated=" + std::to_string(b.n) + " released=" + std::to_string(n));
    if (b.esz != sizeof(T)) fatal("dealloc-type-mismatch kind=" + b.kind + " released-as=" + kind_of<T>::name());
    if (b.inst != inst) L.op_soft.push_back("foreign-free:" + b.kind);   // released through an unequal allocator instance
    ++L.total_frees;
    if (!L.muted) L.op_frees.push_back(b.kind + "*" + std::to_string(n));
    L.live.erase(it);
    ::operator delete(p);
  }
  size_t max_size() const { return static_cast<size_t>(-1) / sizeof(T); }
};
template<class T, class U> bool operator==(const TrackAlloc<T>& a, const TrackAlloc<U>& b) { return a.inst == b.inst; }
template<class T, class U> bool operator!=(const TrackAlloc<T>& a, const TrackAlloc<U>& b) { return a.inst != b.inst; }

// ------------------------------------------------------------------------------------------------ Item
struct ItemRegistry {
  std::unordered_map<const void*, uint8_t> st;   // 1 live, 2 moved-from
};
inline ItemRegistry& items() { static ItemRegistry r; return r; }

class Item {
  int64_t v_;
  static std::string where(const void* p) {
    const Block* b = ledger().find(p);
    if (!b) return "outside-blocks";
    return b->kind + "*" + std::to_string(b->n) + "[" + std::to_string(((uintptr_t)p - (uintptr_t)b->base) / b->esz) + "]";
  }
  void born() {
    auto& r = items().st;
    if (r.count(this)) fatal("construct-over-live-object at " + where(this));
    r[this] = 1;
    Ledger& L = ledger();
    ++L.total_ctor;
    if (!L.muted) { const Block* b = L.find(this); if (b && h_kind(b->kind)) ++L.op_ctor_in; }
  }
  void check_alive(const char* what) const {
    if (!items().st.count(this)) fatal(std::string("use-after-destroy (") + what + ") at " + where(this));
  }
public:
  int64_t value(const char* what = "read") const {
    auto it = items().st.find(this);
    if (it == items().st.end()) fatal(std::string("use-after-destroy (") + what + ") at " + where(this));
    if (it->second == 2) fatal(std::string("read-moved-from (") + what + ") at " + where(this));
    return v_;
  }
  Item() : v_(0) { born(); }
  explicit Item(int64_t v) : v_(v) { born(); }
  Item(const Item& o) : v_(o.value("copy-construct")) { born(); }
  Item(Item&& o) noexcept : v_(o.v_) {
    o.check_alive("move-construct");
    uint8_t s = items().st[&o];
    born();
    items().st[this] = s;       // moving a moved-from object yields a moved-from object
    items().st[&o] = 2;
  }
  Item& operator=(const Item& o) {
    check_alive("copy-assign target");
    int64_t x = o.value("copy-assign");
    v_ = x; items().st[this] = 1;
    return *this;
  }
  Item& operator=(Item&& o) noexcept {
    check_alive("move-assign target");
    o.check_alive("move-assign");
    if (this != &o) {
      uint8_t s = items().st[&o];
      v_ = o.v_;
      items().st[this] = s;
      items().st[&o] = 2;
    }
    return *this;
  }
  ~Item() {
    auto& r = items().st;
    auto it = r.find(this);
    if (it == r.end()) fatal("double-destroy at " + where(this));
    r.erase(it);
    Ledger& L = ledger();
    ++L.total_dtor;
    if (!L.muted) { const Block* b = L.find(this); if (b && h_kind(b->kind)) ++L.op_dtor_in; }
  }
  void add(int64_t d) { v_ = value("update") + d; }
  bool operator<(const Item& o) const { return value("compare") < o.value("compare"); }
  bool operator==(const Item& o) const { return value("compare") == o.value("compare"); }
  friend std::ostream& operator<<(std::ostream& os, const Item& i) { return os << i.value("print"); }
};

struct ItemHash { size_t operator()(const Item& i) const { return (size_t)i.value("hash"); } };

// serde with the contract of the library's serde<T>: deserialize constructs `num` items in raw storage and,
// when it has to give up, destroys what it constructed before throwing
struct ItemSerde {
  void serialize(std::ostream& os, const Item* it, unsigned num) const {
    for (unsigned i = 0; i < num; ++i) { int64_t v = it[i].value("serialize"); os.write((const char*)&v, 8); }
  }
  void deserialize(std::istream& is, Item* it, unsigned num) const {
    unsigned i = 0;
    for (; i < num; ++i) {
      int64_t v; is.read((char*)&v, 8);
      if (!is.good()) break;
      new (&it[i]) Item(v);
    }
    if (i < num) { for (unsigned j = 0; j < i; ++j) it[j].~Item(); throw std::runtime_error("item serde: stream too short"); }
  }
  size_t size_of_item(const Item&) const { return 8; }
  size_t serialize(void* ptr, size_t capacity, const Item* it, unsigned num) const {
    if (capacity < 8ull * num) throw std::out_of_range("item serde: buffer too small");
    for (unsigned i = 0; i < num; ++i) { int64_t v = it[i].value("serialize"); memcpy((char*)ptr + 8 * i, &v, 8); }
    return 8ull * num;
  }
  size_t deserialize(const void* ptr, size_t capacity, Item* it, unsigned num) const {
    unsigned i = 0;
    for (; i < num; ++i) {
      if (capacity < 8ull * (i + 1)) break;
      int64_t v; memcpy(&v, (const char*)ptr + 8 * i, 8);
      new (&it[i]) Item(v);
    }
    if (i < num) { for (unsigned j = 0; j < i; ++j) it[j].~Item(); throw std::out_of_range("item serde: buffer too short"); }
    return 8ull * num;
  }
};

template<> struct kind_of<Item> { static std::string name() { return "item"; } static long item_off() { return 0; } };
using EntryT = std::pair<uint64_t, Item>;
template<> struct kind_of<EntryT> { static std::string name() { return "entry"; }
  static long item_off() { alignas(EntryT) static char buf[sizeof(EntryT)]; EntryT* e = reinterpret_cast<EntryT*>(buf); return (long)((char*)&e->second - (char*)e); } };
template<> struct kind_of<uint64_t> { static std::string name() { return "u64"; } static long item_off() { return -1; } };
template<> struct kind_of<int64_t> { static std::string name() { return "i64"; } static long item_off() { return -1; } };
template<> struct kind_of<uint32_t> { static std::string name() { return "u32"; } static long item_off() { return -1; } };
template<> struct kind_of<uint16_t> { static std::string name() { return "u16"; } static long item_off() { return -1; } };
template<> struct kind_of<uint8_t> { static std::string name() { return "u8"; } static long item_off() { return -1; } };
template<> struct kind_of<char> { static std::string name() { return "u8"; } static long item_off() { return -1; } };
template<> struct kind_of<double> { static std::string name() { return "f64"; } static long item_off() { return -1; } };
template<> struct kind_of<float> { static std::string name() { return "f32"; } static long item_off() { return -1; } };
template<> struct kind_of<std::string> { static std::string name() { return "str"; } static long item_off() { return -1; } };

// ---------------------------------------------------------------------------------- observation helpers
inline std::string join_sorted(std::vector<std::string> v) {
  if (v.empty()) return "-";
  std::sort(v.begin(), v.end());
  std::string s;
  for (size_t i = 0; i < v.size(); ++i) { if (i) s += ","; s += v[i]; }
  return s;
}

// slot states of a block as run-length encoding (r raw, L live, m moved-from) and the number of non-raw slots
inline std::string block_token(const Block& b) {
  std::string rle; long nonraw = 0;
  if (b.item_off < 0 || b.n == 0) { rle = std::to_string(b.n) + "r"; }
  else {
    char cur = 0; long run = 0;
    auto& r = items().st;
    for (size_t i = 0; i < b.n; ++i) {
      auto it = r.find(b.base + i * b.esz + b.item_off);
      char c = it == r.end() ? 'r' : (it->second == 2 ? 'm' : 'L');
      if (c != 'r') ++nonraw;
      if (c == cur) ++run; else { if (run) rle += std::to_string(run) + cur; cur = c; run = 1; }
    }
    if (run) rle += std::to_string(run) + cur;
  }
  return b.kind + "*" + std::to_string(b.n) + ":" + std::to_string(nonraw) + ":" + rle;
}

// "<H part> | V <V part>"
inline std::string ledger_observation() {
  Ledger& L = ledger();
  std::vector<std::string> ha, hf, va, vf, hl, vl;
  for (auto& t : L.op_allocs) (h_kind(t.substr(0, t.find('*'))) ? ha : va).push_back(t);
  for (auto& t : L.op_frees) (h_kind(t.substr(0, t.find('*'))) ? hf : vf).push_back(t);
  for (auto& kv : L.live) (h_kind(kv.second.kind) ? hl : vl).push_back(block_token(kv.second));
  long out = 0, invec = 0;
  for (auto& kv : items().st) {
    const Block* b = L.find(kv.first);
    if (!b) ++out; else if (!h_kind(b->kind)) ++invec;
  }
  std::ostringstream os;
  os << "A=" << join_sorted(ha) << " F=" << join_sorted(hf) << " C=" << L.op_ctor_in << " D=" << L.op_dtor_in
     << " L=" << join_sorted(hl) << " O=" << out
     << (L.op_soft.empty() ? "" : " | E " + join_sorted(L.op_soft))
     << " | V A=" << join_sorted(va) << " F=" << join_sorted(vf) << " L=" << join_sorted(vl) << " VI=" << invec;
  return os.str();
}

} // namespace life

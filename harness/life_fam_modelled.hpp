// C19 harness: the three families whose storage management has a Lean program model
// (theta/tuple hash table, KLL, frequent-items reverse purge hash map), with the instrumented Item type.
#pragma once
#include "tuple_sketch.hpp"
#include "kll_sketch.hpp"
#include "frequent_items_sketch.hpp"

namespace life {

// quantiles_sorted_view objects are placement-constructed by hand in a block obtained from allocate(1)
template<class T, class C, class A> struct kind_of<datasketches::quantiles_sorted_view<T, C, A>> {
  static std::string name() { return "view"; } static long item_off() { return -1; } };

// ---- tuple update sketch over theta_update_sketch_base<pair<uint64_t, Item>, ...>
struct ItemPolicy {
  Item create() const { return Item(0); }
  void update(Item& s, const int64_t& v) const { s.add(v); }
};

struct FamTuple {
  template<class S_> static void cassign(S_& a, const S_& b) { a = b; }
  using A = TrackAlloc<Item>;
  using S = datasketches::update_tuple_sketch<Item, int64_t, ItemPolicy, A>;
  // new tup <id> <lgk> <rf> <p hex f32> <theta0>
  static S make(int inst, const W& w) {
    return typename S::builder(ItemPolicy(), A(inst)).set_lg_k((uint8_t)atoi(w[3].c_str()))
      .set_resize_factor((datasketches::resize_factor)atoi(w[4].c_str())).set_p(vh::f32_of_hex(w[5])).build();
  }
  static void update(S& s, const W& w) { s.update((uint64_t)strtoull(w[2].c_str(), nullptr, 10), (int64_t)atoll(w[3].c_str())); }
  static void merge(S&, S&, bool) { throw BadOp("unsupported"); }
  static void query(S& s, const W&) {
    volatile double e = s.get_estimate(); (void)e;
    int64_t sum = 0; for (const auto& en : s) sum += en.second.value("iterate"); (void)sum;
  }
  static std::string image(const S& s) { auto b = s.compact().serialize(0, ItemSerde()); return std::string(b.begin(), b.end()); }
  static S deser(const std::string&, int) { throw BadOp("unsupported"); }
  static void trim(S& s) { s.trim(); }
  static void reset(S& s) { s.reset(); }
};

// ---- KLL
struct FamKll : NoTrimReset {
  using A = TrackAlloc<Item>;
  using S = datasketches::kll_sketch<Item, std::less<Item>, A>;
  static S make(int inst, const W& w) { return S((uint16_t)atoi(w[3].c_str()), std::less<Item>(), A(inst)); }
  static void update(S& s, const W& w) { s.update(Item(atoll(w[2].c_str()))); }
  static void merge(S& s, S& o, bool mv) { if (mv) s.merge(std::move(o)); else merge_lvalue(s, o); }
  static void query(S& s, const W& w) {
    if (s.is_empty()) return;   // rank/quantile queries on an empty sketch throw by contract
    volatile double r = s.get_rank(Item(atoll(w[2].c_str()))); (void)r;
    int64_t q = s.get_quantile(0.5).value("quantile"); (void)q;
  }
  static std::string image(const S& s) { auto b = s.serialize(0, ItemSerde()); return std::string(b.begin(), b.end()); }
  static S deser(const std::string& img, int inst) { return S::deserialize(img.data(), img.size(), ItemSerde(), std::less<Item>(), A(inst)); }
};

// ---- frequent items
struct FamFi : NoTrimReset {
  using A = TrackAlloc<Item>;
  using S = datasketches::frequent_items_sketch<Item, uint64_t, ItemHash, std::equal_to<Item>, A>;
  static S make(int inst, const W& w) { return S((uint8_t)atoi(w[3].c_str()), (uint8_t)atoi(w[4].c_str()), std::equal_to<Item>(), A(inst)); }
  static void update(S& s, const W& w) { s.update(Item(atoll(w[2].c_str())), (uint64_t)strtoull(w[3].c_str(), nullptr, 10)); }
  static void merge(S& s, S& o, bool mv) { if (mv) s.merge(std::move(o)); else merge_lvalue(s, o); }
  static void query(S& s, const W& w) {
    volatile uint64_t e = s.get_estimate(Item(atoll(w[2].c_str()))); (void)e;
    auto rows = s.get_frequent_items(datasketches::NO_FALSE_POSITIVES);
    int64_t sum = 0; for (auto& r : rows) sum += r.get_item().value("row"); (void)sum;
  }
  static std::string image(const S& s) { auto b = s.serialize(0, ItemSerde()); return std::string(b.begin(), b.end()); }
  static S deser(const std::string& img, int inst) { return S::deserialize(img.data(), img.size(), ItemSerde(), std::equal_to<Item>(), A(inst)); }
};

inline AnyObj* make_modelled(const std::string& fam, int inst, const W& w) {
  if (fam == "tup") return new ObjT<FamTuple>(inst, w);
  if (fam == "kll") return new ObjT<FamKll>(inst, w);
  if (fam == "fi") return new ObjT<FamFi>(inst, w);
  return nullptr;
}

} // namespace life

// C19 correspondence / monitoring harness: lifecycle histories over several live sketch objects, all memory
// through a tracking allocator, items of an instrumented type (or std::string), ASan+LSan.
//
// op lines (objects are named by small integers):
//   new <fam> <id> <cfg...>        upd <id> <a> <b> [coins]      merge|mergemv <dst> <src> [coins]
//   copy|move <src> <dst>          cassign|massign <dst> <src>   query <id> <arg>   ser <id>   serde <src> <dst>
//   serdecut <src> <dst> <pct>     (deserialize the image truncated to pct% of its length: must throw and leak nothing)
//   trim|reset <id>                destroy <id>                  end
//   alloc shared|distinct          (one allocator instance for all objects / one per object; default distinct)
// observation per op:
//   ok|throw A=<allocs> F=<frees> C=<ctors in blocks> D=<dtors in blocks> L=<live blocks> O=<items outside blocks>
//     | V A= F= L= VI=  (blocks of std::vector & co: not predicted by the model)
//     | I <id>:<digest of the serialized image> ...   (every usable object)
#include "common.hpp"
#include "life_track.hpp"
#include "life_families.hpp"
#include <sanitizer/common_interface_defs.h>
#include <sys/wait.h>
#include <fcntl.h>

using namespace life;

struct Slot { std::unique_ptr<AnyObj> o; bool usable; };
static std::map<int, Slot> objs;

static int id_of(const std::string& s) { return atoi(s.c_str()); }

// what is running, for the sanitizer death callback: "<op> fam=<family> [self] [to-moved-from] [on-deserialized]"
static char g_desc[512] = "start";            // plain storage: must stay readable while static objects are destroyed at exit
static void set_desc(const std::string& d) { snprintf(g_desc, sizeof g_desc, "%s", d.c_str()); }
static std::map<int, std::string> g_fam;       // object id -> family
static std::map<int, bool> g_deser;            // object id -> created by deserialization

// a sanitizer report (ASan / UBSan with -fno-sanitize-recover) ends the process: turn it into an observation line
// that names the operation, so that the finding has a specific key, and leave without running destructors
static bool g_probe = false;
static void on_sanitizer_death() {
  if (g_probe) _exit(66);
  char buf[640];
  int n = snprintf(buf, sizeof buf, "FATAL sanitizer-report %s\n", g_desc);
  fflush(stdout);
  if (n > 0) { ssize_t r = write(1, buf, (size_t)n); (void)r; }
  _exit(0);
}

static Slot& usable(int id) {
  auto it = objs.find(id);
  if (it == objs.end()) throw BadOp("no such object");
  if (!it->second.usable) throw BadOp("operation on a moved-from object");
  return it->second;
}
static Slot& any(int id) {
  auto it = objs.find(id);
  if (it == objs.end()) throw BadOp("no such object");
  return it->second;
}
static void fresh(int id) { if (objs.count(id)) throw BadOp("object id already in use"); }

static uint64_t digest(const std::string& b) {
  uint64_t h = 1469598103934665603ULL;
  for (unsigned char c : b) { h ^= c; h *= 1099511628211ULL; }
  return h;
}

static std::string images() {
  Ledger& L = ledger();
  L.muted = true;
  std::ostringstream os;
  os << "I";
  for (auto& kv : objs) {
    if (!kv.second.usable) continue;
    std::string img;
    try { img = kv.second.o->image(); } catch (const std::exception&) { img = "<throw>"; }
    os << " " << kv.first << ":" << vh::hex_u64(digest(img));
  }
  L.muted = false;
  return os.str();
}

static std::string describe(const std::vector<std::string>& w) {
  const std::string& op = w[0];
  std::string d = op;
  auto fam = [&](int id) { auto it = g_fam.find(id); return it == g_fam.end() ? std::string("?") : it->second; };
  if (op == "new") return d + " fam=" + w[1];
  if (w.size() < 2) return d;
  int a = id_of(w[1]);
  d += " fam=" + fam(a);
  if ((op == "cassign" || op == "massign") && w.size() > 2) {
    if (w[1] == w[2]) d += " self";
    auto it = objs.find(a);
    if (it != objs.end() && !it->second.usable) d += " to-moved-from";
  }
  if (g_deser.count(a) && g_deser[a]) d += " on-deserialized";
  return d;
}

static void do_op(const std::vector<std::string>& w) {
  const std::string& op = w[0];
  if (op == "new") {
    int id = id_of(w[2]); fresh(id);
    std::unique_ptr<AnyObj> o(make_object(w[1], id, w));
    objs[id] = Slot{std::move(o), true};
    g_fam[id] = w[1]; g_deser[id] = false;
  } else if (op == "upd") {
    Slot& s = usable(id_of(w[1]));
    s.o->update(w);
  } else if (op == "copy") {
    Slot& s = usable(id_of(w[1])); int d = id_of(w[2]); fresh(d);
    std::unique_ptr<AnyObj> o(s.o->copy());
    objs[d] = Slot{std::move(o), true};
    g_fam[d] = g_fam[id_of(w[1])]; g_deser[d] = g_deser[id_of(w[1])];
  } else if (op == "move") {
    Slot& s = usable(id_of(w[1])); int d = id_of(w[2]); fresh(d);
    std::unique_ptr<AnyObj> o(s.o->move_new());
    s.usable = false;
    objs[d] = Slot{std::move(o), true};
    g_fam[d] = g_fam[id_of(w[1])]; g_deser[d] = g_deser[id_of(w[1])];
  } else if (op == "cassign") {
    Slot& d = any(id_of(w[1])); Slot& s = usable(id_of(w[2]));
    d.o->copy_assign(*s.o);
    d.usable = true;
    g_deser[id_of(w[1])] = g_deser[id_of(w[2])];
  } else if (op == "massign") {
    Slot& d = any(id_of(w[1])); Slot& s = usable(id_of(w[2]));
    d.o->move_assign(*s.o);
    if (&d != &s) { s.usable = false; d.usable = true; g_deser[id_of(w[1])] = g_deser[id_of(w[2])]; }
  } else if (op == "merge" || op == "mergemv") {
    Slot& d = usable(id_of(w[1])); Slot& s = usable(id_of(w[2]));
    if (&d == &s) throw BadOp("self merge");
    bool mv = op == "mergemv";
    CoinSource coins(w.size() > 3 ? w[3] : "");
    if (mv) s.usable = false;
    d.o->merge(*s.o, mv);
  } else if (op == "query") {
    usable(id_of(w[1])).o->query(w);
  } else if (op == "ser") {
    usable(id_of(w[1])).o->serialize_op();
  } else if (op == "serde" || op == "serdecut") {
    Slot& s = usable(id_of(w[1])); int d = id_of(w[2]); fresh(d);
    std::unique_ptr<AnyObj> o(s.o->roundtrip(w));
    objs[d] = Slot{std::move(o), true};
    g_fam[d] = g_fam[id_of(w[1])]; g_deser[d] = true;
  } else if (op == "trim") {
    usable(id_of(w[1])).o->trim();
  } else if (op == "reset") {
    usable(id_of(w[1])).o->reset();
  } else if (op == "destroy") {
    int id = id_of(w[1]); any(id);
    objs.erase(id);
  } else throw BadOp("unknown op");
}

int main(int, char**) {
  __sanitizer_set_death_callback(on_sanitizer_death);
  std::string line;
  while (std::getline(std::cin, line)) {
    auto w = vh::split(line);
    if (w.empty() || w[0][0] == '#') continue;
    Ledger& L = ledger();
    if (w[0] == "end") {
      // end of history: every object must have been destroyed by the history itself
      std::cout << "end blocks=" << L.live.size() << " objs=" << objs.size() << " items=" << items().st.size()
                << " allocs=" << L.total_allocs << " frees=" << L.total_frees
                << " ctors=" << L.total_ctor << " dtors=" << L.total_dtor << "\n";
      continue;
    }
    if (w[0] == "alloc") { L.shared_inst = w.size() > 1 && w[1] == "shared"; std::cout << "cfg\n"; continue; }
    L.begin_op();
    std::string status = "ok";
    const std::string desc0 = describe(w);
    set_desc(desc0);
    if (desc0.find(" self") != std::string::npos || desc0.find(" to-moved-from") != std::string::npos) {
      // assignments to the object itself / to a moved-from object: run the operation in a forked probe first, so that a
      // crash or a sanitizer report of a runtime that does not honour the death callback (UBSan) still yields an
      // observation line naming the operation
      std::cout.flush();
      pid_t pid = fork();
      if (pid == 0) {
        g_probe = true;
        int fd = open("/dev/null", O_WRONLY); if (fd >= 0) { dup2(fd, 1); dup2(fd, 2); }
        try { do_op(w); } catch (...) {}
        _exit(0);
      }
      int st = 0;
      if (pid > 0 && waitpid(pid, &st, 0) == pid && !(WIFEXITED(st) && WEXITSTATUS(st) == 0)) {
        std::cout << "FATAL sanitizer-report " << desc0 << std::endl;
        std::cout.flush();
        _exit(0);
      }
    }
    try { do_op(w); }
    catch (const BadOp& e) { std::cout << "bad " << e.what() << "\n"; continue; }
    catch (const std::exception& e) { status = "throw"; if (getenv("VH_VERBOSE")) std::cerr << "exception: " << e.what() << "\n"; }
    std::string obs = ledger_observation();
    std::string desc = desc0;
    set_desc("computing-image-after " + desc);
    std::cout << status << " " << obs << " | " << images() << (status == "throw" ? " | T " + desc : "") << "\n";
  }
  // objects the history left alive are destroyed here; LeakSanitizer then checks what is still allocated
  set_desc("destroy-at-exit");
  objs.clear();
  set_desc("leak-check-at-exit");
  if (!ledger().live.empty() || !items().st.empty()) {
    std::cout << "FATAL leak-at-exit blocks=" << ledger().live.size() << " items=" << items().st.size() << "\n";
  }
  std::cout.flush();
  return 0;
}

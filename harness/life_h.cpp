// C19 correspondence / monitoring harness: lifecycle histories over several live sketch objects, all memory
// through a tracking allocator, items of an instrumented type (or std::string), ASan+LSan.
//
// op lines (objects are named by small integers):
//   new <fam> <id> <cfg...>        upd <id> <a> <b> [coins]      merge|mergemv <dst> <src> [coins]
//   copy|move <src> <dst>          cassign|massign <dst> <src>   query <id> <arg>   ser <id>   serde <src> <dst>
//   trim|reset <id>                destroy <id>                  end
//   alloc shared|distinct          (one allocator instance for all objects / one per object; default distinct)
// observation per op:
//   ok|throw A=<allocs> F=<frees> C=<ctors in blocks> D=<dtors in blocks> L=<live blocks> O=<items outside blocks>
//     | V A= F= L= VI=  (blocks of std::vector & co: not predicted by the model)
//     | I <id>:<digest of the serialized image> ...   (every usable object)
#include "common.hpp"
#include "life_track.hpp"
#include "life_families.hpp"

using namespace life;

struct Slot { std::unique_ptr<AnyObj> o; bool usable; };
static std::map<int, Slot> objs;

static int id_of(const std::string& s) { return atoi(s.c_str()); }

static Slot& usable(int id) {
  auto it = objs.find(id);
  if (it == objs.end()) throw BadOp("no such object");
  if (!it->second.usable) throw BadOp("operation on a moved-from object");
  return it->second;
}
static Slot& any(int id) {
  auto it = objs.find(id);
  if (it == objs.end()) throw BadOp("no such object");
  return it->second;
}
static void fresh(int id) { if (objs.count(id)) throw BadOp("object id already in use"); }

static uint64_t digest(const std::string& b) {
  uint64_t h = 1469598103934665603ULL;
  for (unsigned char c : b) { h ^= c; h *= 1099511628211ULL; }
  return h;
}

static std::string images() {
  Ledger& L = ledger();
  L.muted = true;
  std::ostringstream os;
  os << "I";
  for (auto& kv : objs) {
    if (!kv.second.usable) continue;
    std::string img;
    try { img = kv.second.o->image(); } catch (const std::exception&) { img = "<throw>"; }
    os << " " << kv.first << ":" << vh::hex_u64(digest(img));
  }
  L.muted = false;
  return os.str();
}

static void do_op(const std::vector<std::string>& w) {
  const std::string& op = w[0];
  if (op == "new") {
    int id = id_of(w[2]); fresh(id);
    std::unique_ptr<AnyObj> o(make_object(w[1], id, w));
    objs[id] = Slot{std::move(o), true};
  } else if (op == "upd") {
    Slot& s = usable(id_of(w[1]));
    s.o->update(w);
  } else if (op == "copy") {
    Slot& s = usable(id_of(w[1])); int d = id_of(w[2]); fresh(d);
    std::unique_ptr<AnyObj> o(s.o->copy());
    objs[d] = Slot{std::move(o), true};
  } else if (op == "move") {
    Slot& s = usable(id_of(w[1])); int d = id_of(w[2]); fresh(d);
    std::unique_ptr<AnyObj> o(s.o->move_new());
    s.usable = false;
    objs[d] = Slot{std::move(o), true};
  } else if (op == "cassign") {
    Slot& d = any(id_of(w[1])); Slot& s = usable(id_of(w[2]));
    d.o->copy_assign(*s.o);
    d.usable = true;
  } else if (op == "massign") {
    Slot& d = any(id_of(w[1])); Slot& s = usable(id_of(w[2]));
    d.o->move_assign(*s.o);
    if (&d != &s) { s.usable = false; d.usable = true; }
  } else if (op == "merge" || op == "mergemv") {
    Slot& d = usable(id_of(w[1])); Slot& s = usable(id_of(w[2]));
    if (&d == &s) throw BadOp("self merge");
    bool mv = op == "mergemv";
    CoinSource coins(w.size() > 3 ? w[3] : "");
    if (mv) s.usable = false;
    d.o->merge(*s.o, mv);
  } else if (op == "query") {
    usable(id_of(w[1])).o->query(w);
  } else if (op == "ser") {
    usable(id_of(w[1])).o->serialize_op();
  } else if (op == "serde") {
    Slot& s = usable(id_of(w[1])); int d = id_of(w[2]); fresh(d);
    std::unique_ptr<AnyObj> o(s.o->roundtrip(w));
    objs[d] = Slot{std::move(o), true};
  } else if (op == "trim") {
    usable(id_of(w[1])).o->trim();
  } else if (op == "reset") {
    usable(id_of(w[1])).o->reset();
  } else if (op == "destroy") {
    int id = id_of(w[1]); any(id);
    objs.erase(id);
  } else throw BadOp("unknown op");
}

int main(int, char**) {
  std::string line;
  while (std::getline(std::cin, line)) {
    auto w = vh::split(line);
    if (w.empty() || w[0][0] == '#') continue;
    Ledger& L = ledger();
    if (w[0] == "end") {
      // end of history: every object must have been destroyed by the history itself
      std::cout << "end blocks=" << L.live.size() << " objs=" << objs.size() << " items=" << items().st.size()
                << " allocs=" << L.total_allocs << " frees=" << L.total_frees
                << " ctors=" << L.total_ctor << " dtors=" << L.total_dtor << "\n";
      continue;
    }
    if (w[0] == "alloc") { L.shared_inst = w.size() > 1 && w[1] == "shared"; std::cout << "cfg\n"; continue; }
    L.begin_op();
    std::string status = "ok";
    try { do_op(w); }
    catch (const BadOp& e) { std::cout << "bad " << e.what() << "\n"; continue; }
    catch (const std::exception& e) { status = "throw"; if (getenv("VH_VERBOSE")) std::cerr << "exception: " << e.what() << "\n"; }
    std::string obs = ledger_observation();
    std::cout << status << " " << obs << " | " << images() << "\n";
  }
  // objects the history left alive are destroyed here; LeakSanitizer then checks what is still allocated
  objs.clear();
  if (!ledger().live.empty() || !items().st.empty()) {
    std::cout << "FATAL leak-at-exit blocks=" << ledger().live.size() << " items=" << items().st.size() << "\n";
  }
  std::cout.flush();
  return 0;
}

// Correspondence harness: cpc family (C05). Public API only.
//   cpc_h          : sketch / union / serialization histories
//   cpc_h hash     : the code's hashing of each input type observed through a sketch (row_col of one coupon via serialization-free API: n/a) -> see hash_step
//   cpc_h dump     : values of the numeric tables as compiled (translator cross-check)
#include "common.hpp"
#include "cpc_sketch.hpp"
#include "cpc_union.hpp"
#include "MurmurHash3.h"

using namespace datasketches;
using vh::split;

struct Obj {
  std::unique_ptr<cpc_sketch> sk;
  std::unique_ptr<cpc_union> un;
  uint64_t seed = DEFAULT_SEED;
};

static std::map<int, Obj> objs;

// a reference to an object that does not exist (e.g. in a shrunk replay) is a protocol error, not an implementation outcome
struct missing_object {};
static Obj& obj_at(const std::string& id) {
  auto it = objs.find(atoi(id.c_str()));
  if (it == objs.end()) throw missing_object();
  return it->second;
}

static std::string observe(const cpc_sketch& s) {
  std::ostringstream os;
  os << "S " << (int)s.get_lg_k() << " " << s.get_num_coupons() << " " << (s.validate() ? 1 : 0) << " " << (s.is_empty() ? 1 : 0)
     << " " << vh::hex_f64(s.get_estimate());
  for (unsigned kappa = 1; kappa <= 3; ++kappa)
    os << " " << vh::hex_f64(s.get_lower_bound(kappa)) << " " << vh::hex_f64(s.get_upper_bound(kappa));
  return os.str();
}

template<typename S>
static void do_update(S& s, const std::string& ty, const std::string& lit) {
  if (ty == "u64") s.update((uint64_t)strtoull(lit.c_str(), nullptr, 10));
  else if (ty == "i64") s.update((int64_t)strtoll(lit.c_str(), nullptr, 10));
  else if (ty == "u32") s.update((uint32_t)strtoull(lit.c_str(), nullptr, 10));
  else if (ty == "i32") s.update((int32_t)strtoll(lit.c_str(), nullptr, 10));
  else if (ty == "u16") s.update((uint16_t)strtoull(lit.c_str(), nullptr, 10));
  else if (ty == "i16") s.update((int16_t)strtoll(lit.c_str(), nullptr, 10));
  else if (ty == "u8") s.update((uint8_t)strtoull(lit.c_str(), nullptr, 10));
  else if (ty == "i8") s.update((int8_t)strtoll(lit.c_str(), nullptr, 10));
  else if (ty == "f64") s.update(vh::f64_of_hex(lit));
  else if (ty == "f32") s.update(vh::f32_of_hex(lit));
  else if (ty == "str") { auto b = vh::bytes_of_hex(lit); s.update(std::string(b.begin(), b.end())); }
  else if (ty == "raw") { auto b = vh::bytes_of_hex(lit); s.update((const void*)b.data(), b.size()); }
  else throw std::runtime_error("bad type");
}

static cpc_sketch& sk_at(const std::string& id) {
  Obj& o = obj_at(id);
  if (!o.sk) throw missing_object();
  return *o.sk;
}

static std::string step_inner(const std::vector<std::string>& w);
static std::string step(const std::vector<std::string>& w) {
  try { return step_inner(w); } catch (const missing_object&) { return "bad-op"; }
}
static std::string step_inner(const std::vector<std::string>& w) {
  const std::string& op = w[0];
  if (op == "new") {
    int id = atoi(w[1].c_str());
    uint64_t seed = strtoull(w[3].c_str(), nullptr, 10);
    Obj o; o.seed = seed;
    o.sk.reset(new cpc_sketch((uint8_t)atoi(w[2].c_str()), seed));
    objs[id] = std::move(o);
    return observe(*objs[id].sk);
  }
  if (op == "upd") {
    cpc_sketch& s = sk_at(w[1]);
    do_update(s, w[2], w[3]);
    return observe(s);
  }
  if (op == "updr") {
    cpc_sketch& s = sk_at(w[1]);
    uint64_t start = strtoull(w[2].c_str(), nullptr, 10), n = strtoull(w[3].c_str(), nullptr, 10);
    for (uint64_t i = 0; i < n; ++i) s.update((uint64_t)(start + i));
    return observe(s);
  }
  if (op == "copy") {
    Obj& o = obj_at(w[1]);
    Obj n; n.seed = o.seed;
    if (o.sk) n.sk.reset(new cpc_sketch(*o.sk)); else n.un.reset(new cpc_union(*o.un));
    int nid = atoi(w[2].c_str());
    objs[nid] = std::move(n);
    if (objs[nid].sk) return observe(*objs[nid].sk);
    return observe(objs[nid].un->get_result());
  }
  if (op == "ser") {
    cpc_sketch& s = sk_at(w[1]);
    auto b = s.serialize();
    // the stream overload must produce the same bytes
    std::ostringstream os(std::ios::binary); s.serialize(os); std::string ss = os.str();
    if (ss.size() != b.size() || memcmp(ss.data(), b.data(), b.size()) != 0) return "B stream-and-bytes-differ";
    return "B " + vh::hex_of_bytes(b.data(), b.size());
  }
  if (op == "rt") {   // rt <sketch> <new id>: serialize, deserialize, serialize again
    Obj& o = obj_at(w[1]);
    if (!o.sk) throw missing_object();
    auto b = o.sk->serialize();
    Obj n; n.seed = o.seed;
    {
      // exact-size heap copy so that ASan sees any over-read
      std::unique_ptr<uint8_t[]> copy(new uint8_t[b.size()]); memcpy(copy.get(), b.data(), b.size());
      n.sk.reset(new cpc_sketch(cpc_sketch::deserialize(copy.get(), b.size(), o.seed)));
    }
    std::istringstream is(std::string((const char*)b.data(), b.size()), std::ios::binary);
    cpc_sketch viaStream = cpc_sketch::deserialize(is, o.seed);
    auto b2 = n.sk->serialize();
    auto b3 = viaStream.serialize();
    bool same = b2.size() == b.size() && memcmp(b2.data(), b.data(), b.size()) == 0
             && b3.size() == b.size() && memcmp(b3.data(), b.data(), b.size()) == 0;
    int nid = atoi(w[2].c_str());
    objs[nid] = std::move(n);
    return observe(*objs[nid].sk) + " " + (same ? "1" : "0") + " " + std::to_string(b.size());
  }
  if (op == "unew") {
    int id = atoi(w[1].c_str());
    uint64_t seed = strtoull(w[3].c_str(), nullptr, 10);
    Obj o; o.seed = seed;
    o.un.reset(new cpc_union((uint8_t)atoi(w[2].c_str()), seed));
    objs[id] = std::move(o);
    return observe(objs[id].un->get_result());
  }
  if (op == "uupd") {   // uupd <union> <sketch> [rvalue]
    Obj& u = obj_at(w[1]);
    if (!u.un) throw missing_object();
    cpc_sketch& s = sk_at(w[2]);
    if (w.size() > 3 && w[3] == "rvalue") { cpc_sketch tmp(s); u.un->update(std::move(tmp)); }
    else u.un->update(s);
    return observe(u.un->get_result());
  }
  if (op == "ures") {
    Obj& u = obj_at(w[1]);
    if (!u.un) throw missing_object();
    Obj n; n.seed = u.seed; n.sk.reset(new cpc_sketch(u.un->get_result()));
    int nid = atoi(w[2].c_str());
    objs[nid] = std::move(n);
    return observe(*objs[nid].sk);
  }
  return "bad-op";
}

// hash tie: the Murmur words of the canonical bytes as the code computes them.  The canonicalisation of the twelve
// overloads is exercised through the sketch histories (an `upd` with any type changes C exactly when the model says so);
// here the raw hash function is compared on byte strings.
static std::string hash_step(const std::vector<std::string>& w) {
  if (w[0] == "mm") {
    auto b = vh::bytes_of_hex(w[1]); HashState hs;
    MurmurHash3_x64_128(b.data(), b.size(), strtoull(w[2].c_str(), nullptr, 10), hs);
    return "M " + vh::hex_u64(hs.h1) + " " + vh::hex_u64(hs.h2);
  }
  return "bad-op";
}

#include "icon_estimator.hpp"
#include "cpc_confidence.hpp"
#include "kxp_byte_lookup.hpp"
#include "inv_pow2_table.hpp"
#include "compression_data.hpp"

template<typename T> static void dump_f64(const char* name, const T* p, size_t n) {
  std::cout << name; for (size_t i = 0; i < n; ++i) std::cout << " " << vh::hex_f64((double)p[i]); std::cout << "\n";
}
template<typename T> static void dump_int(const char* name, const T* p, size_t n) {
  std::cout << name; for (size_t i = 0; i < n; ++i) std::cout << " " << (long long)p[i]; std::cout << "\n";
}

static int dump() {
  dump_f64("cpc_ICON_COEFFS", ICON_POLYNOMIAL_COEFFICIENTS, ICON_TABLE_SIZE);
  dump_f64("cpc_KXP_BYTE", KXP_BYTE_TABLE, 256);
  dump_f64("cpc_INV_POW2", INVERSE_POWERS_OF_2, 256);
  dump_int("cpc_ICON_LOW_SIDE", ICON_LOW_SIDE_DATA, 33);
  dump_int("cpc_ICON_HIGH_SIDE", ICON_HIGH_SIDE_DATA, 33);
  dump_int("cpc_HIP_LOW_SIDE", HIP_LOW_SIDE_DATA, 33);
  dump_int("cpc_HIP_HIGH_SIDE", HIP_HIGH_SIDE_DATA, 33);
  dump_int("cpc_ENC_TABLES", &encoding_tables_for_high_entropy_byte[0][0], 22 * 256);
  dump_int("cpc_UNARY65", length_limited_unary_encoding_table65, 65);
  dump_int("cpc_COL_PERMS", &column_permutations_for_encoding[0][0], 16 * 56);
  { double v = ICON_ERROR_CONSTANT; dump_f64("cpc_ICON_ERROR_CONSTANT", &v, 1); }
  { double v = HIP_ERROR_CONSTANT; dump_f64("cpc_HIP_ERROR_CONSTANT", &v, 1); }
  { long long v = cpc_constants::MIN_LG_K; dump_int("cpc_MIN_LG_K", &v, 1); }
  { long long v = cpc_constants::MAX_LG_K; dump_int("cpc_MAX_LG_K", &v, 1); }
  { long long v = ICON_MIN_LOG_K; dump_int("cpc_ICON_MIN_LOG_K", &v, 1); }
  { long long v = ICON_MAX_LOG_K; dump_int("cpc_ICON_MAX_LOG_K", &v, 1); }
  { long long v = ICON_POLYNOMIAL_NUM_COEFFICIENTS; dump_int("cpc_ICON_POLYNOMIAL_NUM_COEFFICIENTS", &v, 1); }
  { long long v = U32_TABLE_UPSIZE_NUMER; dump_int("cpc_U32_TABLE_UPSIZE_NUMER", &v, 1); }
  { long long v = U32_TABLE_UPSIZE_DENOM; dump_int("cpc_U32_TABLE_UPSIZE_DENOM", &v, 1); }
  { long long v = U32_TABLE_DOWNSIZE_NUMER; dump_int("cpc_U32_TABLE_DOWNSIZE_NUMER", &v, 1); }
  { long long v = U32_TABLE_DOWNSIZE_DENOM; dump_int("cpc_U32_TABLE_DOWNSIZE_DENOM", &v, 1); }
  std::cout.flush();
  return 0;
}

int main(int argc, char** argv) {
  if (argc > 1 && std::string(argv[1]) == "hash") return vh::run_loop(hash_step);
  if (argc > 1 && std::string(argv[1]) == "dump") return dump();
  return vh::run_loop(step);
}

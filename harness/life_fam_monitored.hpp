// C19 harness: families that are monitored only (ledger, items, images, sanitizers), no Lean program model.
#pragma once
namespace life {
inline AnyObj* make_monitored(const std::string&, int, const W&) { return nullptr; }
} // namespace life

// C19 harness: families that are monitored only (ledger balance, size match, allocator instance match, item
// lifetimes, images of copies, sanitizers) — no Lean program model ("modelled-not-verified" in the evidence).
#pragma once
#include "theta_sketch.hpp"
#include "theta_union.hpp"
#include "theta_intersection.hpp"
#include "tuple_union.hpp"
#include "array_of_doubles_sketch.hpp"
#include "req_sketch.hpp"
#include "quantiles_sketch.hpp"
#include "var_opt_sketch.hpp"
#include "var_opt_union.hpp"
#include "ebpps_sketch.hpp"
#include "hll.hpp"
#include "cpc_sketch.hpp"
#include "cpc_union.hpp"
#include "bloom_filter.hpp"
#include "count_min.hpp"
#include "tdigest.hpp"
#include "density_sketch.hpp"

namespace life {

template<class A> struct kind_of<datasketches::cpc_sketch_alloc<A>> { static std::string name() { return "cpcsk"; } static long item_off() { return -1; } };

template<class V> static std::string str_of(const V& v) { return std::string(v.begin(), v.end()); }
static inline int64_t num(const W& w, size_t i, int64_t dflt = 0) { return i < w.size() ? atoll(w[i].c_str()) : dflt; }
// strings long enough to live on the heap (no small-string optimisation), so that ASan sees their lifetimes
static inline std::string long_str(int64_t v) { return "item-with-a-long-heap-allocated-representation-" + std::to_string(v); }

struct StrSerde {
  void serialize(std::ostream& os, const std::string* it, unsigned n) const { datasketches::serde<std::string>().serialize(os, it, n); }
  void deserialize(std::istream& is, std::string* it, unsigned n) const { datasketches::serde<std::string>().deserialize(is, it, n); }
  size_t size_of_item(const std::string& s) const { return datasketches::serde<std::string>().size_of_item(s); }
  size_t serialize(void* p, size_t c, const std::string* it, unsigned n) const { return datasketches::serde<std::string>().serialize(p, c, it, n); }
  size_t deserialize(const void* p, size_t c, std::string* it, unsigned n) const { return datasketches::serde<std::string>().deserialize(p, c, it, n); }
};

// ---- theta update sketch (trivial entries: uint64_t) and its compact form
struct FamTheta {
  template<class S_> static void cassign(S_& a, const S_& b) { a = b; }
  using A = TrackAlloc<uint64_t>;
  using S = datasketches::update_theta_sketch_alloc<A>;
  static S make(int inst, const W& w) {
    return typename S::builder(A(inst)).set_lg_k((uint8_t)num(w, 3, 5)).set_resize_factor((datasketches::resize_factor)num(w, 4, 0))
      .set_p(w.size() > 5 ? vh::f32_of_hex(w[5]) : 1.0f).build();
  }
  static void update(S& s, const W& w) { s.update((uint64_t)num(w, 2)); }
  static void merge(S&, S&, bool) { throw BadOp("unsupported"); }
  static void query(S& s, const W&) { volatile double e = s.get_estimate(); (void)e; uint64_t x = 0; for (auto h : s) x ^= h; (void)x; }
  static std::string image(const S& s) { return str_of(s.compact().serialize()); }
  static S deser(const std::string&, int) { throw BadOp("unsupported"); }
  static void trim(S& s) { s.trim(); }
  static void reset(S& s) { s.reset(); }
};

struct FamCompactTheta : NoTrimReset {
  using A = TrackAlloc<uint64_t>;
  using S = datasketches::compact_theta_sketch_alloc<A>;
  // new cth <id> <n items> <lgk> <ordered>
  static S make(int inst, const W& w) {
    auto u = typename datasketches::update_theta_sketch_alloc<A>::builder(A(inst)).set_lg_k((uint8_t)num(w, 4, 5)).build();
    for (int64_t i = 0; i < num(w, 3, 10); ++i) u.update((uint64_t)i * 7 + 1);
    return u.compact(num(w, 5, 1) != 0);
  }
  static void update(S&, const W&) { throw BadOp("unsupported"); }
  static void merge(S&, S&, bool) { throw BadOp("unsupported"); }
  static void query(S& s, const W&) { volatile double e = s.get_estimate(); (void)e; uint64_t x = 0; for (auto h : s) x ^= h; (void)x; }
  static std::string image(const S& s) { return str_of(s.serialize()); }
  static S deser(const std::string& img, int inst) { return S::deserialize(img.data(), img.size(), datasketches::DEFAULT_SEED, A(inst)); }
};

struct FamThetaUnion : NoTrimReset {
  using A = TrackAlloc<uint64_t>;
  using S = datasketches::theta_union_alloc<A>;
  static S make(int inst, const W& w) { return typename S::builder(A(inst)).set_lg_k((uint8_t)num(w, 3, 5)).build(); }
  // upd <id> <first> <count>: feed a temporary update sketch (by rvalue when count is odd)
  static void update(S& s, const W& w) {
    auto u = typename datasketches::update_theta_sketch_alloc<A>::builder(A(cur_inst())).set_lg_k(5).build();
    for (int64_t i = 0; i < num(w, 3, 5); ++i) u.update((uint64_t)(num(w, 2) + i));
    if (num(w, 3, 5) % 2) s.update(std::move(u)); else s.update(u);
  }
  static void merge(S&, S&, bool) { throw BadOp("unsupported"); }
  static void query(S& s, const W&) { auto r = s.get_result(); volatile double e = r.get_estimate(); (void)e; }
  static std::string image(const S& s) { return str_of(s.get_result().serialize()); }
  static S deser(const std::string&, int) { throw BadOp("unsupported"); }
  static void reset(S& s) { s.reset(); }
  static void trim(S&) { throw BadOp("unsupported"); }
};

// ---- compact tuple sketch + tuple union (instrumented summaries in std::vector storage)
struct FamCompactTuple : NoTrimReset {
  using A = TrackAlloc<Item>;
  using S = datasketches::compact_tuple_sketch<Item, A>;
  static S make(int inst, const W& w) {
    auto u = typename FamTuple::S::builder(ItemPolicy(), A(inst)).set_lg_k((uint8_t)num(w, 4, 5)).build();
    for (int64_t i = 0; i < num(w, 3, 10); ++i) u.update((uint64_t)i * 5 + 3, (int64_t)i);
    return u.compact(num(w, 5, 1) != 0);
  }
  static void update(S&, const W&) { throw BadOp("unsupported"); }
  static void merge(S&, S&, bool) { throw BadOp("unsupported"); }
  static void query(S& s, const W&) { int64_t x = 0; for (const auto& e : s) x += e.second.value("iterate"); (void)x; }
  static std::string image(const S& s) { return str_of(s.serialize(0, ItemSerde())); }
  static S deser(const std::string& img, int inst) { return S::deserialize(img.data(), img.size(), datasketches::DEFAULT_SEED, ItemSerde(), A(inst)); }
};

// ---- compact array-of-doubles sketch (summaries are datasketches::array<double>: a hand-written value type with its own special members)
// merge = through an array_of_doubles union, by reference or BY MOVE (the union moves the entries' summaries out and leaves the
// source holding moved-from arrays: it must still be assignable and destructible)
struct FamCompactAod : NoTrimReset {
  using A = TrackAlloc<double>;
  using Arr = datasketches::array<double, A>;
  using AS = A;    // (the library's union builder requires the sketch allocator to be Array::allocator_type; it is rebound inside)
  using Upd = datasketches::update_array_tuple_sketch<Arr, datasketches::default_array_tuple_update_policy<Arr>, AS>;
  using S = datasketches::compact_array_tuple_sketch<Arr, AS>;
  using Uni = datasketches::array_tuple_union<Arr, datasketches::default_array_tuple_union_policy<Arr>, AS>;
  static S make(int inst, const W& w) {
    auto u = typename Upd::builder(datasketches::default_array_tuple_update_policy<Arr>(2, A(inst)), AS(inst)).set_lg_k((uint8_t)num(w, 4, 5)).build();
    for (int64_t i = 0; i < num(w, 3, 10); ++i) { std::vector<double> v{(double)i, 1.0}; u.update((uint64_t)i * 7 + 1, v); }
    return u.compact(num(w, 5, 1) != 0);
  }
  static void update(S&, const W&) { throw BadOp("unsupported"); }
  static void merge(S& s, S& o, bool mv) {
    auto u = typename Uni::builder(datasketches::default_array_tuple_union_policy<Arr>(2), AS(cur_inst())).set_lg_k(6).build();
    u.update(s);
    if (mv) u.update(std::move(o)); else u.update(const_cast<const S&>(o));
    s = u.get_result();
  }
  static void query(S& s, const W&) { double x = 0; for (const auto& e : s) x += e.second[0] + e.second[1]; volatile double y = x; (void)y; }
  static std::string image(const S& s) { return str_of(s.serialize()); }
  static S deser(const std::string& img, int inst) { return S::deserialize(img.data(), img.size(), datasketches::DEFAULT_SEED, AS(inst)); }
};

struct ItemUnionPolicy { void operator()(Item& a, const Item& b) const { a.add(b.value("union")); } };

struct FamTupleUnion : NoTrimReset {
  using A = TrackAlloc<Item>;
  using S = datasketches::tuple_union<Item, ItemUnionPolicy, A>;
  static S make(int inst, const W& w) { return typename S::builder(ItemUnionPolicy(), A(inst)).set_lg_k((uint8_t)num(w, 3, 5)).build(); }
  static void update(S& s, const W& w) {
    auto u = typename FamTuple::S::builder(ItemPolicy(), A(cur_inst())).set_lg_k(5).build();
    for (int64_t i = 0; i < num(w, 3, 5); ++i) u.update((uint64_t)(num(w, 2) + i), (int64_t)1);
    if (num(w, 3, 5) % 2) s.update(std::move(u)); else s.update(u);
  }
  static void merge(S&, S&, bool) { throw BadOp("unsupported"); }
  static void query(S& s, const W&) { auto r = s.get_result(); volatile double e = r.get_estimate(); (void)e; }
  static std::string image(const S& s) { return str_of(s.get_result().serialize(0, ItemSerde())); }
  static S deser(const std::string&, int) { throw BadOp("unsupported"); }
  static void reset(S& s) { s.reset(); }
  static void trim(S&) { throw BadOp("unsupported"); }
};

// ---- quantile sketches over items / strings
template<template<class, class, class> class SK, class T, class SD, class MK>
struct FamQuant : NoTrimReset {
  using A = TrackAlloc<T>;
  using S = SK<T, std::less<T>, A>;
  static S make(int inst, const W& w) { return MK::template make<S, A>(inst, w); }
  static T item(int64_t v);
  static void update(S& s, const W& w) { s.update(MK::template item<T>(num(w, 2))); }
  static void merge(S& s, S& o, bool mv) { if (mv) s.merge(std::move(o)); else merge_lvalue(s, o); }
  static void query(S& s, const W& w) {
    if (s.is_empty()) return;
    volatile double r = s.get_rank(MK::template item<T>(num(w, 2))); (void)r;
    auto q = s.get_quantile(0.5); (void)q;
    T mn = s.get_min_item(); (void)mn;
  }
  static std::string image(const S& s) { return str_of(s.serialize(0, SD())); }
  static S deser(const std::string& img, int inst) { return S::deserialize(img.data(), img.size(), SD(), std::less<T>(), A(inst)); }
  // every second copy goes through the type-converting constructors (to a sketch with another comparator type of the same order, and back)
  struct Less2 { bool operator()(const T& a, const T& b) const { return a < b; } };
  static S ccopy(const S& s) {
    static unsigned turn = 0;
    if ((turn++ & 1) == 0) return S(s);
    SK<T, Less2, A> mid(s, Less2(), s.get_allocator());
    return S(mid, std::less<T>(), s.get_allocator());
  }
};
struct MkK { // (k, comparator, allocator)
  template<class S, class A> static S make(int inst, const W& w) { return S((uint16_t)num(w, 3, 8), std::less<typename S::value_type>(), A(inst)); }
  template<class T> static T item(int64_t v);
};
template<> inline Item MkK::item<Item>(int64_t v) { return Item(v); }
template<> inline std::string MkK::item<std::string>(int64_t v) { return long_str(v); }
struct MkReq { // (k, hra, comparator, allocator)
  template<class S, class A> static S make(int inst, const W& w) { return S((uint16_t)num(w, 3, 4), num(w, 4, 1) != 0, std::less<typename S::value_type>(), A(inst)); }
  template<class T> static T item(int64_t v) { return MkK::item<T>(v); }
};
using FamKllStr = FamQuant<datasketches::kll_sketch, std::string, StrSerde, MkK>;
using FamReq = FamQuant<datasketches::req_sketch, Item, ItemSerde, MkReq>;
using FamReqStr = FamQuant<datasketches::req_sketch, std::string, StrSerde, MkReq>;
using FamQuantiles = FamQuant<datasketches::quantiles_sketch, Item, ItemSerde, MkK>;
using FamQuantilesStr = FamQuant<datasketches::quantiles_sketch, std::string, StrSerde, MkK>;

// ---- frequent items over strings
struct FamFiStr : NoTrimReset {
  using A = TrackAlloc<std::string>;
  using S = datasketches::frequent_items_sketch<std::string, uint64_t, std::hash<std::string>, std::equal_to<std::string>, A>;
  static S make(int inst, const W& w) { return S((uint8_t)num(w, 3, 3), (uint8_t)num(w, 4, 3), std::equal_to<std::string>(), A(inst)); }
  static void update(S& s, const W& w) { s.update(long_str(num(w, 2)), (uint64_t)num(w, 3, 1)); }
  static void merge(S& s, S& o, bool mv) { if (mv) s.merge(std::move(o)); else merge_lvalue(s, o); }
  static void query(S& s, const W& w) {
    volatile uint64_t e = s.get_estimate(long_str(num(w, 2))); (void)e;
    auto rows = s.get_frequent_items(datasketches::NO_FALSE_NEGATIVES); size_t n = 0; for (auto& r : rows) n += r.get_item().size(); (void)n;
  }
  static std::string image(const S& s) { return str_of(s.serialize(0, StrSerde())); }
  static S deser(const std::string& img, int inst) { return S::deserialize(img.data(), img.size(), StrSerde(), std::equal_to<std::string>(), A(inst)); }
};

// ---- sampling
struct FamVarOpt : NoTrimReset {
  using A = TrackAlloc<Item>;
  using S = datasketches::var_opt_sketch<Item, A>;
  static S make(int inst, const W& w) { return S((uint32_t)num(w, 3, 8), datasketches::resize_factor::X8, A(inst)); }
  static void update(S& s, const W& w) { s.update(Item(num(w, 2)), 1.0 + (double)(num(w, 3, 1) % 17)); }
  static void merge(S&, S&, bool) { throw BadOp("unsupported"); }
  static void query(S& s, const W&) { int64_t x = 0; for (auto p : s) x += p.first.value("iterate"); (void)x; }
  static std::string image(const S& s) { return str_of(s.serialize(0, ItemSerde())); }
  static S deser(const std::string& img, int inst) { return S::deserialize(img.data(), img.size(), ItemSerde(), A(inst)); }
  static void reset(S& s) { s.reset(); }
  static void trim(S&) { throw BadOp("unsupported"); }
};

struct FamVarOptUnion : NoTrimReset {
  using A = TrackAlloc<Item>;
  using S = datasketches::var_opt_union<Item, A>;
  static S make(int inst, const W& w) { return S((uint32_t)num(w, 3, 8), A(inst)); }
  static void update(S& s, const W& w) {
    datasketches::var_opt_sketch<Item, A> u((uint32_t)(4 + num(w, 3, 5) % 9), datasketches::resize_factor::X8, A(cur_inst()));
    for (int64_t i = 0; i < num(w, 3, 5); ++i) u.update(Item(num(w, 2) + i), 1.0 + (double)(i % 5));
    if (num(w, 3, 5) % 2) s.update(std::move(u)); else s.update(u);
  }
  static void merge(S&, S&, bool) { throw BadOp("unsupported"); }
  static void query(S& s, const W&) { auto r = s.get_result(); int64_t x = 0; for (auto p : r) x += p.first.value("iterate"); (void)x; }
  static std::string image(const S& s) { return str_of(s.serialize(0, ItemSerde())); }
  static S deser(const std::string& img, int inst) { return S::deserialize(img.data(), img.size(), ItemSerde(), A(inst)); }
  static void reset(S& s) { s.reset(); }
  static void trim(S&) { throw BadOp("unsupported"); }
};

struct FamEbpps : NoTrimReset {
  using A = TrackAlloc<Item>;
  using S = datasketches::ebpps_sketch<Item, A>;
  static S make(int inst, const W& w) { return S((uint32_t)num(w, 3, 6), A(inst)); }
  static void update(S& s, const W& w) { s.update(Item(num(w, 2)), 1.0 + (double)(num(w, 3, 1) % 13)); }
  static void merge(S& s, S& o, bool mv) { if (mv) s.merge(std::move(o)); else merge_lvalue(s, o); }
  static void query(S& s, const W&) { int64_t x = 0; for (const auto& it : s.get_result()) x += it.value("iterate"); (void)x; }
  static std::string image(const S& s) { return str_of(s.serialize(0, ItemSerde())); }
  static S deser(const std::string& img, int inst) { return S::deserialize(img.data(), img.size(), ItemSerde(), A(inst)); }
  static void reset(S& s) { s.reset(); }
  static void trim(S&) { throw BadOp("unsupported"); }
};

// ---- distinct counting / filters / frequency / distribution sketches over trivial storage
struct FamHll : NoTrimReset {
  using A = TrackAlloc<uint8_t>;
  using S = datasketches::hll_sketch_alloc<A>;
  static S make(int inst, const W& w) { return S((uint8_t)num(w, 3, 5), (datasketches::target_hll_type)num(w, 4, 0), num(w, 5, 0) != 0, A(inst)); }
  static void update(S& s, const W& w) { for (int64_t i = 0; i < num(w, 3, 1); ++i) s.update((uint64_t)(num(w, 2) * 1000 + i)); }
  static void merge(S&, S&, bool) { throw BadOp("unsupported"); }
  static void query(S& s, const W&) { volatile double e = s.get_estimate() + s.get_upper_bound(2); (void)e; }
  static std::string image(const S& s) { return str_of(s.serialize_updatable()); }
  static S deser(const std::string& img, int inst) { return S::deserialize(img.data(), img.size(), A(inst)); }
  static void reset(S& s) { s.reset(); }
  static void trim(S&) { throw BadOp("unsupported"); }
};

struct FamHllUnion : NoTrimReset {
  using A = TrackAlloc<uint8_t>;
  using S = datasketches::hll_union_alloc<A>;
  static S make(int inst, const W& w) { return S((uint8_t)num(w, 3, 6), A(inst)); }
  static void update(S& s, const W& w) {
    datasketches::hll_sketch_alloc<A> u((uint8_t)(4 + num(w, 2) % 4), (datasketches::target_hll_type)(num(w, 2) % 3), false, A(cur_inst()));
    for (int64_t i = 0; i < num(w, 3, 5); ++i) u.update((uint64_t)(num(w, 2) * 100 + i));
    if (num(w, 3, 5) % 2) s.update(std::move(u)); else s.update(u);
  }
  static void merge(S&, S&, bool) { throw BadOp("unsupported"); }
  static void query(S& s, const W&) { volatile double e = s.get_estimate(); (void)e; auto r = s.get_result(datasketches::HLL_8); (void)r; }
  static std::string image(const S& s) { return str_of(s.get_result(datasketches::HLL_8).serialize_compact()); }
  static S deser(const std::string&, int) { throw BadOp("unsupported"); }
  static void reset(S& s) { s.reset(); }
  static void trim(S&) { throw BadOp("unsupported"); }
};

struct FamCpc : NoTrimReset {
  using A = TrackAlloc<uint8_t>;
  using S = datasketches::cpc_sketch_alloc<A>;
  static S make(int inst, const W& w) { return S((uint8_t)num(w, 3, 5), datasketches::DEFAULT_SEED, A(inst)); }
  static void update(S& s, const W& w) { for (int64_t i = 0; i < num(w, 3, 1); ++i) s.update((uint64_t)(num(w, 2) * 1000 + i)); }
  static void merge(S&, S&, bool) { throw BadOp("unsupported"); }
  static void query(S& s, const W&) { volatile double e = s.get_estimate() + s.get_lower_bound(2); (void)e; }
  static std::string image(const S& s) { return str_of(s.serialize()); }
  static S deser(const std::string& img, int inst) { return S::deserialize(img.data(), img.size(), datasketches::DEFAULT_SEED, A(inst)); }
};

struct FamCpcUnion : NoTrimReset {
  using A = TrackAlloc<uint8_t>;
  using S = datasketches::cpc_union_alloc<A>;
  static S make(int inst, const W& w) { return S((uint8_t)num(w, 3, 6), datasketches::DEFAULT_SEED, A(inst)); }
  static void update(S& s, const W& w) {
    datasketches::cpc_sketch_alloc<A> u((uint8_t)(4 + num(w, 2) % 4), datasketches::DEFAULT_SEED, A(cur_inst()));
    for (int64_t i = 0; i < num(w, 3, 5); ++i) u.update((uint64_t)(num(w, 2) * 100 + i));
    if (num(w, 3, 5) % 2) s.update(std::move(u)); else s.update(u);
  }
  static void merge(S&, S&, bool) { throw BadOp("unsupported"); }
  static void query(S& s, const W&) { auto r = s.get_result(); volatile double e = r.get_estimate(); (void)e; }
  static std::string image(const S& s) { return str_of(s.get_result().serialize()); }
  static S deser(const std::string&, int) { throw BadOp("unsupported"); }
};

struct FamBloom : NoTrimReset {
  using A = TrackAlloc<uint8_t>;
  using S = datasketches::bloom_filter_alloc<A>;
  static S make(int inst, const W& w) { return S::builder::create_by_size((uint64_t)num(w, 3, 256), (uint16_t)num(w, 4, 3), 123, A(inst)); }
  static void update(S& s, const W& w) { s.update((uint64_t)num(w, 2)); }
  static void merge(S& s, S& o, bool) { if (s.is_compatible(o)) s.union_with(o); }
  static void query(S& s, const W& w) { volatile bool b = s.query((uint64_t)num(w, 2)); (void)b; }
  static std::string image(const S& s) { return str_of(s.serialize()); }
  static S deser(const std::string& img, int inst) { return S::deserialize(img.data(), img.size(), A(inst)); }
  static void reset(S& s) { s.reset(); }
  static void trim(S& s) { s.invert(); }
};

struct FamCountMin : NoTrimReset {
  using A = TrackAlloc<uint64_t>;
  using S = datasketches::count_min_sketch<uint64_t, A>;
  static S make(int inst, const W& w) { return S((uint8_t)num(w, 3, 3), (uint32_t)num(w, 4, 16), datasketches::DEFAULT_SEED, A(inst)); }
  static void update(S& s, const W& w) { s.update((uint64_t)num(w, 2), (uint64_t)num(w, 3, 1)); }
  static void merge(S& s, S& o, bool) { s.merge(o); }
  static void query(S& s, const W& w) { volatile uint64_t e = s.get_estimate((uint64_t)num(w, 2)); (void)e; }
  static std::string image(const S& s) { return str_of(s.serialize()); }
  static S deser(const std::string& img, int inst) { return S::deserialize(img.data(), img.size(), datasketches::DEFAULT_SEED, A(inst)); }
};

struct FamTDigest : NoTrimReset {
  using A = TrackAlloc<double>;
  using S = datasketches::tdigest<double, A>;
  static S make(int inst, const W& w) { return S((uint16_t)num(w, 3, 10), A(inst)); }
  static void update(S& s, const W& w) { s.update((double)num(w, 2)); }
  static void merge(S& s, S& o, bool) { s.merge(o); }
  static void query(S& s, const W& w) { if (s.is_empty()) return; volatile double r = s.get_rank((double)num(w, 2)) + s.get_quantile(0.5); (void)r; }
  static std::string image(const S& s) { return str_of(s.serialize(0, true)); }
  static S deser(const std::string& img, int inst) { return S::deserialize(img.data(), img.size(), A(inst)); }
};

// gaussian_kernel<T> only accepts std::vector<T, std::allocator<T>>: with a user allocator a kernel generic in the vector
// type is needed
struct AnyVecKernel {
  template<class V1, class V2> double operator()(const V1& a, const V2& b) const {
    double d = 0; for (size_t i = 0; i < a.size(); ++i) d += (a[i] - b[i]) * (a[i] - b[i]); return exp(-d);
  }
};
struct FamDensity : NoTrimReset {
  using A = TrackAlloc<double>;
  using S = datasketches::density_sketch<double, AnyVecKernel, A>;
  static S make(int inst, const W& w) { return S((uint16_t)num(w, 3, 4), (uint32_t)num(w, 4, 2), AnyVecKernel(), A(inst)); }
  static void update(S& s, const W& w) {
    typename S::Vector p(s.get_dim(), 0.0, s.get_allocator());
    for (size_t i = 0; i < p.size(); ++i) p[i] = (double)((num(w, 2) * (int64_t)(i + 3)) % 11);
    s.update(std::move(p));
  }
  static void merge(S& s, S& o, bool mv) { if (s.get_dim() != o.get_dim()) return; if (mv) s.merge(std::move(o)); else merge_lvalue(s, o); }
  static void query(S& s, const W& w) {
    if (s.is_empty()) return;
    std::vector<double> p(s.get_dim(), (double)num(w, 2)); volatile double e = s.get_estimate(p); (void)e;
  }
  static std::string image(const S& s) { return str_of(s.serialize()); }
  static S deser(const std::string& img, int inst) { return S::deserialize(img.data(), img.size(), AnyVecKernel(), A(inst)); }
};

inline AnyObj* make_monitored(const std::string& fam, int inst, const W& w) {
  if (fam == "theta") return new ObjT<FamTheta>(inst, w);
  if (fam == "cth") return new ObjT<FamCompactTheta>(inst, w);
  if (fam == "thu") return new ObjT<FamThetaUnion>(inst, w);
  if (fam == "ctup") return new ObjT<FamCompactTuple>(inst, w);
  if (fam == "caod") return new ObjT<FamCompactAod>(inst, w);
  if (fam == "tupu") return new ObjT<FamTupleUnion>(inst, w);
  if (fam == "kllstr") return new ObjT<FamKllStr>(inst, w);
  if (fam == "req") return new ObjT<FamReq>(inst, w);
  if (fam == "reqstr") return new ObjT<FamReqStr>(inst, w);
  if (fam == "quant") return new ObjT<FamQuantiles>(inst, w);
  if (fam == "quantstr") return new ObjT<FamQuantilesStr>(inst, w);
  if (fam == "fistr") return new ObjT<FamFiStr>(inst, w);
  if (fam == "varopt") return new ObjT<FamVarOpt>(inst, w);
  if (fam == "vou") return new ObjT<FamVarOptUnion>(inst, w);
  if (fam == "ebpps") return new ObjT<FamEbpps>(inst, w);
  if (fam == "hll") return new ObjT<FamHll>(inst, w);
  if (fam == "hllu") return new ObjT<FamHllUnion>(inst, w);
  if (fam == "cpc") return new ObjT<FamCpc>(inst, w);
  if (fam == "cpcu") return new ObjT<FamCpcUnion>(inst, w);
  if (fam == "bloom") return new ObjT<FamBloom>(inst, w);
  if (fam == "cm") return new ObjT<FamCountMin>(inst, w);
  if (fam == "td") return new ObjT<FamTDigest>(inst, w);
  if (fam == "dens") return new ObjT<FamDensity>(inst, w);
  return nullptr;
}

} // namespace life

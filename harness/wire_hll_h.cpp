// Wire-format harness for the HLL group (C09 round trip, C10 layout/baseline, C11 truncation/corruption).
// Drives REAL hll_sketch / hll_union objects; one observation line per op line (see vlib/props/hll_wire_common.py).
//
//   new <id> <lgk> <4|6|8> <full 0|1>            ok
//   upd <id> <u64>                               ok         update(uint64_t)
//   updr <id> <start> <count>                    ok         update(start..start+count-1)
//   union <dst> <lgmaxk> <4|6|8> <id>...         ok         dst = union(lgmaxk) of the ids, get_result(type)
//   reset <id>                                   ok
//   ser <id> <c|u>                               IMG <kind> <hex> | <content> | hdr= size= max= pos= deser= api= reser= resers=
//   load <c|u> <hex>                             IMG <kind> <hex> | <content> | pos= deser= reser= resers=   (stored image)
//   cont <id> <c|u> <b|s> <start> <count>        CONT eq | CONT diff ...   continue updates on original and restored
//   contu <id> <c|u> <b|s> <other> <lgmaxk> <ty> CONT eq | CONT diff ...   union(original, other) vs union(restored, other)
//   pfx <id> <c|u>                               PFX <kind> <hex> | bytes=<rle> stream=<rle>      every prefix 0..size-1
//   cor <id> <c|u>                               COR <kind> <hex> | bytes=<letters> stream=<letters> bad=<pos:val:path:outcome,...>
//   find <minvalue> <count> <start>              F <n>:<addr26>:<value> ...   inputs whose coupon value >= minvalue
//   consts                                       CONSTS name=value ...        constants as compiled
//
// Content (canonical, from the restored/original OBJECT): lg_k, target type, mode, is_empty, is_compact, out-of-order
// flag, start-full-size flag, then sorted coupons (LIST/SET) or cur_min, num_at_cur_min, hip (unless out of order),
// kxq0, kxq1 and all 2^lg_k register values (HLL; aux exceptions resolved).  Private state is read through
// `#define private public` (std headers are included first) — observation only.
#include <cstdint>
#include <cstring>
#include <cstdio>
#include <cstdlib>
#include <string>
#include <vector>
#include <map>
#include <set>
#include <memory>
#include <sstream>
#include <iostream>
#include <fstream>
#include <algorithm>
#include <stdexcept>
#include <cmath>
#include <functional>
#include <iterator>
#include <limits>
#include <new>
#include <type_traits>
#include <utility>
#include <unistd.h>
#include <signal.h>
#include <fcntl.h>
#include <sys/wait.h>
#include <sys/types.h>
#include "common.hpp"

#define private public
#define protected public
#include "hll.hpp"
#undef private
#undef protected

using namespace datasketches;
typedef hll_sketch_alloc<std::allocator<uint8_t>> sketch_t;
typedef hll_union_alloc<std::allocator<uint8_t>> union_t;

// ---------------------------------------------------------------- allocation accounting (balance + cap)
static long g_live = 0;
static bool g_cap_hit = false;
static const size_t ALLOC_CAP = 256u << 20;
static const unsigned CASE_TIMEOUT_S = 5;

static void* vh_alloc(size_t n) {
  if (n > ALLOC_CAP) { g_cap_hit = true; throw std::bad_alloc(); }
  void* p = malloc(n ? n : 1);
  if (!p) throw std::bad_alloc();
  ++g_live;
  return p;
}
void* operator new(size_t n) { return vh_alloc(n); }
void* operator new[](size_t n) { return vh_alloc(n); }
void operator delete(void* p) noexcept { if (p) { --g_live; free(p); } }
void operator delete[](void* p) noexcept { if (p) { --g_live; free(p); } }
void operator delete(void* p, size_t) noexcept { if (p) { --g_live; free(p); } }
void operator delete[](void* p, size_t) noexcept { if (p) { --g_live; free(p); } }

// ---------------------------------------------------------------- canonical content
static target_hll_type type_of(int t) { return t == 4 ? HLL_4 : t == 6 ? HLL_6 : HLL_8; }
static int type_num(target_hll_type t) { return t == HLL_4 ? 4 : t == HLL_6 ? 6 : 8; }

static std::string content(const sketch_t& sk) {
  const HllSketchImpl<std::allocator<uint8_t>>* impl = sk.sketch_impl;
  std::ostringstream o;
  const hll_mode mode = impl->getCurMode();
  o << "lgk=" << (int)sk.get_lg_config_k() << " type=" << type_num(sk.get_target_type())
    << " mode=" << (mode == LIST ? "LIST" : mode == SET ? "SET" : "HLL")
    << " empty=" << (sk.is_empty() ? 1 : 0) << " compact=" << (sk.is_compact() ? 1 : 0)
    << " ooo=" << (impl->isOutOfOrderFlag() ? 1 : 0) << " full=" << (impl->isStartFullSize() ? 1 : 0);
  if (mode == LIST || mode == SET) {
    const CouponList<std::allocator<uint8_t>>* cl = static_cast<const CouponList<std::allocator<uint8_t>>*>(impl);
    std::vector<uint32_t> cs;
    for (auto it = cl->begin(false); it != cl->end(); ++it) cs.push_back(*it);
    std::sort(cs.begin(), cs.end());
    o << " n=" << cl->getCouponCount() << " coupons=";
    if (cs.empty()) o << "-";
    for (size_t i = 0; i < cs.size(); ++i) { if (i) o << ","; o << vh::hex_u32(cs[i]); }
  } else {
    const HllArray<std::allocator<uint8_t>>* h = static_cast<const HllArray<std::allocator<uint8_t>>*>(impl);
    o << " curmin=" << (int)h->getCurMin() << " nacm=" << h->getNumAtCurMin()
      << " hip=" << (impl->isOutOfOrderFlag() ? std::string("-") : vh::hex_f64(h->getHipAccum()))
      << " kxq0=" << vh::hex_f64(h->getKxQ0()) << " kxq1=" << vh::hex_f64(h->getKxQ1()) << " regs=";
    static const char* d = "0123456789abcdef";
    std::string regs;
    for (auto it = h->begin(true); it != h->end(); ++it) {
      const uint32_t v = (*it) >> hll_constants::KEY_BITS_26;
      regs.push_back(d[(v >> 4) & 15]); regs.push_back(d[v & 15]);
    }
    o << regs;
  }
  return o.str();
}

static std::string safe_content(const sketch_t& sk) {
  try { return content(sk); } catch (const std::exception&) { return "throw"; }
}

// estimates and bounds as bit patterns (compared between original and restored in C++ only)
static std::string api_numbers(const sketch_t& sk) {
  std::ostringstream o;
  o << vh::hex_f64(sk.get_estimate()) << " " << vh::hex_f64(sk.get_composite_estimate());
  for (uint8_t k = 1; k <= 3; ++k) o << " " << vh::hex_f64(sk.get_lower_bound(k)) << " " << vh::hex_f64(sk.get_upper_bound(k));
  o << " " << sk.get_compact_serialization_bytes() << " " << sk.get_updatable_serialization_bytes();
  return o.str();
}

static std::vector<uint8_t> ser_bytes(const sketch_t& sk, bool compact, unsigned header = 0) {
  auto v = compact ? sk.serialize_compact(header) : sk.serialize_updatable();
  return std::vector<uint8_t>(v.begin(), v.end());
}
static std::vector<uint8_t> ser_stream(const sketch_t& sk, bool compact) {
  std::ostringstream os(std::ios::binary);
  if (compact) sk.serialize_compact(os); else sk.serialize_updatable(os);
  const std::string s = os.str();
  return std::vector<uint8_t>(s.begin(), s.end());
}
static sketch_t deser_bytes(const std::vector<uint8_t>& img) {
  // exact-size heap block: ASan red zones on both sides
  // (malloc(0) yields one addressable byte under ASan, so a zero-length input is placed at the END of a block)
  const size_t n = img.size();
  uint8_t* blk = static_cast<uint8_t*>(malloc(n ? n : 8));
  uint8_t* buf = n ? blk : blk + 8;
  if (n) memcpy(buf, img.data(), n);
  struct freer { uint8_t* p; ~freer() { free(p); } } f{blk};
  return sketch_t::deserialize(buf, n);
}
static sketch_t deser_stream(const std::vector<uint8_t>& img, size_t* consumed = nullptr, size_t sentinel = 0) {
  std::string s(reinterpret_cast<const char*>(img.data()), img.size());
  s.append(sentinel, static_cast<char>(0xA5));
  std::istringstream is(s, std::ios::binary);
  sketch_t sk = sketch_t::deserialize(is);
  if (consumed) { is.clear(); *consumed = static_cast<size_t>(is.tellg()); }
  return sk;
}

// offset of the unordered table inside an image (0 = none)
static size_t table_offset(const std::vector<uint8_t>& img) {
  if (img.size() < 8) return 0;
  if (img[0] == hll_constants::HASH_SET_PREINTS) return hll_constants::HASH_SET_INT_ARR_START;
  if (img[0] == hll_constants::HLL_PREINTS) {
    const int tgt = (img[hll_constants::MODE_BYTE] >> 2) & 3;
    if (tgt != 0) return 0;
    return hll_constants::HLL_BYTE_ARR_START + (1u << (img[hll_constants::LG_K_BYTE] - 1));
  }
  return 0;
}

// eq | perm@<off> (same bytes before <off>, same multiset of u32 entries from <off>) | diff
static std::string compare_images(const std::vector<uint8_t>& a, const std::vector<uint8_t>& b) {
  if (a == b) return "eq";
  if (a.size() != b.size()) return "diff:size" + std::to_string(b.size()) + "/" + std::to_string(a.size());
  const size_t off = table_offset(a);
  if (off == 0 || off > a.size() || (a.size() - off) % 4 != 0) {
    size_t i = 0; while (i < a.size() && a[i] == b[i]) ++i;
    return "diff:byte" + std::to_string(i);
  }
  for (size_t i = 0; i < off; ++i) if (a[i] != b[i]) return "diff:byte" + std::to_string(i);
  std::vector<uint32_t> x, y;
  for (size_t i = off; i < a.size(); i += 4) { uint32_t u, v; memcpy(&u, &a[i], 4); memcpy(&v, &b[i], 4); x.push_back(u); y.push_back(v); }
  std::sort(x.begin(), x.end()); std::sort(y.begin(), y.end());
  return x == y ? "perm@" + std::to_string(off) : "diff:table";
}

// ---------------------------------------------------------------- state
static std::map<int, std::unique_ptr<sketch_t>> g_sk;
static sketch_t& get(int id) {
  auto it = g_sk.find(id);
  if (it == g_sk.end()) throw std::invalid_argument("no such sketch");
  return *it->second;
}

struct Case { size_t n; int pos; int val; bool stream; std::vector<uint8_t> img; size_t shift = 0; };
static std::vector<std::string> run_cases_forked(const std::vector<Case>& cases, const std::string* full_content);

static std::string checks_for_image(const sketch_t& sk, const std::vector<uint8_t>& img, bool compact, bool live) {

  std::ostringstream o;
  const std::string c0 = safe_content(sk);
  if (live) {
    // bytes(header h) == h zero bytes ++ stream image
    std::string hdr = "ok";
    const std::vector<uint8_t> st = ser_stream(sk, compact);
    if (st != img) hdr = "bad:stream";
    if (compact) {
      const unsigned hs[] = {0, 1, 8, 13};
      for (unsigned h : hs) {
        std::vector<uint8_t> b = ser_bytes(sk, true, h);
        std::vector<uint8_t> want(h, 0); want.insert(want.end(), st.begin(), st.end());
        if (b != want && hdr == "ok") hdr = "bad:h" + std::to_string(h);
      }
    }
    o << "hdr=" << hdr;
    const uint32_t adv = compact ? sk.get_compact_serialization_bytes() : sk.get_updatable_serialization_bytes();
    o << " size=" << (adv == img.size() ? std::string("ok") : "bad:" + std::to_string(img.size()) + "/" + std::to_string(adv));
    const uint32_t mx = sketch_t::get_max_updatable_serialization_bytes(sk.get_lg_config_k(), sk.get_target_type());
    o << " max=" << (img.size() <= mx ? std::string("ok") : "exc:" + std::to_string(img.size()) + "/" + std::to_string(mx)) << " ";
  }
  // stream reader consumes exactly the image
  std::string pos = "ok", deser = "ok", api = "ok", reser = "-", resers = "-";
  const std::string a0 = live ? api_numbers(sk) : "";
  try {
    size_t consumed = 0;
    sketch_t rs = deser_stream(img, &consumed, 16);
    if (consumed != img.size()) pos = (consumed < img.size() ? "short:" : "long:") + std::to_string(consumed) + "/" + std::to_string(img.size());
    if (safe_content(rs) != c0) deser = "bad:s";
    if (live && api_numbers(rs) != a0) api = "bad:s";
    resers = compare_images(img, ser_bytes(rs, compact));
  } catch (const std::exception&) { deser = "throw:s"; }
  try {
    sketch_t rb = deser_bytes(img);
    if (safe_content(rb) != c0 && deser == "ok") deser = "bad:b";
    if (live && api_numbers(rb) != a0 && api == "ok") api = "bad:b";
    reser = compare_images(img, ser_bytes(rb, compact));
    // stream form of the restored sketch == bytes form
    if (ser_stream(rb, compact) != ser_bytes(rb, compact)) reser = "diff:stream-vs-bytes";
  } catch (const std::exception&) { if (deser == "ok") deser = "throw:b"; }
  o << "pos=" << pos << " deser=" << deser;
  if (live) {
    o << " api=" << api;
    // the image behind a header of 1 / 13 bytes in the caller's buffer (as produced by serialize_compact(h)): unaligned
    std::vector<Case> cs;
    const size_t shifts[] = {1, 13};
    for (size_t sh : shifts) { Case c; c.n = img.size(); c.pos = -1; c.val = 0; c.stream = false; c.img = img; c.shift = sh; cs.push_back(c); }
    std::vector<std::string> r = run_cases_forked(cs, &c0);
    o << " unal=" << (r[0] == "A=" && r[1] == "A=" ? std::string("ok") : (r[0] != "A=" ? r[0] : r[1]));
  }
  o << " reser=" << reser << " resers=" << resers;
  return o.str();
}

// ---------------------------------------------------------------- C11: one case in-process (called in a forked child)
static std::string probe_usable(sketch_t& sk) {
  // a sketch accepted from a corrupted image must be usable: getters, serializers, a few updates (exceptions are fine)
  try { (void)safe_content(sk); } catch (...) {}
  try { (void)api_numbers(sk); } catch (const std::exception&) {}
  try { (void)sk.to_string(); } catch (const std::exception&) {}
  try { (void)ser_bytes(sk, true); (void)ser_stream(sk, true); } catch (const std::exception&) {}
  try { (void)ser_bytes(sk, false); (void)ser_stream(sk, false); } catch (const std::exception&) {}
  try { for (uint64_t i = 0; i < 12; ++i) sk.update(i + 1000003); (void)sk.get_estimate(); } catch (const std::exception&) {}
  return "A";
}

// outcome of deserializing `n` bytes: T | A= | A! | A (corruption mode) | alloc_cap ; "+leak" appended on imbalance
static std::string run_case(const uint8_t* data, size_t n, bool stream, const std::string* full_content, size_t shift = 0) {
  std::string out;
  const long live0 = g_live;
  g_cap_hit = false;
  {
    uint8_t* blk = nullptr; uint8_t* buf = nullptr;
    if (!stream) { blk = static_cast<uint8_t*>(malloc(n ? n + shift : 8)); buf = n ? blk + shift : blk + 8; if (n) memcpy(buf, data, n); }
    try {
      if (stream) {
        std::string s(reinterpret_cast<const char*>(data), n);
        std::istringstream is(s, std::ios::binary);
        sketch_t sk = sketch_t::deserialize(is);
        out = full_content ? (safe_content(sk) == *full_content ? "A=" : "A!") : probe_usable(sk);
      } else {
        sketch_t sk = sketch_t::deserialize(buf, n);
        out = full_content ? (safe_content(sk) == *full_content ? "A=" : "A!") : probe_usable(sk);
      }
    } catch (const std::exception&) {
      out = g_cap_hit ? "alloc_cap" : "T";
    }
    if (blk) free(blk);
  }
  if (g_cap_hit && out != "alloc_cap") out += "+alloc_cap";
  if (g_live != live0) out += "+leak";
  return out;
}

static std::string classify_death(int status, const std::string& errfile) {
  std::string err;
  { std::ifstream f(errfile); std::stringstream ss; ss << f.rdbuf(); err = ss.str(); }
  auto grab = [&](const std::string& key) -> std::string {
    size_t p = err.find(key);
    if (p == std::string::npos) return "";
    size_t e = err.find_first_of(" \n", p + key.size());
    return err.substr(p + key.size(), e - (p + key.size()));
  };
  if (getenv("VH_KEEP_ERR")) std::cerr << err << std::endl;
  // first frame inside the library: "in datasketches::Class<...>::method(" -> Class::method
  std::string site;
  {
    size_t p = err.find(" in datasketches::");
    if (p != std::string::npos) {
      p += 18;
      std::string sym; int depth = 0;
      for (size_t i = p; i < err.size(); ++i) {
        const char ch = err[i];
        if (ch == '<') { ++depth; continue; }
        if (ch == '>') { --depth; continue; }
        if (depth > 0) continue;
        if (ch == '(' || ch == ' ' || ch == '\n') break;
        sym.push_back(ch);
      }
      site = "@" + sym;
    }
  }
  if (site.empty() && getenv("VH_DEBUG_DIR")) {
    static int cnt = 0;
    std::ofstream f(std::string(getenv("VH_DEBUG_DIR")) + "/nosite_" + std::to_string(getpid()) + "_" + std::to_string(cnt++) + ".txt");
    f << "status=" << status << "\n" << err;
  }
  if (err.find("AddressSanitizer") != std::string::npos) {
    std::string kind = grab("ERROR: AddressSanitizer: ");
    std::string rw = err.find("WRITE of size") != std::string::npos ? "-WRITE" : err.find("READ of size") != std::string::npos ? "-READ" : "";
    return "asan:" + kind + rw + site;
  }
  if (err.find("runtime error:") != std::string::npos) {
    size_t p = err.find("runtime error:");
    std::string msg = err.substr(p + 15, 60);
    size_t nl = msg.find('\n'); if (nl != std::string::npos) msg = msg.substr(0, nl);
    // drop the concrete numbers so that the signature is stable
    std::string m2; for (char ch : msg) { if (isdigit((unsigned char)ch) || ch == '-') continue; m2.push_back((ch == ' ' || ch == ',' || ch == '*' || ch == ':' || ch == '=') ? '_' : ch); }
    // location: "<path>:<line>:<col>: runtime error:" is static data of the check (no symbolization needed): file basename
    std::string loc;
    {
      size_t ls = err.rfind('\n', p); ls = (ls == std::string::npos) ? 0 : ls + 1;
      std::string pre = err.substr(ls, p - ls);            // "/repo/hll/include/X.hpp:498:12: "
      size_t c1 = pre.find(".hpp"); if (c1 == std::string::npos) c1 = pre.find(".h:");
      if (c1 != std::string::npos) {
        size_t e = pre.find(':', c1); size_t b = pre.rfind('/', c1);
        loc = "@" + pre.substr(b == std::string::npos ? 0 : b + 1, (e == std::string::npos ? pre.size() : e) - (b == std::string::npos ? 0 : b + 1));
      }
    }
    return "ubsan:" + m2 + (loc.empty() ? site : loc);
  }
  if (WIFSIGNALED(status)) {
    if (WTERMSIG(status) == SIGALRM) return "timeout";
    if (WTERMSIG(status) == SIGSEGV && err.find("SEGV") != std::string::npos) return "asan:SEGV" + site;
    return "crash:sig" + std::to_string(WTERMSIG(status));
  }
  return "crash:exit" + std::to_string(WIFEXITED(status) ? WEXITSTATUS(status) : -1);
}

// Runs all cases, each in a way that survives a sanitizer abort: a forked child walks the cases and reports
// "<index> <outcome>" per case on a pipe, announcing the index before the call; when it dies the parent records the
// classified death for that index and forks a new child for the remaining cases.
static std::vector<std::string> run_cases_forked(const std::vector<Case>& cases, const std::string* full_content) {
  std::vector<std::string> res(cases.size(), "?");
  size_t next = 0;
  std::cout.flush();
  char errname[] = "/tmp/whll_err_XXXXXX";
  int efd = mkstemp(errname);
  if (efd >= 0) close(efd);
  int guard = 0;
  while (next < cases.size() && guard++ < 100000) {
    int pfd[2];
    if (pipe(pfd) != 0) throw std::runtime_error("pipe");
    pid_t pid = fork();
    if (pid < 0) throw std::runtime_error("fork");
    if (pid == 0) {
      close(pfd[0]);
      int fd = open(errname, O_WRONLY | O_TRUNC);
      if (fd >= 0) { dup2(fd, 2); close(fd); }
      for (size_t i = next; i < cases.size(); ++i) {
        char m[64]; int k = snprintf(m, sizeof m, "S %zu\n", i);
        if (write(pfd[1], m, k) != k) _exit(3);
        alarm(CASE_TIMEOUT_S);
        const Case& c = cases[i];
        std::string o = run_case(c.img.data(), c.n, c.stream, full_content, c.shift);
        alarm(0);
        std::string line = "E " + std::to_string(i) + " " + o + "\n";
        if (write(pfd[1], line.data(), line.size()) != (ssize_t)line.size()) _exit(3);
      }
      _exit(0);
    }
    close(pfd[1]);
    std::string buf; char tmp[4096]; ssize_t r;
    while ((r = read(pfd[0], tmp, sizeof tmp)) > 0) buf.append(tmp, r);
    close(pfd[0]);
    int status = 0;
    waitpid(pid, &status, 0);
    std::istringstream ls(buf);
    std::string tag; size_t started = (size_t)-1; bool started_open = false;
    while (ls >> tag) {
      if (tag == "S") { ls >> started; started_open = true; }
      else if (tag == "E") { size_t i; std::string o; ls >> i >> o; if (i < res.size()) res[i] = o; started_open = false; next = i + 1; }
    }
    if (started_open && started < res.size()) {
      res[started] = classify_death(status, errname);
      next = started + 1;
    } else if (!(WIFEXITED(status) && WEXITSTATUS(status) == 0) && next < cases.size()) {
      res[next] = classify_death(status, errname);
      next = next + 1;
    }
  }
  unlink(errname);
  return res;
}

static std::string rle(const std::vector<std::string>& v, size_t from, size_t to) {
  if (from >= to) return "-";
  std::string out; size_t i = from;
  while (i < to) {
    size_t j = i; while (j < to && v[j] == v[i]) ++j;
    if (!out.empty()) out += ",";
    out += v[i] + "*" + std::to_string(j - i);
    i = j;
  }
  return out;
}

static size_t preamble_len(const std::vector<uint8_t>& img) {
  if (img.empty()) return 0;
  if (img[0] == hll_constants::HLL_PREINTS) return 40;
  if (img[0] == hll_constants::HASH_SET_PREINTS) return 12;
  return 8;
}

// ---------------------------------------------------------------- ops
static std::string step(const std::vector<std::string>& w) {
  const std::string& op = w[0];
  if (op == "new") {
    g_sk[std::stoi(w[1])].reset(new sketch_t((uint8_t)std::stoi(w[2]), type_of(std::stoi(w[3])), w[4] == "1"));
    return "ok";
  }
  if (op == "upd") { get(std::stoi(w[1])).update((uint64_t)std::stoull(w[2])); return "ok"; }
  if (op == "updr") {
    sketch_t& sk = get(std::stoi(w[1]));
    const uint64_t s = std::stoull(w[2]), n = std::stoull(w[3]);
    for (uint64_t i = 0; i < n; ++i) sk.update(s + i);
    return "ok";
  }
  if (op == "reset") { get(std::stoi(w[1])).reset(); return "ok"; }
  if (op == "union") {
    union_t u((uint8_t)std::stoi(w[2]));
    for (size_t i = 4; i < w.size(); ++i) u.update(get(std::stoi(w[i])));
    g_sk[std::stoi(w[1])].reset(new sketch_t(u.get_result(type_of(std::stoi(w[3])))));
    return "ok";
  }
  if (op == "ser") {
    const sketch_t& sk = get(std::stoi(w[1]));
    const bool compact = w[2] == "c";
    const std::vector<uint8_t> img = ser_bytes(sk, compact);
    return std::string("IMG ") + (compact ? "compact " : "updatable ") + vh::hex_of_bytes(img.data(), img.size()) + " | " +
           safe_content(sk) + " | " + checks_for_image(sk, img, compact, true);
  }
  if (op == "load") {
    const bool compact = w[1] == "c";
    const std::vector<uint8_t> img = vh::bytes_of_hex(w[2]);
    sketch_t sk = deser_bytes(img);
    return std::string("IMG ") + (compact ? "compact " : "updatable ") + w[2] + " | " + safe_content(sk) + " | " +
           checks_for_image(sk, img, compact, false);
  }
  if (op == "cont" || op == "contu") {
    const sketch_t& sk = get(std::stoi(w[1]));
    const bool compact = w[2] == "c";
    const std::vector<uint8_t> img = ser_bytes(sk, compact);
    sketch_t restored = (w[3] == "s") ? deser_stream(img) : deser_bytes(img);
    sketch_t orig(sk);
    std::string a, b;
    if (op == "cont") {
      const uint64_t s = std::stoull(w[4]), n = std::stoull(w[5]);
      for (uint64_t i = 0; i < n; ++i) { orig.update(s + i); restored.update(s + i); }
      a = content(orig) + " # " + api_numbers(orig); b = content(restored) + " # " + api_numbers(restored);
    } else {
      const sketch_t& other = get(std::stoi(w[4]));
      const uint8_t lgmax = (uint8_t)std::stoi(w[5]);
      const target_hll_type ty = type_of(std::stoi(w[6]));
      union_t u1(lgmax), u2(lgmax);
      u1.update(orig); u1.update(other);
      u2.update(restored); u2.update(other);
      sketch_t r1 = u1.get_result(ty), r2 = u2.get_result(ty);
      a = content(r1) + " # " + api_numbers(r1); b = content(r2) + " # " + api_numbers(r2);
      if (compact && sk.sketch_impl->getCurMode() == SET) {
        // A compact set image does not preserve the table order (documented freedom), and the union feeds a SET-mode
        // source to its gadget coupon by coupon in table order: the HIP accumulator of the result (an order-dependent
        // estimator by design) is then not a function of the logical content. Compare everything but HIP / estimates.
        auto mask = [](const std::string& c) {
          std::string o = c.substr(0, c.find(" # "));
          size_t p = o.find(" hip=");
          if (p != std::string::npos) { size_t e = o.find(' ', p + 1); o.erase(p, e - p); }
          return o;
        };
        a = mask(a); b = mask(b);
      }
    }
    if (a == b) return "CONT eq";
    size_t i = 0; while (i < a.size() && i < b.size() && a[i] == b[i]) ++i;
    return "CONT diff at " + std::to_string(i) + " orig=" + a.substr(i > 30 ? i - 30 : 0, 90) + " restored=" + b.substr(i > 30 ? i - 30 : 0, 90);
  }
  if (op == "pfx" || op == "pfxi") {
    // pfx <id> <c|u>   |   pfxi <c|u> <hex>  (stored image)
    std::vector<uint8_t> img; bool compact; std::string full;
    if (op == "pfx") {
      const sketch_t& sk = get(std::stoi(w[1])); compact = w[2] == "c"; img = ser_bytes(sk, compact); full = safe_content(sk);
    } else {
      compact = w[1] == "c"; img = vh::bytes_of_hex(w[2]); sketch_t sk = deser_bytes(img); full = safe_content(sk);
    }
    std::vector<Case> cases;
    for (int path = 0; path < 2; ++path)
      for (size_t n = 0; n < img.size(); ++n) { Case c; c.n = n; c.pos = -1; c.val = 0; c.stream = path == 1; c.img = img; cases.push_back(c); }
    std::vector<std::string> r = run_cases_forked(cases, &full);
    return std::string("PFX ") + (compact ? "compact " : "updatable ") + vh::hex_of_bytes(img.data(), img.size()) +
           " | bytes=" + rle(r, 0, img.size()) + " stream=" + rle(r, img.size(), 2 * img.size());
  }
  if (op == "cor" || op == "cori") {
    std::vector<uint8_t> img; bool compact;
    if (op == "cor") { const sketch_t& sk = get(std::stoi(w[1])); compact = w[2] == "c"; img = ser_bytes(sk, compact); }
    else { compact = w[1] == "c"; img = vh::bytes_of_hex(w[2]); }
    const size_t pre = std::min(preamble_len(img), img.size());
    std::vector<Case> cases;
    for (int path = 0; path < 2; ++path)
      for (size_t pos = 0; pos < pre; ++pos) {
        const uint8_t b = img[pos];
        const uint8_t vals[8] = {0x00, 0x01, 0x7F, 0x80, 0xFF, (uint8_t)(b ^ 1), (uint8_t)(b ^ 0x80), (uint8_t)(b + 1)};
        for (int k = 0; k < 8; ++k) {
          Case c; c.n = img.size(); c.pos = (int)pos; c.val = vals[k]; c.stream = path == 1; c.img = img; c.img[pos] = vals[k];
          cases.push_back(c);
        }
      }
    std::vector<std::string> r = run_cases_forked(cases, nullptr);
    std::string letters[2], bad;
    for (size_t i = 0; i < cases.size(); ++i) {
      const std::string& o = r[i];
      const char L = o == "T" ? 'T' : o == "A" ? 'A' : 'X';
      letters[cases[i].stream ? 1 : 0].push_back(L);
      if (L == 'X') {
        if (!bad.empty()) bad += ",";
        bad += std::to_string(cases[i].pos) + ":" + vh::hex_of_bytes(&cases[i].img[cases[i].pos], 1) + ":" + (cases[i].stream ? "s" : "b") + ":" + o;
      }
    }
    return std::string("COR ") + (compact ? "compact " : "updatable ") + vh::hex_of_bytes(img.data(), img.size()) +
           " | bytes=" + letters[0] + " stream=" + letters[1] + " bad=" + (bad.empty() ? "-" : bad);
  }
  if (op == "find") {
    const unsigned minv = (unsigned)std::stoul(w[1]); const size_t cnt = std::stoul(w[2]); uint64_t n = std::stoull(w[3]);
    std::string out = "F"; size_t found = 0;
    while (found < cnt) {
      HashState hs; MurmurHash3_x64_128(&n, sizeof n, DEFAULT_SEED, hs);
      const uint32_t cp = HllUtil<>::coupon(hs);
      if ((cp >> 26) >= minv) { out += " " + std::to_string(n) + ":" + std::to_string(cp & 0x3ffffff) + ":" + std::to_string(cp >> 26); ++found; }
      ++n;
    }
    return out;
  }
  if (op == "consts") {
    std::ostringstream o;
    o << "CONSTS";
#define C(x) o << " " #x "=" << (unsigned long long)hll_constants::x
    C(SER_VER); C(FAMILY_ID); C(EMPTY_FLAG_MASK); C(COMPACT_FLAG_MASK); C(OUT_OF_ORDER_FLAG_MASK); C(FULL_SIZE_FLAG_MASK);
    C(PREAMBLE_INTS_BYTE); C(SER_VER_BYTE); C(FAMILY_BYTE); C(LG_K_BYTE); C(LG_ARR_BYTE); C(FLAGS_BYTE); C(LIST_COUNT_BYTE);
    C(HLL_CUR_MIN_BYTE); C(MODE_BYTE); C(LIST_INT_ARR_START); C(LIST_PREINTS); C(HASH_SET_COUNT_INT); C(HASH_SET_INT_ARR_START);
    C(HASH_SET_PREINTS); C(HLL_PREINTS); C(HLL_BYTE_ARR_START); C(HIP_ACCUM_DOUBLE); C(KXQ0_DOUBLE); C(KXQ1_DOUBLE);
    C(CUR_MIN_COUNT_INT); C(AUX_COUNT_INT); C(EMPTY_SKETCH_SIZE_BYTES); C(KEY_BITS_26); C(VAL_BITS_6); C(MIN_LOG_K); C(MAX_LOG_K);
    C(LG_INIT_LIST_SIZE); C(LG_INIT_SET_SIZE); C(RESIZE_NUMER); C(RESIZE_DENOM); C(AUX_TOKEN);
#undef C
    o << " LG_AUX_ARR_INTS=";
    for (size_t i = 0; i < sizeof(hll_constants::LG_AUX_ARR_INTS); ++i) o << (i ? "," : "") << (int)hll_constants::LG_AUX_ARR_INTS[i];
    // register-array sizes and mode bytes as computed by the code, for lg_k 4..12
    o << " ARR=";
    for (int k = 4; k <= 12; ++k)
      o << (k > 4 ? "," : "") << HllArray<std::allocator<uint8_t>>::hll4ArrBytes((uint8_t)k) << "/" << HllArray<std::allocator<uint8_t>>::hll6ArrBytes((uint8_t)k)
        << "/" << HllArray<std::allocator<uint8_t>>::hll8ArrBytes((uint8_t)k);
    return o.str();
  }
  return "bad-op";
}

extern "C" void __sanitizer_print_stack_trace(void);
// called by ASan when it has detected an error, before the report is printed: give the (symbolized) report time to be
// written even on a loaded machine, so that the per-case watchdog cannot cut it short
extern "C" void __asan_on_error() { alarm(60); }

int main() {
  // Sanitizer reports of the forked children are symbolized in-process (libbacktrace); spawning llvm-symbolizer once per
  // aborted child costs seconds each.  The harness needs nothing from PATH.  One symbolized trace in the parent warms
  // the DWARF caches that the children inherit.
  setenv("PATH", "/nonexistent", 1);
  {
    fflush(stderr);
    const int saved = dup(2);
    const int nul = open("/dev/null", O_WRONLY);
    if (saved >= 0 && nul >= 0) { dup2(nul, 2); __sanitizer_print_stack_trace(); fflush(stderr); dup2(saved, 2); }
    if (nul >= 0) close(nul);
    if (saved >= 0) close(saved);
  }
  return vh::run_loop(step);
}

// Correspondence harness: Bloom filter (C15).  Modes: (default) filter/memory-block histories,
// `hash` = XXHash64 + per-overload canonicalisation tie, `sugg` = builder arithmetic tie.
//
// Every history op prints  `<out> | <record per live view> | <record per caller block>`  where a view
// record is  v<id>=<is_empty><is_read_only><is_wrapped><is_memory_owned>:<capacity>:<num_hashes>:<seed>:
// <query() of every universe item as 0/1>:<serialize() bytes as hex>  -- const public API only, so observing
// never changes the state (get_bits_used is NOT const: it is an explicit op `bits`).
#include "common.hpp"
#include <csignal>
#include <unistd.h>
#include <bitset>
#include <random>
#include <chrono>
#include <thread>
// the `consts` mode dumps the (private) layout constants and XXHash primes as the compiler sees them, for the
// translator cross-check; nothing else in this harness touches non-public members
#define private public
#include "bloom_filter.hpp"
#include "xxhash64.h"
#undef private

using namespace datasketches;
using vh::split;

typedef std::vector<uint8_t> Bytes;
static std::map<int, std::unique_ptr<bloom_filter>> views;
static std::map<int, std::unique_ptr<Bytes>> blocks;
static std::vector<std::unique_ptr<Bytes>> graveyard;   // replaced buffers stay allocated: views may still point into them
static std::vector<std::pair<std::string, std::string>> universe;

struct NoView : std::exception {};
struct NoBlk : std::exception {};
static bloom_filter& V(const std::string& id) {
  auto it = views.find(atoi(id.c_str()));
  if (it == views.end() || !it->second) throw NoView();
  return *it->second;
}
static Bytes& B(const std::string& id) {
  auto it = blocks.find(atoi(id.c_str()));
  if (it == blocks.end()) throw NoBlk();
  return *it->second;
}

static uint64_t u64(const std::string& s) { return strtoull(s.c_str(), nullptr, 10); }

template<typename F>
static auto with_item(const std::string& ty, const std::string& lit, F f) -> decltype(f((uint64_t)0)) {
  if (ty == "u64") return f((uint64_t)strtoull(lit.c_str(), nullptr, 10));
  if (ty == "i64") return f((int64_t)strtoll(lit.c_str(), nullptr, 10));
  if (ty == "u32") return f((uint32_t)strtoull(lit.c_str(), nullptr, 10));
  if (ty == "i32") return f((int32_t)strtoll(lit.c_str(), nullptr, 10));
  if (ty == "u16") return f((uint16_t)strtoull(lit.c_str(), nullptr, 10));
  if (ty == "i16") return f((int16_t)strtoll(lit.c_str(), nullptr, 10));
  if (ty == "u8") return f((uint8_t)strtoull(lit.c_str(), nullptr, 10));
  if (ty == "i8") return f((int8_t)strtoll(lit.c_str(), nullptr, 10));
  if (ty == "f64") return f(vh::f64_of_hex(lit));
  if (ty == "f32") return f(vh::f32_of_hex(lit));
  if (ty == "str") { auto b = vh::bytes_of_hex(lit); return f(std::string(b.begin(), b.end())); }
  throw std::runtime_error("bad type");
}

static void do_update(bloom_filter& f, const std::string& ty, const std::string& lit) {
  if (ty == "raw") { auto b = vh::bytes_of_hex(lit); f.update((const void*)b.data(), b.size()); return; }
  with_item(ty, lit, [&](auto x) { f.update(x); return true; });
}
static bool do_qau(bloom_filter& f, const std::string& ty, const std::string& lit) {
  if (ty == "raw") { auto b = vh::bytes_of_hex(lit); return f.query_and_update((const void*)b.data(), b.size()); }
  return with_item(ty, lit, [&](auto x) { return f.query_and_update(x); });
}
static bool do_query(const bloom_filter& f, const std::string& ty, const std::string& lit) {
  if (ty == "raw") { auto b = vh::bytes_of_hex(lit); return f.query((const void*)b.data(), b.size()); }
  return with_item(ty, lit, [&](auto x) { return f.query(x); });
}

static std::string observe(const std::string& out) {
  std::ostringstream os;
  os << out << " |";
  for (auto& kv : views) {
    const bloom_filter& f = *kv.second;
    os << " v" << kv.first << "=" << (f.is_empty() ? 1 : 0) << (f.is_read_only() ? 1 : 0) << (f.is_wrapped() ? 1 : 0)
       << (f.is_memory_owned() ? 1 : 0) << ":" << f.get_capacity() << ":" << f.get_num_hashes() << ":" << f.get_seed() << ":";
    for (auto& it : universe) os << (do_query(f, it.first, it.second) ? 1 : 0);
    auto img = f.serialize();
    os << ":" << vh::hex_of_bytes(img.data(), img.size());
  }
  os << " |";
  for (auto& kv : blocks) os << " m" << kv.first << "=" << vh::hex_of_bytes(kv.second->data(), kv.second->size());
  return os.str();
}

static void put_view(int v, bloom_filter* f) { views[v].reset(f); }

static void put_block(int m, std::unique_ptr<Bytes> b) {
  auto it = blocks.find(m);
  if (it != blocks.end()) graveyard.push_back(std::move(it->second));
  blocks[m] = std::move(b);
}

// `watch <seconds>`: watchdog for the liveness edge case; if an op does not return in time the harness prints `hang` and exits 0
static void on_alarm(int) { const char m[] = "hang\n"; ssize_t r = write(1, m, sizeof m - 1); (void)r; _exit(0); }

static std::string op_step(const std::vector<std::string>& w) {
  const std::string& op = w[0];
  if (op == "watch") {
    std::cout << std::unitbuf;
    signal(SIGALRM, on_alarm);
    alarm((unsigned)atoi(w[1].c_str()));
    return "ok";
  }
  if (op == "univ") {
    universe.clear();
    for (size_t i = 1; i + 1 < w.size(); i += 2) universe.push_back({w[i], w[i + 1]});
    return "ok";
  }
  if (op == "new") {
    int v = atoi(w[1].c_str());
    auto f = bloom_filter::builder::create_by_size(u64(w[2]), (uint16_t)u64(w[3]), u64(w[4]));
    put_view(v, new bloom_filter(std::move(f)));
    return "ok";
  }
  if (op == "newacc") {
    int v = atoi(w[1].c_str());
    auto f = bloom_filter::builder::create_by_accuracy(u64(w[2]), vh::f64_of_hex(w[3]), u64(w[4]));
    put_view(v, new bloom_filter(std::move(f)));
    return "ok";
  }
  if (op == "blk") {
    put_block(atoi(w[1].c_str()), std::unique_ptr<Bytes>(new Bytes(vh::bytes_of_hex(w[2]))));
    return "ok";
  }
  if (op == "init") {
    int v = atoi(w[1].c_str());
    Bytes& b = B(w[2]);
    auto f = bloom_filter::builder::initialize_by_size(b.data(), b.size(), u64(w[3]), (uint16_t)u64(w[4]), u64(w[5]));
    put_view(v, new bloom_filter(std::move(f)));
    return "ok";
  }
  if (op == "initacc") {
    int v = atoi(w[1].c_str());
    Bytes& b = B(w[2]);
    auto f = bloom_filter::builder::initialize_by_accuracy(b.data(), b.size(), u64(w[3]), vh::f64_of_hex(w[4]), u64(w[5]));
    put_view(v, new bloom_filter(std::move(f)));
    return "ok";
  }
  if (op == "upd") { do_update(V(w[1]), w[2], w[3]); return "ok"; }
  if (op == "qau") { return do_qau(V(w[1]), w[2], w[3]) ? "b1" : "b0"; }
  if (op == "q") { return do_query(V(w[1]), w[2], w[3]) ? "b1" : "b0"; }
  if (op == "bits") { return "n" + std::to_string(V(w[1]).get_bits_used()); }
  if (op == "reset") { V(w[1]).reset(); return "ok"; }
  if (op == "union" || op == "inter") {
    bloom_filter& f = V(w[1]);
    const bloom_filter& g = V(w[2]);
    if (op == "union") f.union_with(g); else f.intersect(g);
    return "n" + std::to_string(f.get_bits_used());
  }
  if (op == "invert") {
    bloom_filter& f = V(w[1]);
    f.invert();
    return "n" + std::to_string(f.get_bits_used());
  }
  if (op == "copy") {
    const bloom_filter& f = V(w[1]);
    const int d = atoi(w[2].c_str());
    auto it = views.find(d);
    static unsigned n_assign = 0;
    if (it != views.end() && it->second) {                      // the target exists: ASSIGNMENT into a live filter,
      if (++n_assign % 2) *it->second = f;                      // alternately copy assignment
      else { bloom_filter tmp(f); *it->second = std::move(tmp); }   // and move assignment (from a temporary copy: the source stays usable)
    }
    else put_view(d, new bloom_filter(f));                      // copy construction
    return "ok";
  }
  if (op == "ser") {
    const bloom_filter& f = V(w[1]);
    std::unique_ptr<Bytes> b(new Bytes());
    if (w[3] == "1") {
      std::ostringstream ss(std::ios::binary);
      f.serialize(ss);
      std::string s = ss.str();
      b->assign(s.begin(), s.end());
    } else if (w[3] == "0") {
      auto img = f.serialize();
      b->assign(img.begin(), img.end());
    } else {
      // byte form behind a caller header of (w[3] - 1) bytes: the image is what follows the header; the header bytes must be left alone
      const unsigned hdr = static_cast<unsigned>(atoi(w[3].c_str())) - 1;
      auto img = f.serialize(hdr);
      if (img.size() < hdr) return "bad-header-image";
      b->assign(img.begin() + hdr, img.end());
    }
    put_block(atoi(w[2].c_str()), std::move(b));
    return "ok";
  }
  if (op == "deser") {
    const Bytes& b = B(w[1]);
    int v = atoi(w[2].c_str());
    if (w[3] == "1") {
      std::istringstream ss(std::string(b.begin(), b.end()), std::ios::binary);
      put_view(v, new bloom_filter(bloom_filter::deserialize(ss)));
    } else {
      put_view(v, new bloom_filter(bloom_filter::deserialize(b.data(), b.size())));
    }
    return "ok";
  }
  if (op == "wrap") {
    const Bytes& b = B(w[1]);
    int v = atoi(w[2].c_str());
    put_view(v, new bloom_filter(bloom_filter::wrap(b.data(), b.size())));
    return "ok";
  }
  if (op == "wwrap") {
    Bytes& b = B(w[1]);
    int v = atoi(w[2].c_str());
    put_view(v, new bloom_filter(bloom_filter::writable_wrap(b.data(), b.size())));
    return "ok";
  }
  if (op == "drop") { V(w[1]); views.erase(atoi(w[1].c_str())); return "ok"; }
  return "bad-op";
}

static std::string step(const std::vector<std::string>& w) {
  std::string out;
  try { out = op_step(w); }
  catch (const NoView&) { out = "noview"; }
  catch (const NoBlk&) { out = "noblk"; }
  catch (const std::exception& e) { out = "throw"; if (getenv("VH_VERBOSE")) std::cerr << e.what() << "\n"; }
  if (out == "bad-op") return out;
  return observe(out);
}

// ---- hash tie.  `xx <hex> <seed>`: XXHash64::hash on raw bytes.  `hash <ty> <lit> <seed>`: the bit positions set
// by the real update path of that overload in a 65536-bit, 4-hash filter (sorted, distinct).
static std::string hash_step(const std::vector<std::string>& w) {
  if (w[0] == "xx") {
    auto b = vh::bytes_of_hex(w[1]);
    // exact-size heap copy so that ASan sees any over-read
    std::unique_ptr<uint8_t[]> p(new uint8_t[b.size() ? b.size() : 1]);
    if (!b.empty()) memcpy(p.get(), b.data(), b.size());
    return "X " + vh::hex_u64(XXHash64::hash(b.empty() ? nullptr : p.get(), b.size(), u64(w[2])));
  }
  if (w[0] != "hash") return "bad-op";
  auto f = bloom_filter::builder::create_by_size(65536, 4, u64(w[3]));
  do_update(f, w[1], w[2]);
  if (f.is_empty()) return "H ignored";
  auto img = f.serialize();
  std::ostringstream os;
  os << "H";
  for (size_t i = 32; i < img.size(); ++i)
    for (int b = 0; b < 8; ++b)
      if (img[i] & (1 << b)) os << " " << ((i - 32) * 8 + b);
  return os.str();
}

static std::string sugg_step(const std::vector<std::string>& w) {
  if (w[0] == "bits") return "n" + std::to_string(bloom_filter::builder::suggest_num_filter_bits(u64(w[1]), vh::f64_of_hex(w[2])));
  if (w[0] == "hp") return "n" + std::to_string(bloom_filter::builder::suggest_num_hashes(vh::f64_of_hex(w[1])));
  if (w[0] == "hnb") return "n" + std::to_string(bloom_filter::builder::suggest_num_hashes(u64(w[1]), u64(w[2])));
  return "bad-op";
}

static int dump_consts() {
  typedef unsigned long long ull;
  printf("bloom_MAX_HEADER_SIZE_BYTES %llu\n", (ull)+bloom_filter::MAX_HEADER_SIZE_BYTES);
  printf("bloom_DIRTY_BITS_VALUE %llu\n", (ull)+bloom_filter::DIRTY_BITS_VALUE);
  printf("bloom_BIT_ARRAY_LENGTH_OFFSET_BYTES %llu\n", (ull)+bloom_filter::BIT_ARRAY_LENGTH_OFFSET_BYTES);
  printf("bloom_NUM_BITS_SET_OFFSET_BYTES %llu\n", (ull)+bloom_filter::NUM_BITS_SET_OFFSET_BYTES);
  printf("bloom_BIT_ARRAY_OFFSET_BYTES %llu\n", (ull)+bloom_filter::BIT_ARRAY_OFFSET_BYTES);
  printf("bloom_MAX_FILTER_SIZE_BITS %llu\n", (ull)+bloom_filter::MAX_FILTER_SIZE_BITS);
  printf("bloom_PREAMBLE_LONGS_EMPTY %llu\n", (ull)+bloom_filter::PREAMBLE_LONGS_EMPTY);
  printf("bloom_PREAMBLE_LONGS_STANDARD %llu\n", (ull)+bloom_filter::PREAMBLE_LONGS_STANDARD);
  printf("bloom_FAMILY_ID %llu\n", (ull)+bloom_filter::FAMILY_ID);
  printf("bloom_SER_VER %llu\n", (ull)+bloom_filter::SER_VER);
  printf("bloom_EMPTY_FLAG_MASK %llu\n", (ull)+bloom_filter::EMPTY_FLAG_MASK);
  printf("xxh_Prime1 %llu\n", (ull)+XXHash64::Prime1);
  printf("xxh_Prime2 %llu\n", (ull)+XXHash64::Prime2);
  printf("xxh_Prime3 %llu\n", (ull)+XXHash64::Prime3);
  printf("xxh_Prime4 %llu\n", (ull)+XXHash64::Prime4);
  printf("xxh_Prime5 %llu\n", (ull)+XXHash64::Prime5);
  printf("xxh_MaxBufferSize %llu\n", (ull)+XXHash64::MaxBufferSize);
  return 0;
}

int main(int argc, char** argv) {
  if (argc > 1 && std::string(argv[1]) == "consts") return dump_consts();
  if (argc > 1 && std::string(argv[1]) == "hash") return vh::run_loop(hash_step);
  if (argc > 1 && std::string(argv[1]) == "sugg") return vh::run_loop(sugg_step);
  return vh::run_loop(step);
}

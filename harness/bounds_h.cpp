// Correspondence harness for C06 (family `bounds`): distinct-count estimator and confidence-bound functions.
//   bounds_h dump      prints every numeric table / named constant as compiled by g++ (translator cross-check)
//   bounds_h           line protocol:
//     pure functions   bb | relerr | hreg (register state injected through a crafted HLL_4 image) | cubic | bitmap |
//                      icon
//     real sketches    t* (theta), u* (tuple), h* (hll), c* (cpc): new / upd / union … / obs
//   `Xobs id` without further arguments prints the estimator-relevant state of the real object (`S …`); with the
//   state given as arguments it checks that the object IS in that state and prints the public estimator outputs, so
//   that the model (which has no sketch state) can be run on the same line.
#include "common.hpp"
#include "binomial_bounds.hpp"
#include "theta_sketch.hpp"
#include "theta_union.hpp"
#include "theta_intersection.hpp"
#include "theta_a_not_b.hpp"
#include "tuple_sketch.hpp"
#include "tuple_union.hpp"
#include "hll.hpp"
#include "cpc_sketch.hpp"
#include "cpc_union.hpp"
#include "inv_pow2_table.hpp"
#include "kxp_byte_lookup.hpp"
#include "icon_estimator.hpp"
#include "cpc_confidence.hpp"

using namespace datasketches;
using vh::split;
using vh::hex_f64;
typedef std::allocator<uint8_t> AL;

// ------------------------------------------------------------------------------------------------ dump
template<typename T, size_t N> static void dump_f64(const char* name, const T (&a)[N]) {
  std::cout << name;
  for (size_t i = 0; i < N; ++i) std::cout << " " << hex_f64((double)a[i]);
  std::cout << "\n";
}
template<typename T, size_t N> static void dump_int(const char* name, const T (&a)[N]) {
  std::cout << name;
  for (size_t i = 0; i < N; ++i) std::cout << " " << (long long)a[i];
  std::cout << "\n";
}
static void dump_c(const char* name, double v) { std::cout << name << " " << hex_f64(v) << "\n"; }
static void dump_n(const char* name, unsigned long long v) { std::cout << name << " " << v << "\n"; }

static int dump() {
  dump_f64("deltaOfNumStdDevs", delta_of_num_std_devs);
  dump_f64("lbEquivTable", lb_equiv_table);
  dump_f64("ubEquivTable", ub_equiv_table);
  dump_f64("cubicXArr", xArrComputed);
  dump_f64("cubicYArr", yArrComputed);
  dump_f64("harmonicTable", tableOfExactHarmonicNumbers);
  dump_f64("relErrHipLb", HIP_LB);
  dump_f64("relErrHipUb", HIP_UB);
  dump_f64("relErrNonHipLb", NON_HIP_LB);
  dump_f64("relErrNonHipUb", NON_HIP_UB);
  dump_int("compositeYStrides", yStrides);
  {
    std::cout << "compositeXArr";
    const size_t rows = sizeof(xArray) / sizeof(xArray[0]);
    const size_t cols = sizeof(xArray[0]) / sizeof(xArray[0][0]);
    for (size_t i = 0; i < rows; ++i) for (size_t j = 0; j < cols; ++j) std::cout << " " << hex_f64(xArray[i][j]);
    std::cout << "\n";
  }
  dump_f64("iconCoefficients", ICON_POLYNOMIAL_COEFFICIENTS);
  dump_int("iconLowSide", ICON_LOW_SIDE_DATA);
  dump_int("iconHighSide", ICON_HIGH_SIDE_DATA);
  dump_int("hipLowSide", HIP_LOW_SIDE_DATA);
  dump_int("hipHighSide", HIP_HIGH_SIDE_DATA);
  dump_f64("invPow2", INVERSE_POWERS_OF_2);
  dump_f64("kxpByteTable", KXP_BYTE_TABLE);
  dump_n("cubicNumEntries", numEntries);
  dump_n("compositeNumXArrValues", numXArrValues);
  dump_n("numExactHarmonic", NUM_EXACT_HARMONIC_NUMBERS);
  dump_c("eulerMascheroni", EULER_MASCHERONI_CONSTANT);
  dump_n("hllMinLgK", hll_constants::MIN_LOG_K);
  dump_n("hllMaxLgK", hll_constants::MAX_LOG_K);
  dump_c("hllHipRseFactor", hll_constants::HLL_HIP_RSE_FACTOR);
  dump_c("hllNonHipRseFactor", hll_constants::HLL_NON_HIP_RSE_FACTOR);
  dump_c("couponRseFactor", hll_constants::COUPON_RSE_FACTOR);
  dump_c("couponRse", hll_constants::COUPON_RSE);
  dump_n("iconMinLgK", ICON_MIN_LOG_K);
  dump_n("iconMaxLgK", ICON_MAX_LOG_K);
  dump_n("iconPolyDegree", ICON_POLYNOMIAL_DEGREE);
  dump_c("iconErrorConstant", ICON_ERROR_CONSTANT);
  dump_c("hipErrorConstant", HIP_ERROR_CONSTANT);
  dump_n("thetaMaxTheta", theta_constants::MAX_THETA);
  std::cout.flush();
  return 0;
}

// ------------------------------------------------------------------------------------------------ helpers
// NaN is printed canonically (Lean's Float.toBits canonicalises it; the sign/payload of a NaN is not an observation)
static std::string hx(double d) { return d != d ? std::string("7ff8000000000000") : hex_f64(d); }
template<typename F> static std::string val(F f) {
  try { return hx(f()); } catch (const std::exception&) { return "throw"; }
}

template<typename S> static std::string est_line(const char* tag, const S& s) {
  std::ostringstream os;
  os << tag << " " << val([&] { return s.get_estimate(); });
  for (unsigned k = 1; k <= 3; ++k) os << " " << val([&] { return s.get_lower_bound((uint8_t)k); });
  for (unsigned k = 1; k <= 3; ++k) os << " " << val([&] { return s.get_upper_bound((uint8_t)k); });
  return os.str();
}

typedef update_tuple_sketch<double> utuple;
typedef compact_tuple_sketch<double> ctuple;

struct TObj { std::unique_ptr<update_theta_sketch> upd; std::unique_ptr<compact_theta_sketch> cmp;
  const theta_sketch& sk() const { return upd ? static_cast<const theta_sketch&>(*upd) : static_cast<const theta_sketch&>(*cmp); } };
struct UObj { std::unique_ptr<utuple> upd; std::unique_ptr<ctuple> cmp;
  const tuple_sketch<double>& sk() const { return upd ? static_cast<const tuple_sketch<double>&>(*upd) : static_cast<const tuple_sketch<double>&>(*cmp); } };
struct HObj { std::unique_ptr<hll_sketch> sk; std::unique_ptr<hll_union> un; };

static std::map<int, TObj> tobjs;
static std::map<int, UObj> uobjs;
static std::map<int, HObj> hobjs;
static std::map<int, std::unique_ptr<cpc_sketch>> cobjs;

static int I(const std::string& s) { return atoi(s.c_str()); }
static uint64_t U(const std::string& s) { return strtoull(s.c_str(), nullptr, 10); }

template<typename M> static typename M::mapped_type& need(M& m, int id) {
  auto it = m.find(id);
  if (it == m.end()) throw std::runtime_error("no such object");
  return it->second;
}

// estimator-relevant state of an HLL sketch, read from its serialized image (public API)
static std::string hll_state(const hll_sketch& s) {
  auto b = s.serialize_compact();
  if (b.size() < 8) throw std::runtime_error("short image");
  const int mode = b[hll_constants::MODE_BYTE] & 3;
  const int lgk = b[hll_constants::LG_K_BYTE];
  std::ostringstream os;
  if (mode == 0) { os << "LIST " << lgk << " " << (int)b[hll_constants::LIST_COUNT_BYTE]; return os.str(); }
  if (mode == 1) { uint32_t c; memcpy(&c, b.data() + hll_constants::HASH_SET_COUNT_INT, 4); os << "SET " << lgk << " " << c; return os.str(); }
  double hip, q0, q1; uint32_t nacm;
  memcpy(&hip, b.data() + hll_constants::HIP_ACCUM_DOUBLE, 8);
  memcpy(&q0, b.data() + hll_constants::KXQ0_DOUBLE, 8);
  memcpy(&q1, b.data() + hll_constants::KXQ1_DOUBLE, 8);
  memcpy(&nacm, b.data() + hll_constants::CUR_MIN_COUNT_INT, 4);
  const int ooo = (b[hll_constants::FLAGS_BYTE] & hll_constants::OUT_OF_ORDER_FLAG_MASK) ? 1 : 0;
  // canonical form: the estimators read (cur_min, num_at_cur_min) only through "number of untouched registers"
  // = (cur_min == 0 ? num_at_cur_min : 0); an HLL_8 union gadget represents the same content as (0, #zeros) or, after
  // check_rebuild_kxq_cur_min, as (true minimum, count at it).  The out-of-order image carries a stale HIP value: 0.
  const uint32_t unhit = b[hll_constants::HLL_CUR_MIN_BYTE] == 0 ? nacm : 0;
  os << "HLL " << lgk << " 0 " << unhit << " " << hex_f64(q0) << " " << hex_f64(q1)
     << " " << (ooo ? std::string("0000000000000000") : hex_f64(hip)) << " " << ooo;
  return os.str();
}

template<typename S> static std::string hll_line(const S& s) {
  std::ostringstream os;
  os << "H " << val([&] { return s.get_estimate(); }) << " " << val([&] { return s.get_composite_estimate(); });
  for (unsigned k = 1; k <= 3; ++k) os << " " << val([&] { return s.get_lower_bound((uint8_t)k); });
  for (unsigned k = 1; k <= 3; ++k) os << " " << val([&] { return s.get_upper_bound((uint8_t)k); });
  return os.str();
}

static std::string join_from(const std::vector<std::string>& w, size_t i) {
  std::string s;
  for (; i < w.size(); ++i) { if (!s.empty()) s += " "; s += w[i]; }
  return s;
}

static std::string cpc_state(const cpc_sketch& s) {
  auto b = s.serialize();
  if (b.size() < 8) throw std::runtime_error("short image");
  const bool has_hip = (b[5] & (1 << 2)) != 0;     // flags::HAS_HIP
  std::ostringstream os;
  // hip accumulator: for a sketch that was not merged get_estimate() IS the accumulator
  os << (int)s.get_lg_k() << " " << s.get_num_coupons() << " " << (has_hip ? hex_f64(s.get_estimate()) : std::string("0000000000000000"))
     << " " << (has_hip ? 0 : 1);
  return os.str();
}

// ------------------------------------------------------------------------------------------------ step
static std::string step(const std::vector<std::string>& w) {
  const std::string& op = w.at(0);
  // ---------------- pure functions
  if (op == "bb") {
    const unsigned long long n = U(w.at(1)); const double th = vh::f64_of_hex(w.at(2)); const unsigned k = (unsigned)I(w.at(3));
    return "B " + val([&] { return binomial_bounds::get_lower_bound(n, th, k); }) + " " + val([&] { return binomial_bounds::get_upper_bound(n, th, k); });
  }
  if (op == "relerr") {
    return "R " + val([&] { return hll_sketch::get_rel_err(I(w.at(1)) != 0, I(w.at(2)) != 0, (uint8_t)I(w.at(3)), (uint8_t)I(w.at(4))); });
  }
  if (op == "hreg") {
    const int lgk = I(w.at(1));
    if (lgk < 4 || lgk > 21) throw std::runtime_error("lgk");
    const size_t arr = (size_t)1 << (lgk - 1);     // HLL_4: k/2 bytes
    std::vector<uint8_t> img(hll_constants::HLL_BYTE_ARR_START + arr, 0);
    img[0] = hll_constants::HLL_PREINTS; img[1] = hll_constants::SER_VER; img[2] = hll_constants::FAMILY_ID; img[3] = (uint8_t)lgk;
    img[4] = 0; img[5] = I(w.at(7)) ? hll_constants::OUT_OF_ORDER_FLAG_MASK : 0; img[6] = (uint8_t)I(w.at(2)); img[7] = 2; // HLL mode, HLL_4
    const double q0 = vh::f64_of_hex(w.at(4)), q1 = vh::f64_of_hex(w.at(5)), hip = vh::f64_of_hex(w.at(6));
    const uint32_t nacm = (uint32_t)U(w.at(3)), aux = 0;
    memcpy(&img[hll_constants::HIP_ACCUM_DOUBLE], &hip, 8); memcpy(&img[hll_constants::KXQ0_DOUBLE], &q0, 8);
    memcpy(&img[hll_constants::KXQ1_DOUBLE], &q1, 8); memcpy(&img[hll_constants::CUR_MIN_COUNT_INT], &nacm, 4);
    memcpy(&img[hll_constants::AUX_COUNT_INT], &aux, 4);
    hll_sketch s = hll_sketch::deserialize(img.data(), img.size());
    return hll_line(s);
  }
  if (op == "cubic") { const double x = vh::f64_of_hex(w.at(1)); return "C " + val([&] { return CubicInterpolation<AL>::usingXAndYTables(x); }); }
  if (op == "bitmap") { return "M " + val([&] { return HarmonicNumbers<AL>::getBitMapEstimate(I(w.at(1)), I(w.at(2))); }); }
  if (op == "icon") { return "I " + val([&] { return compute_icon_estimate((uint8_t)I(w.at(1)), (uint32_t)U(w.at(2))); }); }

  // ---------------- theta
  if (op == "tnew") {
    auto b = update_theta_sketch::builder(); b.set_lg_k((uint8_t)I(w.at(2))).set_p(vh::f32_of_hex(w.at(3)));
    TObj o; o.upd.reset(new update_theta_sketch(b.build())); tobjs[I(w.at(1))] = std::move(o); return "ok";
  }
  if (op == "tupd") {
    auto& o = need(tobjs, I(w.at(1))); if (!o.upd) throw std::runtime_error("not updatable");
    const uint64_t a = U(w.at(2)), n = U(w.at(3)); for (uint64_t i = 0; i < n; ++i) o.upd->update(a + i); return "ok";
  }
  if (op == "tcompact") { TObj o; o.cmp.reset(new compact_theta_sketch(need(tobjs, I(w.at(1))).sk(), I(w.at(3)) != 0)); tobjs[I(w.at(2))] = std::move(o); return "ok"; }
  if (op == "tunion" || op == "tinter" || op == "tanotb") {
    // tunion dst lgk a b | tinter dst a b | tanotb dst a b
    const size_t ia = op == "tunion" ? 3 : 2;
    const theta_sketch& a = need(tobjs, I(w.at(ia))).sk(); const theta_sketch& b = need(tobjs, I(w.at(ia + 1))).sk();
    TObj o;
    if (op == "tunion") { auto u = theta_union::builder().set_lg_k((uint8_t)I(w.at(2))).build(); u.update(a); u.update(b); o.cmp.reset(new compact_theta_sketch(u.get_result())); }
    else if (op == "tinter") { theta_intersection x; x.update(a); x.update(b); o.cmp.reset(new compact_theta_sketch(x.get_result())); }
    else { theta_a_not_b x; o.cmp.reset(new compact_theta_sketch(x.compute(a, b))); }
    tobjs[I(w.at(1))] = std::move(o); return "ok";
  }
  if (op == "tobs") {
    const theta_sketch& s = need(tobjs, I(w.at(1))).sk();
    const std::string line = est_line("T", s);      // both passes make the same calls in the same order
    std::ostringstream st; st << s.get_theta64() << " " << s.get_num_retained() << " " << (s.is_empty() ? 1 : 0);
    if (w.size() == 2) return "S " + st.str();
    if (join_from(w, 2) != st.str()) return "state-mismatch " + st.str();
    return line;
  }
  // ---------------- tuple
  if (op == "unew") {
    auto b = utuple::builder(); b.set_lg_k((uint8_t)I(w.at(2))).set_p(vh::f32_of_hex(w.at(3)));
    UObj o; o.upd.reset(new utuple(b.build())); uobjs[I(w.at(1))] = std::move(o); return "ok";
  }
  if (op == "uupd") {
    auto& o = need(uobjs, I(w.at(1))); if (!o.upd) throw std::runtime_error("not updatable");
    const uint64_t a = U(w.at(2)), n = U(w.at(3)); for (uint64_t i = 0; i < n; ++i) o.upd->update(a + i, 1.0); return "ok";
  }
  if (op == "ucompact") { UObj o; o.cmp.reset(new ctuple(need(uobjs, I(w.at(1))).sk(), I(w.at(3)) != 0)); uobjs[I(w.at(2))] = std::move(o); return "ok"; }
  if (op == "uunion") {
    auto u = tuple_union<double>::builder().set_lg_k((uint8_t)I(w.at(2))).build();
    u.update(need(uobjs, I(w.at(3))).sk()); u.update(need(uobjs, I(w.at(4))).sk());
    UObj o; o.cmp.reset(new ctuple(u.get_result())); uobjs[I(w.at(1))] = std::move(o); return "ok";
  }
  if (op == "ufilter") {        // ufilter dst src thr: entries whose summary is >= thr (a derived sketch: same theta, never "empty" if the source estimates)
    const double thr = (double)I(w.at(3));
    auto pred = [thr](const double& v) { return v >= thr; };
    const UObj& src = need(uobjs, I(w.at(2)));
    UObj o; o.cmp.reset(new ctuple(src.upd ? src.upd->filter(pred) : src.cmp->filter(pred)));
    uobjs[I(w.at(1))] = std::move(o); return "ok";
  }
  if (op == "uobs") {
    const auto& s = need(uobjs, I(w.at(1))).sk();
    const std::string line0 = est_line("U", s);
    std::ostringstream st; st << s.get_theta64() << " " << s.get_num_retained() << " " << (s.is_empty() ? 1 : 0);
    if (w.size() == 2) return "S " + st.str();
    if (w.size() != 6 || w.at(2) + " " + w.at(3) + " " + w.at(4) != st.str()) return "state-mismatch " + st.str();
    const uint32_t sub = (uint32_t)U(w.at(5));
    std::ostringstream os; os << line0;
    for (unsigned k = 1; k <= 3; ++k) os << " " << val([&] { return s.get_lower_bound((uint8_t)k, sub); });
    for (unsigned k = 1; k <= 3; ++k) os << " " << val([&] { return s.get_upper_bound((uint8_t)k, sub); });
    return os.str();
  }
  // ---------------- hll
  if (op == "hnew") {
    const int t = I(w.at(3)); const bool full = w.size() > 4 && I(w.at(4)) != 0;      // hnew id lgk type [start_full_size]
    HObj o; o.sk.reset(new hll_sketch((uint8_t)I(w.at(2)), t == 4 ? HLL_4 : t == 6 ? HLL_6 : HLL_8, full));
    hobjs[I(w.at(1))] = std::move(o); return "ok";
  }
  if (op == "hupd") {
    auto& o = need(hobjs, I(w.at(1))); const uint64_t a = U(w.at(2)), n = U(w.at(3));
    if (o.sk) for (uint64_t i = 0; i < n; ++i) o.sk->update(a + i); else for (uint64_t i = 0; i < n; ++i) o.un->update(a + i);
    return "ok";
  }
  if (op == "hunion") {         // hunion dst lgmaxk src...   (dst = union object)
    HObj o; o.un.reset(new hll_union((uint8_t)I(w.at(2))));
    for (size_t i = 3; i < w.size(); ++i) { auto& s = need(hobjs, I(w[i])); if (s.sk) o.un->update(*s.sk); else o.un->update(s.un->get_result(HLL_8)); }
    hobjs[I(w.at(1))] = std::move(o); return "ok";
  }
  if (op == "hresult") {        // hresult dst union type
    auto& u = need(hobjs, I(w.at(2))); if (!u.un) throw std::runtime_error("not a union");
    const int t = I(w.at(3)); HObj o; o.sk.reset(new hll_sketch(u.un->get_result(t == 4 ? HLL_4 : t == 6 ? HLL_6 : HLL_8)));
    hobjs[I(w.at(1))] = std::move(o); return "ok";
  }
  if (op == "hobs") {
    auto& o = need(hobjs, I(w.at(1)));
    // outputs first, state second, in BOTH passes: the getters of a union rebuild its gadget's counters (a state change)
    const std::string line = o.sk ? hll_line(*o.sk) : hll_line(*o.un);
    const std::string st = o.sk ? hll_state(*o.sk) : hll_state(o.un->get_result(HLL_8));
    if (w.size() == 2) return "S " + st;
    if (join_from(w, 2) != st) return "state-mismatch " + st;
    return line;
  }
  // ---------------- cpc
  if (op == "cnew") { cobjs[I(w.at(1))].reset(new cpc_sketch((uint8_t)I(w.at(2)))); return "ok"; }
  if (op == "cupd") { auto& s = need(cobjs, I(w.at(1))); const uint64_t a = U(w.at(2)), n = U(w.at(3)); for (uint64_t i = 0; i < n; ++i) s->update(a + i); return "ok"; }
  if (op == "cunion") {
    cpc_union u((uint8_t)I(w.at(2)));
    for (size_t i = 3; i < w.size(); ++i) u.update(*need(cobjs, I(w[i])));
    cobjs[I(w.at(1))].reset(new cpc_sketch(u.get_result())); return "ok";
  }
  if (op == "cobs") {
    auto& s = need(cobjs, I(w.at(1)));
    std::ostringstream os; os << "P " << val([&] { return s->get_estimate(); });
    for (unsigned k = 1; k <= 3; ++k) os << " " << val([&] { return s->get_lower_bound(k); });
    for (unsigned k = 1; k <= 3; ++k) os << " " << val([&] { return s->get_upper_bound(k); });
    const std::string st = cpc_state(*s);
    if (w.size() == 2) return "S " + st;
    if (join_from(w, 2) != st) return "state-mismatch " + st;
    return os.str();
  }
  throw std::runtime_error("bad op");
}

int main(int argc, char** argv) {
  if (argc > 1 && std::string(argv[1]) == "dump") return dump();
  return vh::run_loop(step);
}

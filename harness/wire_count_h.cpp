// Wire-format harness, group `count`: count-min, frequent items, VarOpt sketch, VarOpt union, EBPPS
// (C09 round trip, C10 layout / baseline corpus, C11 truncation + corruption).  See docs/WIRE_GUIDE.md.
//
// Line protocol (objects live in numbered slots):
//   new <id> <kind> <params>      cm:{i|d}:<seed> <num_hashes> <num_buckets> | fi:{i|s}:{u|d} <lg_max> <lg_start>
//                                 vo:{i|s} <k> <rf> | vu:{i|s} <max_k> | eb:{i|s} <k>
//   do <op> ; <op> ; ...          several ops on one line
//   zerofill <0|1>                allocations made from now on are zero-filled (default: ASan's 0xBE fill)
//   seed <n>                      (re)seed the installed random source (VarOpt / EBPPS draws)
//   upd <id> <item> <weight>      item: decimal int64 or hex bytes ("-" empty) for string kinds / x<hex> for count-min strings
//   upd2 <a> <b> <item> <weight> <seed> / merge2 <a> <b> <src> <seed>   the same op on two objects, reseeding before each
//   merge <dst> <src>             family merge (vu: update(sketch src); src may be a vo object)
//   result <vu id> <new id>       union get_result() -> new vo object
//   fork <id> <new id> <b|s>      new := deserialize(serialize(id)) via bytes or stream
//   eq <a> <b>                    EQ 1|0 (canonical API content)
//   ser <id>                      IMG <kind> <hex> | <content> | <checks>      (all C09 checks done in C++ alone)
//   load <kind> <hex>             IMG <kind> <hex> | <content> | <checks>      (deserialize a stored image: C10)
//   c11 <id>                      C11 <kind> <hex> <npre> | b=<..> | s=<..> | cb=<..> | cs=<..> | xb=<..> | xs=<..>   (one char per case:
//                                 prefixes bytes/stream, preamble byte x 8 replacements bytes/stream, preamble word attacks bytes/stream)
//   c11x <kind> <hex>             same for a stored image
// Case codes: T throw, A accept (content identical to the full image's), a accept with other content,
//   S AddressSanitizer, U UBSan, O timeout, C allocation cap (one request > 256 MiB), L leak after throw, X other crash,
//   = replacement equals the original byte (skipped).
#include "common.hpp"
#include <sys/types.h>
#include <sys/wait.h>
#include <unistd.h>
#include <poll.h>
#include <signal.h>
#include <new>
#include <cstdlib>

// sanitizer reports of the forked case runners are only classified, never read: skip the (slow) symbolization
// unless the caller asks for it (options given in ASAN_OPTIONS / UBSAN_OPTIONS take precedence over these defaults)
extern "C" const char* __asan_default_options() { return "symbolize=0:fast_unwind_on_malloc=1"; }
extern "C" const char* __ubsan_default_options() { return "symbolize=0"; }

// ---------------------------------------------------------------- tracking allocator with an allocation cap
static size_t g_live = 0;
static bool g_cap_hit = false;
static const size_t ALLOC_CAP = size_t(256) << 20;

static bool g_zero_fill = false;     // op `zerofill 1`: see VU::content below
static void* vh_alloc(size_t n) {
  if (n > ALLOC_CAP) { g_cap_hit = true; throw std::bad_alloc(); }
  void* p = g_zero_fill ? calloc(n ? n : 1, 1) : malloc(n ? n : 1);
  if (p == nullptr) throw std::bad_alloc();
  ++g_live;
  return p;
}
void* operator new(size_t n) { return vh_alloc(n); }
void* operator new[](size_t n) { return vh_alloc(n); }
void operator delete(void* p) noexcept { if (p) { --g_live; free(p); } }
void operator delete[](void* p) noexcept { if (p) { --g_live; free(p); } }
void operator delete(void* p, size_t) noexcept { if (p) { --g_live; free(p); } }
void operator delete[](void* p, size_t) noexcept { if (p) { --g_live; free(p); } }

#include "count_min.hpp"
#include "frequent_items_sketch.hpp"
#include "var_opt_sketch.hpp"
#include "var_opt_union.hpp"
#include "ebpps_sketch.hpp"

using namespace datasketches;
using vh::split;
typedef std::vector<uint8_t> Bytes;

// ---------------------------------------------------------------- installed random source
struct Src : public random_utils::verif_random_source {
  uint64_t s = 1; bool fixed = false; double fixed_unit = 0.0; uint64_t used = 0;
  uint64_t next() { ++used; uint64_t z = (s += 0x9E3779B97F4A7C15ULL); z = (z ^ (z >> 30)) * 0xBF58476D1CE4E5B9ULL; z = (z ^ (z >> 27)) * 0x94D049BB133111EBULL; return z ^ (z >> 31); }
  bool bit() override { return next() & 1; }
  double unit() override { if (fixed) { ++used; return fixed_unit; } return (double)(next() >> 11) * (1.0 / 9007199254740992.0); }
  uint64_t below(uint64_t n) override { if (fixed) { ++used; return 0; } return n ? next() % n : 0; }
};
static Src g_src;
static void reseed(uint64_t v) { g_src.s = v; g_src.fixed = false; }
struct FixedDraw { bool of; double ou; uint64_t os; FixedDraw(double u) : of(g_src.fixed), ou(g_src.fixed_unit), os(g_src.s) { g_src.fixed = true; g_src.fixed_unit = u; }
  ~FixedDraw() { g_src.fixed = of; g_src.fixed_unit = ou; g_src.s = os; } };
struct SeededDraw { bool of; uint64_t os; SeededDraw(uint64_t v) : of(g_src.fixed), os(g_src.s) { g_src.fixed = false; g_src.s = v; } ~SeededDraw() { g_src.fixed = of; g_src.s = os; } };

// ---------------------------------------------------------------- items and weights
template<typename T> struct Item;
template<> struct Item<int64_t> {
  static int64_t parse(const std::string& s) { return (int64_t)strtoll(s.c_str(), nullptr, 10); }
  static std::string show(int64_t v) { return vh::hex_u64((uint64_t)v); }
  static const char* tag() { return "i"; }
};
template<> struct Item<std::string> {
  static std::string parse(const std::string& s) { auto b = vh::bytes_of_hex(s); return std::string(b.begin(), b.end()); }
  static std::string show(const std::string& v) { return v.empty() ? std::string("e") : vh::hex_of_bytes((const uint8_t*)v.data(), v.size()); }
  static const char* tag() { return "s"; }
};
template<typename W> struct Wt;
template<> struct Wt<uint64_t> { static uint64_t parse(const std::string& s) { if (!s.empty() && s[0] == '-') throw std::invalid_argument("negative"); return strtoull(s.c_str(), nullptr, 10); }
  static std::string show(uint64_t v) { return vh::hex_u64(v); } static const char* tag() { return "u"; } };
template<> struct Wt<int64_t> { static int64_t parse(const std::string& s) { return strtoll(s.c_str(), nullptr, 10); }
  static std::string show(int64_t v) { return vh::hex_u64((uint64_t)v); } static const char* tag() { return "i"; } };
template<> struct Wt<double> { static double parse(const std::string& s) { return vh::f64_of_hex(s); }
  static std::string show(double v) { return vh::hex_f64(v); } static const char* tag() { return "d"; } };

// ---------------------------------------------------------------- uniform object interface
struct Any {
  virtual ~Any() {}
  virtual std::string kind() const = 0;
  virtual std::string content() const = 0;
  // state that content() cannot show but the image stores (union: marks of the gadget's H items, through hook H4); "" = none
  virtual std::string extra() const { return ""; }
  virtual void upd(const std::string& item, const std::string& wt) = 0;
  virtual void merge(const Any& o) = 0;
  virtual Bytes ser(unsigned h) const = 0;
  virtual std::string ser_stream() const = 0;
  virtual size_t ssize() const = 0;
  virtual std::unique_ptr<Any> from_bytes(const uint8_t* p, size_t n) const = 0;
  virtual std::unique_ptr<Any> from_stream(std::istream& is) const = 0;
  virtual void exercise() = 0;
  virtual size_t npre(const Bytes& img) const = 0;
  virtual bool table_order_free() const { return false; }
  virtual std::unique_ptr<Any> result() const { throw std::invalid_argument("no result()"); }
  // a defect of the STATE itself (visible through the public API) that makes its image unreadable; "" = none
  virtual std::string diag() const { return ""; }
};

// Runs fn() in a forked child and returns its string; a sanitizer abort / crash of the child gives "CRASH:<code>".
// Used for var_opt_union::get_result(), which (on the pinned tree) reads never-initialised `marks_` slots when marked items
// have to be migrated (UBSan: load of an invalid bool) - the harness must survive that to report it as a finding.
static std::string g_notes;          // crash notes collected since the last `ser`
template<typename F> static std::string guarded(const char* what, F fn) {
  std::cout.flush();
  int pr[2], pe[2];
  if (pipe(pr) != 0 || pipe(pe) != 0) throw std::runtime_error("pipe");
  pid_t pid = fork();
  if (pid < 0) throw std::runtime_error("fork");
  if (pid == 0) {
    close(pr[0]); close(pe[0]); dup2(pe[1], 2);
    std::string r;
    try { r = "R" + fn(); } catch (const std::exception&) { r = "E"; }
    size_t off = 0; while (off < r.size()) { ssize_t k = write(pr[1], r.data() + off, r.size() - off); if (k <= 0) break; off += k; }
    _exit(0);
  }
  close(pr[1]); close(pe[1]);
  std::string out, err;
  struct pollfd fds[2] = {{pr[0], POLLIN, 0}, {pe[0], POLLIN, 0}};
  int open_fds = 2;
  while (open_fds > 0) {
    if (poll(fds, 2, -1) < 0) break;
    for (int k = 0; k < 2; ++k) {
      if (fds[k].fd < 0) continue;
      if (fds[k].revents & (POLLIN | POLLHUP | POLLERR)) {
        char b[4096]; ssize_t r = read(fds[k].fd, b, sizeof b);
        if (r > 0) (k == 0 ? out : err).append(b, r); else { close(fds[k].fd); fds[k].fd = -1; --open_fds; }
      }
    }
  }
  int status = 0; waitpid(pid, &status, 0);
  if (WIFEXITED(status) && WEXITSTATUS(status) == 0 && !out.empty()) {
    if (out[0] == 'E') throw std::runtime_error("exception in guarded call");
    return out.substr(1);
  }
  std::string code = "crash";
  if (err.find("AddressSanitizer") != std::string::npos) code = "asan";
  else if (err.find("runtime error") != std::string::npos) {
    // "<file>:<line>:<col>: runtime error: <message>"  ->  ubsan:<file basename>:<first words of the message, digits dropped>
    code = "ubsan";
    size_t p = err.find(": runtime error: ");
    if (p != std::string::npos) {
      size_t ls = err.rfind('\n', p); ls = (ls == std::string::npos) ? 0 : ls + 1;
      std::string loc = err.substr(ls, p - ls);
      size_t c1 = loc.find(':'); if (c1 != std::string::npos) loc = loc.substr(0, c1);
      size_t sl = loc.rfind('/'); if (sl != std::string::npos) loc = loc.substr(sl + 1);
      std::string msg = err.substr(p + 17, 80), slug; int words = 0; bool inword = false;
      for (char ch : msg) {
        if (ch == '\n') break;
        if (isalpha((unsigned char)ch)) { slug.push_back(ch); inword = true; }
        else if (inword) { inword = false; if (++words >= 5) break; slug.push_back('-'); }
      }
      while (!slug.empty() && slug.back() == '-') slug.pop_back();
      code += ":" + loc + ":" + slug;
    }
  }
  if (getenv("VH_VERBOSE")) std::cerr << what << " -> " << code << "\n" << err.substr(0, 1500) << "\n";
  std::string note = std::string(what) + "-" + code;
  if (g_notes.find(note) == std::string::npos) g_notes += (g_notes.empty() ? "" : ",") + note;
  return "CRASH:" + code;
}

template<typename V> static std::string ser_to_string(const V& v) { std::ostringstream os(std::ios::binary); v.serialize(os); return os.str(); }

// ----- count-min
template<typename W> struct CM : Any {
  typedef count_min_sketch<W> S;
  S s; uint64_t seed;
  CM(S&& x, uint64_t sd) : s(std::move(x)), seed(sd) {}
  std::string kind() const override { return std::string("cm:") + Wt<W>::tag() + ":" + std::to_string(seed); }
  std::string content() const override {
    std::ostringstream os;
    os << "CM nh=" << (unsigned)s.get_num_hashes() << " nb=" << s.get_num_buckets() << " empty=" << (s.is_empty() ? 1 : 0)
       << " tw=" << Wt<W>::show(s.get_total_weight()) << " cells=";
    bool first = true;
    const size_t ncells = (size_t)s.get_num_hashes() * s.get_num_buckets();
    if (!s.is_empty() && ncells <= 4096) for (auto it = s.begin(); it != s.end(); ++it) { if (!first) os << ","; first = false; os << Wt<W>::show(*it); }
    if (!s.is_empty() && ncells > 4096) os << "many:" << ncells;     // only reachable from corrupted images
    os << " seed=" << s.get_seed();
    return os.str();
  }
  void upd(const std::string& item, const std::string& wt) override {
    W w = Wt<W>::parse(wt);
    if (!item.empty() && item[0] == 'x') { auto b = vh::bytes_of_hex(item.substr(1)); s.update(std::string(b.begin(), b.end()), w); }
    else s.update((int64_t)strtoll(item.c_str(), nullptr, 10), w);
  }
  void merge(const Any& o) override { const CM* p = dynamic_cast<const CM*>(&o); if (!p) throw std::invalid_argument("kind"); s.merge(p->s); }
  Bytes ser(unsigned h) const override { auto v = s.serialize(h); return Bytes(v.begin(), v.end()); }
  std::string ser_stream() const override { return ser_to_string(s); }
  size_t ssize() const override { return s.get_serialized_size_bytes(); }
  std::unique_ptr<Any> from_bytes(const uint8_t* p, size_t n) const override { return std::unique_ptr<Any>(new CM(S::deserialize(p, n, seed), seed)); }
  std::unique_ptr<Any> from_stream(std::istream& is) const override { return std::unique_ptr<Any>(new CM(S::deserialize(is, seed), seed)); }
  void exercise() override {
    volatile W sink = s.get_estimate((int64_t)1); sink = s.get_upper_bound((int64_t)2); sink = s.get_lower_bound(std::string("ab")); (void)sink;
    s.update((int64_t)1, (W)1); s.update(std::string("ab"), (W)2);
    sink = s.get_estimate((int64_t)1);
    const size_t ncells = (size_t)s.get_num_hashes() * s.get_num_buckets();
    if (ncells <= (1u << 16)) {
      W acc = 0; for (auto it = s.begin(); it != s.end(); ++it) acc += *it; sink = acc;
      auto v = s.serialize(0); (void)v; (void)s.to_string();
    }
    (void)s.get_relative_error();
  }
  size_t npre(const Bytes&) const override { return 16; }
};

// ----- frequent items
template<typename T, typename W> struct FI : Any {
  typedef frequent_items_sketch<T, W> S;
  S s;
  FI(S&& x) : s(std::move(x)) {}
  std::string kind() const override { return std::string("fi:") + Item<T>::tag() + ":" + Wt<W>::tag(); }
  std::string content() const override {
    std::ostringstream os;
    os << "FI eps=" << vh::hex_f64(s.get_epsilon()) << " empty=" << (s.is_empty() ? 1 : 0) << " tw=" << Wt<W>::show(s.get_total_weight())
       << " off=" << Wt<W>::show(s.get_maximum_error()) << " n=" << s.get_num_active_items() << " items=";
    std::vector<std::string> rows;
    for (auto& r : s.get_frequent_items(NO_FALSE_NEGATIVES, (W)0)) {
      // row: estimate = lower bound + offset, upper bound = estimate
      std::string x = Item<T>::show(r.get_item()) + ":" + Wt<W>::show(r.get_lower_bound());
      if (r.get_upper_bound() != r.get_lower_bound() + s.get_maximum_error() || r.get_estimate() != r.get_upper_bound()) x += "!";
      rows.push_back(x);
    }
    std::sort(rows.begin(), rows.end());
    for (size_t i = 0; i < rows.size(); ++i) { if (i) os << ","; os << rows[i]; }
    return os.str();
  }
  void upd(const std::string& item, const std::string& wt) override { s.update(Item<T>::parse(item), Wt<W>::parse(wt)); }
  void merge(const Any& o) override { const FI* p = dynamic_cast<const FI*>(&o); if (!p) throw std::invalid_argument("kind"); s.merge(p->s); }
  Bytes ser(unsigned h) const override { auto v = s.serialize(h); return Bytes(v.begin(), v.end()); }
  std::string ser_stream() const override { return ser_to_string(s); }
  size_t ssize() const override { return s.get_serialized_size_bytes(); }
  std::unique_ptr<Any> from_bytes(const uint8_t* p, size_t n) const override { return std::unique_ptr<Any>(new FI(S::deserialize(p, n))); }
  std::unique_ptr<Any> from_stream(std::istream& is) const override { return std::unique_ptr<Any>(new FI(S::deserialize(is))); }
  void exercise() override {
    T probe = Item<T>::parse("1");
    (void)s.get_estimate(probe); (void)s.get_lower_bound(probe); (void)s.get_upper_bound(probe);
    (void)s.get_frequent_items(NO_FALSE_POSITIVES); (void)s.get_frequent_items(NO_FALSE_NEGATIVES);
    for (int i = 0; i < 40; ++i) s.update(Item<T>::parse(std::to_string(10 + i)), (W)(1 + (i % 3)));
    (void)s.get_frequent_items(NO_FALSE_NEGATIVES);
    auto v = s.serialize(0); (void)v; (void)s.to_string(true);
  }
  size_t npre(const Bytes& img) const override { return img.size() >= 32 ? 32 : 8; }
  bool table_order_free() const override { return true; }
};

// ----- VarOpt sketch
template<typename T> static std::string varopt_content(const char* tag, const var_opt_sketch<T>& s) {
  std::ostringstream os;
  os << tag << " k=" << s.get_k() << " n=" << s.get_n() << " ns=" << s.get_num_samples() << " items=";
  bool first = true;
  for (auto it = s.begin(); it != s.end(); ++it) { if (!first) os << ","; first = false; os << Item<T>::show((*it).first) << ":" << vh::hex_f64((*it).second); }
  return os.str();
}
template<typename T> struct VO : Any {
  typedef var_opt_sketch<T> S;
  S s;
  VO(S&& x) : s(std::move(x)) {}
  std::string kind() const override { return std::string("vo:") + Item<T>::tag(); }
  std::string content() const override { return varopt_content<T>("VO", s); }
  void upd(const std::string& item, const std::string& wt) override { s.update(Item<T>::parse(item), vh::f64_of_hex(wt)); }
  void merge(const Any&) override { throw std::invalid_argument("var_opt_sketch has no merge"); }
  Bytes ser(unsigned h) const override { auto v = s.serialize(h); return Bytes(v.begin(), v.end()); }
  std::string ser_stream() const override { return ser_to_string(s); }
  size_t ssize() const override { return s.get_serialized_size_bytes(); }
  std::unique_ptr<Any> from_bytes(const uint8_t* p, size_t n) const override { return std::unique_ptr<Any>(new VO(S::deserialize(p, n))); }
  std::unique_ptr<Any> from_stream(std::istream& is) const override { return std::unique_ptr<Any>(new VO(S::deserialize(is))); }
  void exercise() override {
    SeededDraw d(77);
    double acc = 0; for (auto it = s.begin(); it != s.end(); ++it) acc += (*it).second;
    volatile double sink = acc; (void)sink;
    try { auto ss = s.estimate_subset_sum([](const T&) { return true; }); sink = ss.estimate; } catch (const std::logic_error&) {}
    for (int i = 0; i < 6; ++i) s.update(Item<T>::parse(std::to_string(100 + i)), 1.0 + i);
    auto v = s.serialize(0); (void)v; (void)s.to_string();
  }
  size_t npre(const Bytes& img) const override { return img.empty() ? 0 : std::min<size_t>(img.size(), (img[0] & 0x3f) * 8u); }
};

// ----- VarOpt union
template<typename T> struct VU : Any {
  typedef var_opt_union<T> S;
  S s;
  VU(S&& x) : s(std::move(x)) {}
  std::string kind() const override { return std::string("vu:") + Item<T>::tag(); }
  std::string content() const override {
    return guarded("get-result", [&]() { SeededDraw d(12345); auto r = s.get_result(); return varopt_content<T>("VU", r); });
  }
  std::string extra() const override {
    std::string m = "gm=";
    for (bool b : s.verif_gadget_marks()) m += b ? '1' : '0';
    return m;
  }
  void upd(const std::string&, const std::string&) override { throw std::invalid_argument("var_opt_union has no item update"); }
  void merge(const Any& o) override { const VO<T>* p = dynamic_cast<const VO<T>*>(&o); if (!p) throw std::invalid_argument("kind"); s.update(p->s); }
  Bytes ser(unsigned h) const override { auto v = s.serialize(h); return Bytes(v.begin(), v.end()); }
  std::string ser_stream() const override { return ser_to_string(s); }
  size_t ssize() const override { return s.get_serialized_size_bytes(); }
  std::unique_ptr<Any> from_bytes(const uint8_t* p, size_t n) const override { return std::unique_ptr<Any>(new VU(S::deserialize(p, n))); }
  std::unique_ptr<Any> from_stream(std::istream& is) const override { return std::unique_ptr<Any>(new VU(S::deserialize(is))); }
  std::unique_ptr<Any> result() const override { SeededDraw d(12345); return std::unique_ptr<Any>(new VO<T>(s.get_result())); }
  void exercise() override {
    SeededDraw d(78);
    { auto r = s.get_result(); volatile uint64_t sink = r.get_n(); (void)sink; }
    var_opt_sketch<T> sk(4);
    for (int i = 0; i < 9; ++i) sk.update(Item<T>::parse(std::to_string(200 + i)), 1.0 + i);
    s.update(sk);
    { auto r = s.get_result(); volatile uint64_t sink = r.get_n(); (void)sink; }
    auto v = s.serialize(0); (void)v; (void)s.to_string();
  }
  // union preamble (4 longs) followed by the gadget's own preamble
  size_t npre(const Bytes& img) const override {
    if (img.size() <= 8) return img.size();
    size_t g = img.size() > 32 ? (img[32] & 0x3f) * 8u : 0;
    return std::min<size_t>(img.size(), 32 + g);
  }
};

// ----- EBPPS
template<typename T> struct EB : Any {
  typedef ebpps_sketch<T> S;
  S s;
  EB(S&& x) : s(std::move(x)) {}
  std::string kind() const override { return std::string("eb:") + Item<T>::tag(); }
  std::string content() const override {
    std::ostringstream os;
    os << "EB k=" << s.get_k() << " n=" << s.get_n() << " empty=" << (s.is_empty() ? 1 : 0) << " cw=" << vh::hex_f64(s.get_cumulative_weight()) << " c=" << vh::hex_f64(s.get_c());
    std::vector<T> full, withp;
    { FixedDraw d(std::nextafter(1.0, 0.0)); auto r = s.get_result(); full.assign(r.begin(), r.end()); }   // partial item excluded
    { FixedDraw d(0.0); auto r = s.get_result(); withp.assign(r.begin(), r.end()); }            // partial item included when c has a fraction
    os << " full=";
    for (size_t i = 0; i < full.size(); ++i) { if (i) os << ","; os << Item<T>::show(full[i]); }
    os << " partial=";
    if (withp.size() == full.size() + 1) os << Item<T>::show(withp.back()); else if (withp.size() == full.size()) os << "-"; else os << "?";
    return os.str();
  }
  void upd(const std::string& item, const std::string& wt) override { s.update(Item<T>::parse(item), vh::f64_of_hex(wt)); }
  void merge(const Any& o) override { const EB* p = dynamic_cast<const EB*>(&o); if (!p) throw std::invalid_argument("kind"); s.merge(p->s); }
  // the image does not store the item count: the reader takes floor(c) full items and a partial item iff c has a fraction
  std::string diag() const override {
    if (s.is_empty()) return "";
    size_t nfull, nwith;
    { FixedDraw d(std::nextafter(1.0, 0.0)); nfull = s.get_result().size(); }
    { FixedDraw d(0.0); nwith = s.get_result().size(); }
    double ci; double fr = std::modf(s.get_c(), &ci);
    if ((double)nfull != ci || (nwith == nfull + 1) != (fr != 0.0)) return "state-items-ne-floor-c";
    return "";
  }
  Bytes ser(unsigned h) const override { auto v = s.serialize(h); return Bytes(v.begin(), v.end()); }
  std::string ser_stream() const override { return ser_to_string(s); }
  size_t ssize() const override { return s.get_serialized_size_bytes(); }
  std::unique_ptr<Any> from_bytes(const uint8_t* p, size_t n) const override { return std::unique_ptr<Any>(new EB(S::deserialize(p, n))); }
  std::unique_ptr<Any> from_stream(std::istream& is) const override { return std::unique_ptr<Any>(new EB(S::deserialize(is))); }
  void exercise() override {
    SeededDraw d(79);
    { auto r = s.get_result(); volatile size_t sink = r.size(); (void)sink; }
    for (int i = 0; i < 6; ++i) s.update(Item<T>::parse(std::to_string(300 + i)), 1.0 + (i % 2));
    { S other(3); other.update(Item<T>::parse("7"), 2.0); other.update(Item<T>::parse("8"), 1.0); s.merge(other); }
    { auto r = s.get_result(); volatile size_t sink = r.size(); (void)sink; }
    auto v = s.serialize(0); (void)v; (void)s.to_string();
  }
  // 5 preamble longs, plus C ("looks like part of the preamble but is serialized as part of the sample")
  size_t npre(const Bytes& img) const override { return img.size() <= 8 ? img.size() : std::min<size_t>(img.size(), 48); }
};

// ---------------------------------------------------------------- factories
static std::vector<std::string> split_colon(const std::string& s) { std::vector<std::string> r; std::string t; std::istringstream is(s); while (std::getline(is, t, ':')) r.push_back(t); return r; }

static std::unique_ptr<Any> make(const std::string& kind, const std::vector<std::string>& a) {
  auto k = split_colon(kind);
  auto num = [&](size_t i, uint64_t dflt) -> uint64_t { return i < a.size() ? strtoull(a[i].c_str(), nullptr, 10) : dflt; };
  if (k.at(0) == "cm") {
    uint64_t seed = strtoull(k.at(2).c_str(), nullptr, 10);
    if (k.at(1) == "i") return std::unique_ptr<Any>(new CM<int64_t>(count_min_sketch<int64_t>((uint8_t)num(0, 1), (uint32_t)num(1, 3), seed), seed));
    if (k.at(1) == "d") return std::unique_ptr<Any>(new CM<double>(count_min_sketch<double>((uint8_t)num(0, 1), (uint32_t)num(1, 3), seed), seed));
  }
  if (k.at(0) == "fi") {
    uint8_t lgmax = (uint8_t)num(0, 3), lgst = (uint8_t)num(1, 3);
    if (k.at(1) == "i" && k.at(2) == "u") return std::unique_ptr<Any>(new FI<int64_t, uint64_t>(frequent_items_sketch<int64_t, uint64_t>(lgmax, lgst)));
    if (k.at(1) == "i" && k.at(2) == "d") return std::unique_ptr<Any>(new FI<int64_t, double>(frequent_items_sketch<int64_t, double>(lgmax, lgst)));
    if (k.at(1) == "s" && k.at(2) == "u") return std::unique_ptr<Any>(new FI<std::string, uint64_t>(frequent_items_sketch<std::string, uint64_t>(lgmax, lgst)));
    if (k.at(1) == "s" && k.at(2) == "d") return std::unique_ptr<Any>(new FI<std::string, double>(frequent_items_sketch<std::string, double>(lgmax, lgst)));
  }
  if (k.at(0) == "vo") {
    uint32_t kk = (uint32_t)num(0, 1); resize_factor rf = (resize_factor)num(1, 3);
    if (k.at(1) == "i") return std::unique_ptr<Any>(new VO<int64_t>(var_opt_sketch<int64_t>(kk, rf)));
    if (k.at(1) == "s") return std::unique_ptr<Any>(new VO<std::string>(var_opt_sketch<std::string>(kk, rf)));
  }
  if (k.at(0) == "vu") {
    uint32_t kk = (uint32_t)num(0, 1);
    if (k.at(1) == "i") return std::unique_ptr<Any>(new VU<int64_t>(var_opt_union<int64_t>(kk)));
    if (k.at(1) == "s") return std::unique_ptr<Any>(new VU<std::string>(var_opt_union<std::string>(kk)));
  }
  if (k.at(0) == "eb") {
    uint32_t kk = (uint32_t)num(0, 1);
    if (k.at(1) == "i") return std::unique_ptr<Any>(new EB<int64_t>(ebpps_sketch<int64_t>(kk)));
    if (k.at(1) == "s") return std::unique_ptr<Any>(new EB<std::string>(ebpps_sketch<std::string>(kk)));
  }
  throw std::invalid_argument("bad kind " + kind);
}

// ---------------------------------------------------------------- C09 checks on one object, in C++ alone
static std::string hexs(const Bytes& b) { return vh::hex_of_bytes(b.data(), b.size()); }

static std::string c09_checks(const Any& o, const Bytes& img) {
  std::vector<std::string> bad;
  const std::string want = o.content();
  const std::string st = o.ser_stream();
  if (Bytes(st.begin(), st.end()) != img) bad.push_back("stream-ne-bytes");
  if (o.ssize() != img.size()) bad.push_back("advertised-size");
  for (unsigned h : {1u, 8u, 13u}) {
    try {
      Bytes b = o.ser(h);
      Bytes exp(h, 0); exp.insert(exp.end(), img.begin(), img.end());
      if (b != exp) bad.push_back("header" + std::to_string(h));
    } catch (const std::exception&) { bad.push_back("header" + std::to_string(h) + "-throws"); }
  }
  std::unique_ptr<Any> rb, rs;
  const std::string dg = o.diag();
  if (!dg.empty()) bad.push_back(dg);        // the restore failures below are then consequences of this state defect
  try { rb = o.from_bytes(img.data(), img.size()); }
  catch (const std::exception&) { if (dg.empty()) bad.push_back("restore-bytes-throws"); }
  auto crashed = [](const std::string& c) { return c.compare(0, 6, "CRASH:") == 0; };   // already recorded in g_notes
  if (rb) { try { std::string c = rb->content(); if (c != want && !crashed(c)) bad.push_back("restore-bytes-content"); } catch (const std::exception&) { bad.push_back("restored-bytes-api-throws"); } }
  if (rb && rb->extra() != o.extra()) bad.push_back("restore-bytes-marks");
  try {
    std::string withsent = st + std::string(8, '\xAB');
    std::istringstream is(withsent, std::ios::binary);
    rs = o.from_stream(is);
    if (!is.good() || (size_t)is.tellg() != st.size()) bad.push_back("stream-position");
  } catch (const std::exception&) { if (dg.empty()) bad.push_back("restore-stream-throws"); }
  if (rs) { try { std::string c = rs->content(); if (c != want && !crashed(c)) bad.push_back("restore-stream-content"); } catch (const std::exception&) { bad.push_back("restored-stream-api-throws"); } }
  if (rs && rs->extra() != o.extra()) bad.push_back("restore-stream-marks");
  for (int which = 0; which < 2; ++which) {
    Any* r = which == 0 ? rb.get() : rs.get();
    if (!r) continue;
    const char* nm = which == 0 ? "bytes" : "stream";
    try {
      Bytes again = r->ser(0);
      if (again != img) {
        // images of an unordered hash table may differ by a permutation of the (weight, item) entries: same length,
        // same preamble, same multiset of entries (the canonical content lists the sorted entries with their weights)
        bool perm_ok = o.table_order_free() && again.size() == img.size() && r->content() == want
                       && std::equal(img.begin(), img.begin() + std::min(img.size(), o.npre(img)), again.begin());
        if (!perm_ok) bad.push_back(std::string("reserialize-") + nm);
      }
    } catch (const std::exception&) { bad.push_back(std::string("reserialize-") + nm + "-throws"); }
  }
  if (!g_notes.empty()) { bad.push_back(g_notes); g_notes.clear(); }
  if (bad.empty()) return "ok";
  std::string s = "FAIL:";
  for (size_t i = 0; i < bad.size(); ++i) { if (i) s += ","; s += bad[i]; }
  return s;
}

// ---------------------------------------------------------------- C11: cases run in forked children
__attribute__((noinline)) static void poison_stack(uint8_t v) {
  volatile uint8_t buf[49152];
  for (size_t i = 0; i < sizeof(buf); ++i) buf[i] = v;
  asm volatile("" ::: "memory");
}

// returns one code char; `ref` = content of the full image ("" = unknown)
static char one_case(const Any& proto, const uint8_t* data, size_t n, bool stream, bool exercise, const std::string& ref, uint8_t poison) {
  uint8_t* buf = (uint8_t*)malloc(n);           // exact size: ASan red zones on both sides
  if (n) memcpy(buf, data, n);
  std::string sdata((const char*)data, n);
  std::istringstream is(sdata, std::ios::binary);
  std::string got; got.reserve(1 << 16);
  char code = '?';
  g_cap_hit = false;
  const size_t live0 = g_live;
  poison_stack(poison);
  bool cap_in_reader = false;
  try {
    std::unique_ptr<Any> o = stream ? proto.from_stream(is) : proto.from_bytes(buf, n);
    cap_in_reader = g_cap_hit;
    got = o->content();
    // "usable sketch": getters, a few updates, a merge where offered, serialize; an exception here is still usable
    if (exercise) { try { o->exercise(); } catch (const std::exception&) {} }
    code = (got == ref) ? 'A' : 'a';
  } catch (const std::exception&) { code = 'T'; cap_in_reader = g_cap_hit; }
  catch (...) { code = 'T'; cap_in_reader = g_cap_hit; }
  if (code == 'T' && g_live != live0) code = 'L';       // a rejected image must leave nothing allocated
  if (cap_in_reader) code = 'C';
  free(buf);
  return code;
}

// one child session: runs cases [first, last) with a per-case alarm; returns (index of the case the child died in or N, its code)
template<typename F> static std::pair<size_t, char> run_session(size_t first, size_t last, size_t N, unsigned alarm_s, F fn, std::string& res) {
  int pr[2], pe[2];
  if (pipe(pr) != 0 || pipe(pe) != 0) throw std::runtime_error("pipe");
  pid_t pid = fork();
  if (pid < 0) throw std::runtime_error("fork");
  if (pid == 0) {
    close(pr[0]); close(pe[0]); dup2(pe[1], 2);
    for (size_t i = first; i < last; ++i) {
      char hdr[48]; int l = snprintf(hdr, sizeof hdr, "B%zu\n", i);
      if (write(pr[1], hdr, l) < 0) _exit(3);
      alarm(alarm_s);
      char c = fn(i);
      alarm(0);
      l = snprintf(hdr, sizeof hdr, "E%zu %c\n", i, c);
      if (write(pr[1], hdr, l) < 0) _exit(3);
    }
    _exit(0);
  }
  close(pr[1]); close(pe[1]);
  std::string out, err;
  struct pollfd fds[2] = {{pr[0], POLLIN, 0}, {pe[0], POLLIN, 0}};
  int open_fds = 2;
  while (open_fds > 0) {
    if (poll(fds, 2, -1) < 0) break;
    for (int k = 0; k < 2; ++k) {
      if (fds[k].fd < 0) continue;
      if (fds[k].revents & (POLLIN | POLLHUP | POLLERR)) {
        char b[4096]; ssize_t r = read(fds[k].fd, b, sizeof b);
        if (r > 0) { (k == 0 ? out : err).append(b, r); }
        else { close(fds[k].fd); fds[k].fd = -1; --open_fds; }
      }
    }
  }
  int status = 0; waitpid(pid, &status, 0);
  size_t begun = (size_t)-1; bool ended = true;
  std::istringstream ls(out); std::string line;
  while (std::getline(ls, line)) {
    if (line.empty()) continue;
    if (line[0] == 'B') { begun = strtoull(line.c_str() + 1, nullptr, 10); ended = false; }
    else if (line[0] == 'E') { char* e; size_t i = strtoull(line.c_str() + 1, &e, 10); if (i < N && *e == ' ') res[i] = e[1]; ended = true; }
  }
  if (WIFEXITED(status) && WEXITSTATUS(status) == 0 && ended) return {N, ' '};
  if (begun == (size_t)-1 || begun >= N) throw std::runtime_error("child died before the first case");
  char c = 'X';
  if (err.find("AddressSanitizer") != std::string::npos) c = 'S';
  else if (err.find("runtime error") != std::string::npos) c = 'U';
  else if (WIFSIGNALED(status) && WTERMSIG(status) == SIGALRM) c = 'O';
  if (getenv("VH_VERBOSE")) std::cerr << "case " << begun << " -> " << c << "\n" << err.substr(0, 1500) << "\n";
  return {begun, c};
}

template<typename F> static std::string run_cases(size_t N, F fn) {
  std::string res(N, '?');
  size_t next = 0;
  std::cout.flush();
  while (next < N) {
    auto d = run_session(next, N, N, 6, fn, res);
    if (d.first >= N) break;
    char c = d.second;
    if (c == 'O') {
      // a timeout must be reproducible with a much longer limit (the machine is shared: a slow child is not an endless loop)
      auto d2 = run_session(d.first, d.first + 1, N, 40, fn, res);
      c = (d2.first >= N) ? res[d.first] : d2.second;
    }
    res[d.first] = c;
    next = d.first + 1;
  }
  return res;
}

static const int NREPL = 8;
static uint8_t replacement(uint8_t b, int j) {
  switch (j) { case 0: return 0x00; case 1: return 0x01; case 2: return 0x7F; case 3: return 0x80; case 4: return 0xFF;
    case 5: return b ^ 1; case 6: return b ^ 0x80; default: return (uint8_t)(b + 1); }
}

// word-level attacks on the count fields ("negative" / huge counts, and pairs of adjacent counts changed so that their sum is kept):
// for every 4-byte word w at offset 4i < npre: 0xFFFFFFFF, 0x7FFFFFFF, 0x80000000, w-1, w+1, and with the next word (w+5, w'-5), (w-5, w'+5)
static const int NWORD = 7;
static bool word_attack(Bytes& m, size_t wi, int j) {
  auto rd = [&](size_t o) { uint32_t v; memcpy(&v, &m[o], 4); return v; };
  auto wr = [&](size_t o, uint32_t v) { memcpy(&m[o], &v, 4); };
  size_t o = 4 * wi;
  if (o + 4 > m.size()) return false;
  uint32_t w = rd(o), nw = w;
  if (j < 5) {
    switch (j) { case 0: nw = 0xFFFFFFFFu; break; case 1: nw = 0x7FFFFFFFu; break; case 2: nw = 0x80000000u; break; case 3: nw = w - 1; break; default: nw = w + 1; }
    if (nw == w) return false;
    wr(o, nw); return true;
  }
  if (o + 8 > m.size()) return false;
  uint32_t w2 = rd(o + 4);
  if (j == 5) { wr(o, w + 5); wr(o + 4, w2 - 5); } else { wr(o, w - 5); wr(o + 4, w2 + 5); }
  return true;
}

static std::string c11_line(const Any& proto, const Bytes& img) {
  const size_t n = img.size();
  const size_t npre = proto.npre(img);
  const size_t nwords = (npre + 3) / 4;
  std::string ref;
  try { ref = proto.from_bytes(img.data(), n)->content(); } catch (const std::exception&) { ref = "<full image rejected>"; }
  // one session for all cases (a new child only after a crash):
  //   [0,n) prefixes bytes | [n,2n) prefixes stream, stack fill 0xFE | [2n,3n) prefixes stream, stack fill 0x01
  //   then npre*8 byte corruptions bytes, npre*8 stream, then nwords*7 word attacks bytes, nwords*7 stream.
  // The stream path is run under two stack-fill patterns because several stream readers consume fields without
  // checking the stream state (what they then see is whatever the stack held).
  const size_t o1 = 3 * n, o2 = o1 + npre * NREPL, o3 = o2 + npre * NREPL, o4 = o3 + nwords * NWORD, total = o4 + nwords * NWORD;
  std::string all = run_cases(total, [&](size_t c) -> char {
    if (c < n) return one_case(proto, img.data(), c, false, false, ref, 0xFE);
    if (c < 2 * n) return one_case(proto, img.data(), c - n, true, false, ref, 0xFE);
    if (c < o1) return one_case(proto, img.data(), c - 2 * n, true, false, ref, 0x01);
    if (c < o3) {
      bool stream = c >= o2; size_t k = c - (stream ? o2 : o1);
      size_t pos = k / NREPL; int j = (int)(k % NREPL);
      uint8_t v = replacement(img[pos], j);
      if (v == img[pos]) return '=';
      Bytes m(img); m[pos] = v;
      return one_case(proto, m.data(), m.size(), stream, true, ref, 0xFE);
    }
    bool stream = c >= o4; size_t k = c - (stream ? o4 : o3);
    Bytes m(img);
    if (!word_attack(m, k / NWORD, (int)(k % NWORD))) return '=';
    return one_case(proto, m.data(), m.size(), stream, true, ref, 0xFE);
  });
  std::string pb = all.substr(0, n), ps1 = all.substr(n, n), ps2 = all.substr(2 * n, n), ps(n, 'T');
  for (size_t i = 0; i < n; ++i) ps[i] = (ps1[i] != 'T') ? ps1[i] : ps2[i];
  std::string cb = all.substr(o1, npre * NREPL), cs = all.substr(o2, npre * NREPL);
  std::string xb = all.substr(o3, nwords * NWORD), xs = all.substr(o4, nwords * NWORD);
  auto z = [](const std::string& x) { return x.empty() ? std::string("-") : x; };
  return "C11 " + proto.kind() + " " + hexs(img) + " " + std::to_string(npre) + " | b=" + z(pb) + " | s=" + z(ps)
         + " | cb=" + z(cb) + " | cs=" + z(cs) + " | xb=" + z(xb) + " | xs=" + z(xs);
}

// ---------------------------------------------------------------- main loop
struct NoObj {};
struct ObjMap {
  std::map<int, std::unique_ptr<Any>> m;
  std::unique_ptr<Any>& at(int id) { auto it = m.find(id); if (it == m.end() || !it->second) throw NoObj(); return it->second; }
  std::unique_ptr<Any>& operator[](int id) { return m[id]; }
};
static ObjMap objs;

static std::string step1(const std::vector<std::string>& w);
// a line that names a missing object (possible only in shrunk histories) is an error of the history, not an outcome
static std::string step(const std::vector<std::string>& w) {
  try { return step1(w); } catch (const NoObj&) { return "ERR no-object"; }
}
static std::string step1(const std::vector<std::string>& w) {
  const std::string& op = w[0];
  if (op == "new") {
    int id = atoi(w.at(1).c_str());
    objs[id] = make(w.at(2), std::vector<std::string>(w.begin() + 3, w.end()));
    return "ok";
  }
  if (op == "do") {        // do <op> ; <op> ; ...   several set-up ops on one line (keeps C11 / C10 histories two lines long)
    std::vector<std::string> cur;
    for (size_t i = 1; i <= w.size(); ++i) {
      if (i == w.size() || w[i] == ";") {
        if (!cur.empty()) { try { step1(cur); } catch (const std::exception&) {} }
        cur.clear();
      } else cur.push_back(w[i]);
    }
    return "ok";
  }
  if (op == "zerofill") { g_zero_fill = w.at(1) == "1"; return "ok"; }
  if (op == "seed") { reseed(strtoull(w.at(1).c_str(), nullptr, 10)); return "ok"; }
  if (op == "upd") { objs.at(atoi(w.at(1).c_str()))->upd(w.at(2), w.at(3)); return "ok"; }
  if (op == "upd2") {     // same update on original and restored object under the same draws
    uint64_t sd = strtoull(w.at(5).c_str(), nullptr, 10);
    Any& a = *objs.at(atoi(w.at(1).c_str())); Any& b = *objs.at(atoi(w.at(2).c_str()));
    bool ta = false, tb = false;
    reseed(sd); try { a.upd(w.at(3), w.at(4)); } catch (const std::exception&) { ta = true; }
    reseed(sd); try { b.upd(w.at(3), w.at(4)); } catch (const std::exception&) { tb = true; }
    if (ta != tb) return ta ? "ASYM original-throws" : "ASYM restored-throws";
    return ta ? "throw" : "ok";
  }
  if (op == "merge2") {   // same merge into original and restored object under the same draws
    uint64_t sd = strtoull(w.at(4).c_str(), nullptr, 10);
    Any& a = *objs.at(atoi(w.at(1).c_str())); Any& b = *objs.at(atoi(w.at(2).c_str())); Any& src = *objs.at(atoi(w.at(3).c_str()));
    bool ta = false, tb = false;
    reseed(sd); try { a.merge(src); } catch (const std::exception&) { ta = true; }
    reseed(sd); try { b.merge(src); } catch (const std::exception&) { tb = true; }
    if (ta != tb) return ta ? "ASYM original-throws" : "ASYM restored-throws";
    return ta ? "throw" : "ok";
  }
  if (op == "merge") { objs.at(atoi(w.at(1).c_str()))->merge(*objs.at(atoi(w.at(2).c_str()))); return "ok"; }
  if (op == "result") { auto r = objs.at(atoi(w.at(1).c_str()))->result(); objs[atoi(w.at(2).c_str())] = std::move(r); return "ok"; }
  if (op == "fork") {
    Any& o = *objs.at(atoi(w.at(1).c_str()));
    if (!o.diag().empty()) return "DIAG " + o.diag();      // the state itself is defective (reported by the next `ser`)
    std::unique_ptr<Any> r;
    if (w.at(3) == "b") { Bytes b = o.ser(0); r = o.from_bytes(b.data(), b.size()); }
    else { std::string s = o.ser_stream(); std::istringstream is(s, std::ios::binary); r = o.from_stream(is); }
    objs[atoi(w.at(2).c_str())] = std::move(r);
    return "ok";
  }
  if (op == "eq") {
    Any& oa = *objs.at(atoi(w.at(1).c_str())); Any& ob = *objs.at(atoi(w.at(2).c_str()));
    std::string a, b;
    try { a = oa.content(); b = ob.content(); } catch (const std::exception&) { return "EQ X api-throws"; }
    if (a.compare(0, 6, "CRASH:") == 0 || b.compare(0, 6, "CRASH:") == 0) { std::string n = g_notes; g_notes.clear(); return "EQ X " + n; }
    return a == b ? "EQ 1" : "EQ 0 | " + a + " | " + b;
  }
  if (op == "content") { return objs.at(atoi(w.at(1).c_str()))->content(); }
  if (op == "ser") {
    Any& o = *objs.at(atoi(w.at(1).c_str()));
    // the whole battery runs in a child: a sanitizer abort inside a writer/reader under VALID use is reported, not fatal
    std::string line = guarded("ser", [&]() {
      Bytes img = o.ser(0);
      std::string content;
      try { content = o.content(); } catch (const std::exception&) { return std::string("APITHROW"); }
      std::string checks = c09_checks(o, img);
      const std::string ex = o.extra();
      return "IMG " + o.kind() + " " + hexs(img) + " | " + content + " | " + checks + (ex.empty() ? "" : " | " + ex);
    });
    if (line.compare(0, 6, "CRASH:") == 0) { g_notes.clear(); return "SERCRASH " + o.kind() + " " + line.substr(6); }
    if (line == "APITHROW") return "SERCRASH " + o.kind() + " api-throws";      // a public getter of a valid object throws
    return line;
  }
  if (op == "load") {
    auto proto = make(w.at(1), {});
    Bytes img = vh::bytes_of_hex(w.at(2));
    std::vector<std::string> bad;
    std::string cb = "<throw>", cs = "<throw>";
    std::unique_ptr<Any> ob, os_;
    try { ob = proto->from_bytes(img.data(), img.size()); } catch (const std::exception&) { bad.push_back("bytes-throws"); }
    try { std::string s(img.begin(), img.end()); std::istringstream is(s, std::ios::binary); os_ = proto->from_stream(is); }
    catch (const std::exception&) { bad.push_back("stream-throws"); }
    if (ob) { try { cb = ob->content(); } catch (const std::exception&) { bad.push_back("restored-bytes-api-throws"); } }
    if (os_) { try { cs = os_->content(); } catch (const std::exception&) { bad.push_back("restored-stream-api-throws"); } }
    if (cb != cs) bad.push_back("bytes-ne-stream");
    std::string chk = "ok";
    if (!bad.empty()) { chk = "FAIL:"; for (size_t i = 0; i < bad.size(); ++i) { if (i) chk += ","; chk += bad[i]; } }
    if (ob && os_ && ob->extra() != os_->extra()) chk = (chk == "ok" ? std::string("FAIL:") : chk + ",") + "bytes-ne-stream-marks";
    const std::string ex = ob ? ob->extra() : "";
    return "IMG " + w.at(1) + " " + hexs(img) + " | " + cb + " | " + chk + (ex.empty() ? "" : " | " + ex);
  }
  if (op == "probe") {     // probe <kind> <hex> <b|s>: deserialize + getters/updates in THIS process (debugging aid, not used by the checks)
    auto proto = make(w.at(1), {});
    Bytes img = vh::bytes_of_hex(w.at(2));
    std::unique_ptr<Any> o;
    if (w.at(3) == "b") { uint8_t* buf = (uint8_t*)malloc(img.size()); memcpy(buf, img.data(), img.size()); o = proto->from_bytes(buf, img.size()); free(buf); }
    else { std::string sdat(img.begin(), img.end()); std::istringstream is(sdat, std::ios::binary); poison_stack(0xFE); o = proto->from_stream(is); }
    std::string c = o->content();
    o->exercise();
    return "accepted " + c;
  }
  if (op == "c11") { Any& o = *objs.at(atoi(w.at(1).c_str())); return c11_line(o, o.ser(0)); }
  if (op == "c11x") { auto proto = make(w.at(1), {}); return c11_line(*proto, vh::bytes_of_hex(w.at(2))); }
  throw std::runtime_error("bad op");
}

int main() {
  random_utils::verif_source = &g_src;
  return vh::run_loop(step);
}

// Correspondence harness: t-digest (C17).  Mirrors lean/DSModel/TDigest/Driver.lean (same ops, same observations).
// Public API only: update, merge, compress, get_rank, get_quantile, get_CDF, get_PMF, get_total_weight,
// get_min_value, get_max_value, is_empty, serialize / get_serialized_size_bytes.  The centroid list, the
// buffer and the reverse-merge flag are read from the image produced by serialize(0, with_buffer = true),
// which has no side effect on the digest.
#include "common.hpp"
#include "tdigest.hpp"

using namespace datasketches;
using vh::split;

struct Obj {
  std::unique_ptr<tdigest<double>> d;
  std::unique_ptr<tdigest<float>> f;
};
static std::map<int, Obj> objs;

template<typename T> struct Tr;
template<> struct Tr<double> {
  using W = uint64_t;
  static std::string hex(double x) { return vh::hex_f64(x); }
  static bool parse(const std::string& s, double& out) { if (s.size() != 16) return false; out = vh::f64_of_hex(s); return true; }
  static uint64_t bits(double x) { uint64_t u; memcpy(&u, &x, 8); return u; }
};
template<> struct Tr<float> {
  using W = uint32_t;
  static std::string hex(float x) { return vh::hex_f32(x); }
  static bool parse(const std::string& s, float& out) { if (s.size() != 8) return false; out = vh::f32_of_hex(s); return true; }
  static uint64_t bits(float x) { uint32_t u; memcpy(&u, &x, 4); return u; }
};

template<typename T> struct Image {
  bool rev = false;
  std::vector<T> means;
  std::vector<uint64_t> weights;
  std::vector<T> buf;
};

// parse serialize(0, true): [0] preamble longs, [1] serial version, [2] type, [3..4] k, [5] flags, [6..7] unused,
// then (multi-value only) u32 #centroids, u32 #buffered, T min, T max, (T mean, W weight)[], T buffer[]
template<typename T>
static Image<T> image_of(const tdigest<T>& td) {
  using W = typename Tr<T>::W;
  Image<T> im;
  auto bytes = td.serialize(0, true);
  const uint8_t* p = bytes.data();
  im.rev = (p[5] & 4) != 0;
  if (bytes.size() <= 8 + sizeof(T)) return im;   // empty or single value
  uint32_t nc, nb;
  memcpy(&nc, p + 8, 4); memcpy(&nb, p + 12, 4);
  const uint8_t* q = p + 16 + 2 * sizeof(T);
  for (uint32_t i = 0; i < nc; ++i) {
    T m; W w; memcpy(&m, q, sizeof(T)); memcpy(&w, q + sizeof(T), sizeof(W)); q += sizeof(T) + sizeof(W);
    im.means.push_back(m); im.weights.push_back(w);
  }
  for (uint32_t i = 0; i < nb; ++i) { T v; memcpy(&v, q, sizeof(T)); q += sizeof(T); im.buf.push_back(v); }
  return im;
}

template<typename T>
static std::string state_str(const tdigest<T>& td) {
  std::ostringstream os;
  auto im = image_of(td);
  const uint64_t tw = td.get_total_weight();
  if (td.is_empty()) { os << "S 0 " << (im.rev ? 1 : 0) << " E"; return os.str(); }
  if (tw == 1) { os << "S 1 " << (im.rev ? 1 : 0) << " V " << Tr<T>::hex(td.get_min_value()); return os.str(); }
  std::vector<uint64_t> l;
  for (size_t i = 0; i < im.means.size(); ++i) { l.push_back(Tr<T>::bits(im.means[i])); l.push_back(im.weights[i]); }
  for (T v : im.buf) l.push_back(Tr<T>::bits(v));
  os << "S " << tw << " " << (im.rev ? 1 : 0) << " " << im.means.size() << " " << im.buf.size() << " "
     << Tr<T>::hex(td.get_min_value()) << " " << Tr<T>::hex(td.get_max_value()) << " " << vh::hex_u64(vh::fold64(l));
  return os.str();
}

template<typename T>
static std::string dump_str(const tdigest<T>& td) {
  auto im = image_of(td);
  std::ostringstream os;
  os << "D";
  for (size_t i = 0; i < im.means.size(); ++i) os << " " << Tr<T>::hex(im.means[i]) << ":" << im.weights[i];
  os << " B";
  for (T v : im.buf) os << " " << Tr<T>::hex(v);
  return os.str();
}

struct bad_op {};

template<typename T>
static std::vector<T> parse_all(const std::vector<std::string>& w, size_t from) {
  std::vector<T> r;
  for (size_t i = from; i < w.size(); ++i) { T v; if (!Tr<T>::parse(w[i], v)) throw bad_op(); r.push_back(v); }
  return r;
}

static bool to_nat(const std::string& s, unsigned long& out) {
  if (s.empty()) return false;
  for (char c : s) if (c < '0' || c > '9') return false;
  out = strtoul(s.c_str(), nullptr, 10); return true;
}

// the result part of one op on one digest (may throw: std::exception -> "throw", bad_op -> "bad-op")
template<typename T>
static std::string op_result(tdigest<T>& td, const std::vector<std::string>& w, const tdigest<T>* other) {
  const std::string& op = w[0];
  const size_t nargs = w.size() - 2;
  std::ostringstream os;
  if (op == "upd" && nargs == 1) { auto v = parse_all<T>(w, 2); td.update(v[0]); return "U"; }
  if (op == "updn") { auto v = parse_all<T>(w, 2); for (T x : v) td.update(x); return "U"; }
  if (op == "compress" && nargs == 0) { td.compress(); return "C"; }
  if (op == "ser" && nargs == 0) {
    const size_t sz = td.get_serialized_size_bytes(false);
    auto bytes = td.serialize(0, false);
    if (bytes.size() != sz) throw std::logic_error("serialized size mismatch");
    return "Z";
  }
  if (op == "dump" && nargs == 0) return dump_str(td);
  if (op == "merge" && nargs == 1) { if (!other) throw bad_op(); td.merge(*other); return "M"; }
  if (op == "rank" && nargs == 1) { auto v = parse_all<T>(w, 2); return "R " + vh::hex_f64(td.get_rank(v[0])); }
  if (op == "quant" && nargs == 1) { auto v = parse_all<double>(w, 2); return "Q " + Tr<T>::hex(td.get_quantile(v[0])); }
  if (op == "cdf" || op == "pmf") {
    auto v = parse_all<T>(w, 2);
    auto r = op == "cdf" ? td.get_CDF(v.data(), (uint32_t)v.size()) : td.get_PMF(v.data(), (uint32_t)v.size());
    os << (op == "cdf" ? "F " : "P ");
    for (size_t i = 0; i < r.size(); ++i) os << (i ? " " : "") << vh::hex_f64(r[i]);
    return os.str();
  }
  if (op == "rgrid" && nargs == 1) {
    unsigned long n; if (!to_nat(w[2], n)) throw bad_op();
    if (td.is_empty()) { td.get_rank(0); }
    td.get_rank(td.get_min_value());   // induces the compress
    const T mn = td.get_min_value(), mx = td.get_max_value();
    auto im = image_of(td);
    std::vector<T> means = td.get_total_weight() == 1 ? std::vector<T>{mn} : im.means;
    std::vector<T> pts;
    pts.push_back(mn - (T)1); pts.push_back(mn);
    for (T m : means) pts.push_back(m);
    for (size_t i = 0; i + 1 < means.size(); ++i) pts.push_back((means[i] + means[i + 1]) / (T)2);
    pts.push_back(mx); pts.push_back(mx + (T)1);
    for (unsigned long j = 0; j <= n; ++j) pts.push_back(mn + (mx - mn) * (T)j / (T)n);
    os << "G";
    for (T p : pts) { const double r = td.get_rank(p); os << " " << Tr<T>::hex(p) << " " << vh::hex_f64(r); }
    return os.str();
  }
  if (op == "qgrid" && nargs == 1) {
    unsigned long n; if (!to_nat(w[2], n)) throw bad_op();
    td.get_quantile(0.0);              // throws when empty; induces the compress
    auto im = image_of(td);
    std::vector<double> ranks;
    for (unsigned long j = 0; j <= n; ++j) ranks.push_back((double)j / (double)n);
    if (td.get_total_weight() != 1) {
      const double W = (double)td.get_total_weight();
      double S = 0;
      for (uint64_t wt : im.weights) {
        const double P = S + (double)wt / 2.0;
        for (double r : {(P - 0.5) / W, P / W, (P + 0.5) / W}) if (0.0 <= r && r <= 1.0) ranks.push_back(r);
        S = S + (double)wt;
      }
    }
    os << "H";
    for (double r : ranks) { const T q = td.get_quantile(r); os << " " << vh::hex_f64(r) << " " << Tr<T>::hex(q); }
    return os.str();
  }
  throw bad_op();
}

template<typename T>
static std::string run_op(tdigest<T>& td, const std::vector<std::string>& w, const tdigest<T>* other) {
  std::string res;
  try { res = op_result(td, w, other); }
  catch (const bad_op&) { return "bad-op"; }
  catch (const std::exception& e) { res = "throw"; if (getenv("VH_VERBOSE")) std::cerr << e.what() << "\n"; }
  return res + " | " + state_str(td);
}

static std::string step(const std::vector<std::string>& w) {
  const std::string& op = w[0];
  if (op == "consts") {   // translator cross-check: the constants as compiled
    std::ostringstream os;
    os << "K " << tdigest<double>::DEFAULT_K << " " << vh::hex_f64(scale_function().normalizer(20.0, 7.0)) << " "
       << vh::hex_f64(scale_function().normalizer(400.0, 1000000.0)) << " " << vh::hex_f64(scale_function().max(0.3, 0.5));
    return os.str();
  }
  if (op == "new") {
    if (w.size() != 4) return "bad-op";
    unsigned long id, k;
    if (!to_nat(w[1], id) || !to_nat(w[3], k)) return "bad-op";
    if (k > 65535) return "throw";
    Obj o;
    if (w[2] == "d") { o.d.reset(new tdigest<double>((uint16_t)k)); objs[(int)id] = std::move(o); return "N | " + state_str(*objs[(int)id].d); }
    if (w[2] == "f") { o.f.reset(new tdigest<float>((uint16_t)k)); objs[(int)id] = std::move(o); return "N | " + state_str(*objs[(int)id].f); }
    return "bad-op";
  }
  if (w.size() < 2) return "bad-op";
  unsigned long id;
  if (!to_nat(w[1], id) || !objs.count((int)id)) return "bad-op";
  Obj& o = objs[(int)id];
  Obj* other = nullptr;
  if (op == "merge" && w.size() == 3) {
    unsigned long j;
    if (to_nat(w[2], j) && objs.count((int)j)) other = &objs[(int)j];
  }
  if (o.d) return run_op<double>(*o.d, w, other && other->d ? other->d.get() : nullptr);
  return run_op<float>(*o.f, w, other && other->f ? other->f.get() : nullptr);
}

int main() { return vh::run_loop(step); }

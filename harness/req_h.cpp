// Correspondence harness: REQ sketch (C07 / C08 parts "req").
//   req_h            line protocol, one observation per op (coins supplied by `coins <bits>` lines)
//   req_h enum       reads a whole short history, enumerates EVERY coin vector, prints one line per leaf
// Items: req_sketch<double> with integer-valued items (and NaN for the ignored-update case).
#include "common.hpp"
#include "req_sketch.hpp"

using namespace datasketches;
using vh::split;
typedef req_sketch<double> sketch_t;

// coin source: bits from the script, then `false`; every draw is counted
struct coin_source : public random_utils::verif_random_source {
  std::vector<bool> bits; size_t pos = 0; uint64_t used = 0;
  bool bit() override { ++used; return pos < bits.size() ? bits[pos++] : false; }
  double unit() override { throw std::logic_error("unexpected unit() draw in REQ"); }
  uint64_t below(uint64_t) override { throw std::logic_error("unexpected below() draw in REQ"); }
};
static coin_source SRC;

static std::map<int, std::unique_ptr<sketch_t>> objs;

static sketch_t& get(int id) {
  auto it = objs.find(id);
  if (it == objs.end()) throw std::runtime_error("no such object");
  return *it->second;
}

static std::string istr(double d) { char b[40]; snprintf(b, sizeof b, "%lld", (long long) d); return b; }
static std::string join(const std::vector<std::string>& v) {
  if (v.empty()) return "-";
  std::string s; for (size_t i = 0; i < v.size(); ++i) { if (i) s += ","; s += v[i]; } return s;
}

static std::string observe(const sketch_t& s) {
  std::ostringstream os;
  os << "S n=" << s.get_n();
  if (s.is_empty()) os << " min=- max=-";
  else os << " min=" << istr(s.get_min_item()) << " max=" << istr(s.get_max_item());
  const uint32_t ret = s.get_num_retained();
  os << " ret=" << ret << " est=" << (s.is_estimation_mode() ? 1 : 0) << " f=" << SRC.used;
  // iterate begin() .. end(), at most num_retained steps (an iterator that does not reach end() is reported, not followed)
  std::vector<std::pair<uint64_t, uint32_t>> rle; std::vector<std::string> l0, hi;
  auto it = s.begin(); const auto end = s.end();
  uint32_t cnt = 0;
  while (cnt < ret && it != end) {
    const auto p = *it;
    if (!rle.empty() && rle.back().first == p.second) ++rle.back().second; else rle.push_back({p.second, 1});
    if (p.second == 1) l0.push_back(istr(p.first)); else hi.push_back(istr(p.first));
    ++it; ++cnt;
  }
  os << " atend=" << ((it == end) ? 1 : 0);
  std::vector<std::string> ws;
  for (auto& r : rle) ws.push_back(std::to_string(r.first) + "x" + std::to_string(r.second));
  os << " w=" << join(ws) << " l0=" << join(l0) << " | " << join(hi);
  return os.str();
}

static std::string view_str(const sketch_t& s) {
  auto v = s.get_sorted_view();
  std::vector<std::string> es;
  for (auto it = v.begin(); it != v.end(); ++it) { const auto p = *it; es.push_back(istr(p.first) + ":" + std::to_string(p.second)); }
  return join(es);
}

static double item_of(const std::string& lit) { return lit == "nan" ? std::nan("") : (double) strtoll(lit.c_str(), nullptr, 10); }

// state-changing ops shared by both modes; returns the id of the sketch to observe
static int apply_op(const std::vector<std::string>& w) {
  const std::string& op = w[0];
  if (op == "new") {
    int id = atoi(w[1].c_str());
    objs[id].reset(new sketch_t((uint16_t) atoi(w[2].c_str()), w[3] == "1"));
    return id;
  }
  if (op == "upd") { int id = atoi(w[1].c_str()); get(id).update(item_of(w[2])); return id; }
  if (op == "merge") { int i = atoi(w[1].c_str()), j = atoi(w[2].c_str()); if (i == j) throw std::runtime_error("self merge"); get(i).merge(get(j)); return i; }
  if (op == "mergemv") {
    int i = atoi(w[1].c_str()), j = atoi(w[2].c_str()); if (i == j) throw std::runtime_error("self merge");
    sketch_t tmp(get(j)); get(i).merge(std::move(tmp)); return i;
  }
  if (op == "copy") {
    int i = atoi(w[1].c_str()), j = atoi(w[2].c_str());
    sketch_t& src = get(i);
    if (objs.count(j) && (atoi(w[1].c_str()) % 2 == 0)) *objs[j] = src;      // copy assignment on an existing object
    else objs[j].reset(new sketch_t(src));                                  // copy construction
    return i;
  }
  throw std::runtime_error("bad op");
}

static std::string step(const std::vector<std::string>& w) {
  const std::string& op = w[0];
  if (op == "coins") {
    SRC.bits.clear(); SRC.pos = 0;
    for (char c : w[1]) if (c == '0' || c == '1') SRC.bits.push_back(c == '1');
    return "C f=" + std::to_string(SRC.used);
  }
  if (op == "new" || op == "upd" || op == "merge" || op == "mergemv" || op == "copy") {
    int id = apply_op(w);
    return observe(get(id));
  }
  if (op == "view") {
    const sketch_t& s = get(atoi(w[1].c_str()));
    auto v = s.get_sorted_view();
    uint64_t tot = 0; size_t sz = 0;
    for (auto it = v.begin(); it != v.end(); ++it) { tot = (*it).second; ++sz; }
    return "V tot=" + std::to_string(tot) + " sz=" + std::to_string(sz) + " | " + view_str(s);
  }
  if (op == "rank") {
    const sketch_t& s = get(atoi(w[1].c_str()));
    const double x = item_of(w[2]); const bool inc = w[3] == "1";
    const double direct = s.get_rank(x, inc);
    const double via = s.get_sorted_view().get_rank(x, inc);
    return "R | " + vh::hex_f64(direct) + " " + vh::hex_f64(via);
  }
  if (op == "quant") {
    const sketch_t& s = get(atoi(w[1].c_str()));
    const double q = s.get_quantile(vh::f64_of_hex(w[2]), w[3] == "1");
    return "Q | " + istr(q);
  }
  if (op == "cdf") {
    const sketch_t& s = get(atoi(w[1].c_str()));
    const bool inc = w[2] == "1";
    std::vector<double> pts; for (size_t i = 3; i < w.size(); ++i) pts.push_back(item_of(w[i]));
    auto cdf = s.get_CDF(pts.data(), (uint32_t) pts.size(), inc);
    auto pmf = s.get_PMF(pts.data(), (uint32_t) pts.size(), inc);
    std::string o = "D |";
    for (double d : cdf) o += " " + vh::hex_f64(d);
    o += " ;";
    for (double d : pmf) o += " " + vh::hex_f64(d);
    return o;
  }
  if (op == "bounds") {
    const sketch_t& s = get(atoi(w[1].c_str()));
    const double r = vh::f64_of_hex(w[2]); const uint8_t nsd = (uint8_t) atoi(w[3].c_str());
    return "B k=" + std::to_string(s.get_k()) + " " + vh::hex_f64(s.get_rank_lower_bound(r, nsd)) + " " + vh::hex_f64(s.get_rank_upper_bound(r, nsd));
  }
  throw std::runtime_error("bad op");
}

// ---------------------------------------------------------------- enumeration of the coin tree
typedef std::vector<std::vector<std::string>> hist_t;

// runs the first `nops` ops with the coin script `v`; returns flips used; optionally flips after each op
static uint64_t run_history(const hist_t& h, size_t nops, const std::vector<bool>& v, std::vector<uint64_t>* after) {
  objs.clear();
  SRC.bits = v; SRC.pos = 0; SRC.used = 0;
  for (size_t i = 0; i < nops; ++i) {
    try { apply_op(h[i]); } catch (const std::exception&) {}
    if (after) after->push_back(SRC.used);
  }
  return SRC.used;
}

static std::string leaf_line() {
  std::ostringstream os;
  os << "L " << SRC.used << " ;";
  bool first = true;
  for (auto& kv : objs) {   // std::map: ascending ids
    os << (first ? " " : " ; ") << kv.first << ":" << view_str(*kv.second);
    first = false;
  }
  return os.str();
}

static int enum_main() {
  hist_t h; size_t max_flips = 12;
  std::string line;
  while (std::getline(std::cin, line)) {
    auto w = split(line);
    if (w.empty() || w[0][0] == '#') continue;
    if (w[0] == "maxflips") { max_flips = (size_t) atoi(w[1].c_str()); continue; }
    if (w[0] == "upd" && w.size() > 2 && w[2] == "nan") continue;
    if (w[0] == "new" || w[0] == "upd" || w[0] == "merge" || w[0] == "mergemv" || w[0] == "copy") h.push_back(w);
  }
  std::vector<uint64_t> after;
  run_history(h, h.size(), {}, &after);
  size_t nops = 0;
  while (nops < after.size() && after[nops] <= max_flips) ++nops;
  const uint64_t f0 = run_history(h, nops, {}, nullptr);
  std::cout << "H ops=" << nops << " flips0=" << f0 << "\n";
  std::vector<std::string> leaves;
  std::vector<bool> v;
  const size_t limit = (size_t) 1 << (max_flips + 1);
  while (true) {
    if (leaves.size() >= limit) { leaves.push_back("L overflow"); break; }
    const uint64_t used = run_history(h, nops, v, nullptr);
    leaves.push_back(leaf_line());
    std::vector<bool> full(v);
    full.resize(used, false);
    while (!full.empty() && full.back()) full.pop_back();
    if (full.empty()) break;
    full.back() = true;
    v = full;
  }
  std::sort(leaves.begin(), leaves.end());
  for (auto& l : leaves) std::cout << l << "\n";
  std::cout.flush();
  objs.clear();
  return 0;
}

int main(int argc, char** argv) {
  random_utils::verif_source = &SRC;
  if (argc > 1 && std::string(argv[1]) == "enum") return enum_main();
  return vh::run_loop(step);
}

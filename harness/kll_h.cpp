// Correspondence harness: KLL sketch (C07/C08 part "kll").  Same line protocol as lean/DSModel/Kll/Driver.lean.
//   coins <bits>            install the coin sequence consumed by random_bit (hook H1); exhausted -> 0
//   new <id> <i|d|s> <k>    int64 / double (hex bits) / std::string with a length-first comparator
//   upd <id> <lit> | merge <i> <j> [rv] | copy <i> <j>
//   q <id> view | rank <lit> <incl> | quant <hexrank> <incl> | cdf <incl> <lit>* | pmf <incl> <lit>* | err <pmf>
//   consts | cap <k> <numLevels>
//   tbegin ... tend [maxLeaves]   record state-changing ops, then run them under EVERY coin vector
#include "common.hpp"
#include "kll_sketch.hpp"

using namespace datasketches;
using vh::split;

struct LenFirst {
  bool operator()(const std::string& a, const std::string& b) const {
    return a.size() < b.size() || (a.size() == b.size() && a < b);
  }
};

struct CoinSrc : random_utils::verif_random_source {
  std::vector<bool> bits; size_t pos = 0; uint64_t used = 0;
  bool bit() override { used++; if (pos < bits.size()) return bits[pos++]; return false; }
  double unit() override { throw std::logic_error("kll harness: unexpected unit() draw"); }
  uint64_t below(uint64_t) override { throw std::logic_error("kll harness: unexpected below() draw"); }
};
static CoinSrc src;

using SkI = kll_sketch<int64_t>;
using SkD = kll_sketch<double>;
using SkS = kll_sketch<std::string, LenFirst>;

template<typename T> struct IO;
template<> struct IO<int64_t> {
  static int64_t parse(const std::string& s) { return (int64_t)strtoll(s.c_str(), nullptr, 10); }
  static std::string render(int64_t x) { return std::to_string((long long)x); }
};
template<> struct IO<double> {
  static double parse(const std::string& s) { return vh::f64_of_hex(s); }
  static std::string render(double x) { return vh::hex_f64(x); }
};
template<> struct IO<std::string> {
  static std::string parse(const std::string& s) { return s; }
  static std::string render(const std::string& x) { return x; }
};

struct Obj {
  char ty = 0;
  std::unique_ptr<SkI> i; std::unique_ptr<SkD> d; std::unique_ptr<SkS> s;
};
typedef std::map<int, Obj> Objs;

template<typename SK, typename T>
static std::string obs(const SK& sk) {
  std::ostringstream os;
  os << "S " << sk.get_n() << " ";
  if (sk.is_empty()) os << "- -"; else os << IO<T>::render(sk.get_min_item()) << " " << IO<T>::render(sk.get_max_item());
  os << " " << sk.get_num_retained() << " " << (sk.is_estimation_mode() ? 1 : 0) << " I";
  for (auto it = sk.begin(); it != sk.end(); ++it) { auto p = *it; os << " " << IO<T>::render(p.first) << ":" << p.second; }
  return os.str();
}

template<typename SK, typename T>
static std::string view_str(const SK& sk) {
  std::ostringstream os;
  auto v = sk.get_sorted_view();
  uint64_t total = 0;
  std::ostringstream body;
  for (auto it = v.begin(); it != v.end(); ++it) { auto p = *it; body << " " << IO<T>::render(p.first) << ":" << p.second; total = p.second; }
  os << "V " << total << body.str();
  return os.str();
}

static std::string obs_obj(const Obj& o) {
  if (o.ty == 'i') return obs<SkI, int64_t>(*o.i);
  if (o.ty == 'd') return obs<SkD, double>(*o.d);
  return obs<SkS, std::string>(*o.s);
}

static std::string floats(const char* tag, const std::vector<double>& v) {
  std::string s(tag);
  for (double x : v) s += " " + vh::hex_f64(x);
  return s;
}

template<typename SK, typename T>
static std::string query(SK& sk, const std::vector<std::string>& w) {
  const std::string& q = w[2];
  if (q == "view") return view_str<SK, T>(sk);
  if (q == "rank") return "R " + vh::hex_f64(sk.get_rank(IO<T>::parse(w[3]), w[4] == "1"));
  if (q == "quant") { T x = sk.get_quantile(vh::f64_of_hex(w[3]), w[4] == "1"); return "Q " + IO<T>::render(x); }
  if (q == "cdf" || q == "pmf") {
    std::vector<T> sp;
    for (size_t j = 4; j < w.size(); ++j) sp.push_back(IO<T>::parse(w[j]));
    auto r = q == "cdf" ? sk.get_CDF(sp.data(), (uint32_t)sp.size(), w[3] == "1") : sk.get_PMF(sp.data(), (uint32_t)sp.size(), w[3] == "1");
    return floats(q == "cdf" ? "C" : "P", std::vector<double>(r.begin(), r.end()));
  }
  if (q == "err") return "E " + vh::hex_f64(sk.get_normalized_rank_error(w[3] == "1"));
  return "bad-op";
}

// state-changing operations (also used per leaf in tree mode)
static std::string apply_op(Objs& objs, const std::vector<std::string>& w) {
  const std::string& op = w[0];
  if (op == "new" && w.size() == 4) {
    int id = atoi(w[1].c_str()); long k = atol(w[3].c_str());
    if (k < 0 || k > 65535) throw std::invalid_argument("k does not fit uint16_t");   // the API takes uint16_t
    Obj o; o.ty = w[2][0];
    if (o.ty == 'i') o.i.reset(new SkI((uint16_t)k));
    else if (o.ty == 'd') o.d.reset(new SkD((uint16_t)k));
    else if (o.ty == 's') o.s.reset(new SkS((uint16_t)k));
    else return "bad-op";
    objs[id] = std::move(o);
    return obs_obj(objs[id]);
  }
  if (op == "upd" && w.size() == 3) {
    auto it = objs.find(atoi(w[1].c_str())); if (it == objs.end()) return "bad-op";
    Obj& o = it->second;
    if (o.ty == 'i') o.i->update(IO<int64_t>::parse(w[2]));
    else if (o.ty == 'd') o.d->update(IO<double>::parse(w[2]));
    else o.s->update(IO<std::string>::parse(w[2]));
    return obs_obj(o);
  }
  if (op == "updn" && w.size() == 6) {   // updn <id> <count> <start> <stride> <mod>: v_j = (start + j*stride) % mod
    auto it = objs.find(atoi(w[1].c_str())); if (it == objs.end()) return "bad-op";
    Obj& o = it->second;
    const long cnt = atol(w[2].c_str()); const long long st = atoll(w[3].c_str()), sd = atoll(w[4].c_str()), md = atoll(w[5].c_str());
    if (md <= 0 || o.ty == 's') return "bad-op";
    for (long j = 0; j < cnt; ++j) {
      const long long v = (st + j * sd) % md;
      if (o.ty == 'i') o.i->update((int64_t)v); else o.d->update((double)v);
    }
    return obs_obj(o);
  }
  if (op == "merge" && w.size() >= 3) {
    auto a = objs.find(atoi(w[1].c_str())), b = objs.find(atoi(w[2].c_str()));
    if (a == objs.end() || b == objs.end() || a->second.ty != b->second.ty || a == b) return "bad-op";
    const bool rv = w.size() > 3 && w[3] == "rv";
    Obj& x = a->second; Obj& y = b->second;
    if (x.ty == 'i') { if (rv) x.i->merge(std::move(*y.i)); else x.i->merge(*y.i); }
    else if (x.ty == 'd') { if (rv) x.d->merge(std::move(*y.d)); else x.d->merge(*y.d); }
    else { if (rv) x.s->merge(std::move(*y.s)); else x.s->merge(*y.s); }
    return obs_obj(x);
  }
  if (op == "copy" && w.size() == 3) {
    auto a = objs.find(atoi(w[1].c_str())); if (a == objs.end()) return "bad-op";
    Obj o; o.ty = a->second.ty;
    if (o.ty == 'i') o.i.reset(new SkI(*a->second.i));
    else if (o.ty == 'd') o.d.reset(new SkD(*a->second.d));
    else o.s.reset(new SkS(*a->second.s));
    const int dst = atoi(w[2].c_str());
    objs[dst] = std::move(o);
    return obs_obj(objs[dst]);
  }
  return "bad-op";
}

static std::string leaf_views(Objs& objs) {
  std::string s;
  for (auto& kv : objs) {
    Obj& o = kv.second;
    s += " | " + std::to_string(kv.first) + " ";
    if (o.ty == 'i') s += std::to_string(o.i->get_n()) + " " + view_str<SkI, int64_t>(*o.i);
    else if (o.ty == 'd') s += std::to_string(o.d->get_n()) + " " + view_str<SkD, double>(*o.d);
    else s += std::to_string(o.s->get_n()) + " " + view_str<SkS, std::string>(*o.s);
  }
  return s;
}

// every coin vector: run, then advance the consumed bit string like an odometer
static std::string run_tree(const std::vector<std::vector<std::string>>& ops, size_t max_leaves) {
  std::vector<std::string> leaves;
  std::vector<bool> prefix;
  while (true) {
    Objs objs;
    src.bits = prefix; src.pos = 0; src.used = 0;
    std::string extra;
    for (size_t i = 0; i < ops.size(); ++i) {
      try { apply_op(objs, ops[i]); }
      catch (const std::exception&) { extra += " !throw@" + std::to_string(i); }
    }
    const uint64_t used = src.used;
    std::vector<bool> taken(prefix);
    taken.resize(used, false);                 // bits beyond the prefix were read as 0
    std::string leaf = "L " + std::to_string(used) + leaf_views(objs) + extra;
    leaves.push_back(leaf);
    if (leaves.size() > max_leaves) return "T overflow";
    // next vector: drop trailing ones, flip the last zero
    while (!taken.empty() && taken.back()) taken.pop_back();
    if (taken.empty()) break;
    taken.back() = true;
    prefix = taken;
  }
  std::sort(leaves.begin(), leaves.end());
  std::string out = "T " + std::to_string(leaves.size());
  for (auto& l : leaves) out += " ; " + l;
  return out;
}

static Objs g_objs;
static bool recording = false;
static std::vector<std::vector<std::string>> recorded;

static std::string step(const std::vector<std::string>& w) {
  const std::string& op = w[0];
  if (recording) {
    if (op == "tend") {
      recording = false;
      size_t maxl = w.size() > 1 ? (size_t)atol(w[1].c_str()) : 4096;
      std::vector<bool> keep_bits = src.bits; size_t keep_pos = src.pos; uint64_t keep_used = src.used;
      std::string r = run_tree(recorded, maxl);
      src.bits = keep_bits; src.pos = keep_pos; src.used = keep_used;
      return r;
    }
    recorded.push_back(w);
    return "rec";
  }
  if (op == "tbegin") { recording = true; recorded.clear(); return "rec"; }
  if (op == "coins" && w.size() == 2) {
    src.bits.clear(); src.pos = 0;
    for (char c : w[1]) if (c == '0' || c == '1') src.bits.push_back(c == '1');
    return "ok";
  }
  if (op == "consts") {
    std::ostringstream os;
    os << "CONSTS " << kll_constants::DEFAULT_K << " " << (unsigned)kll_constants::DEFAULT_M << " " << kll_constants::MIN_K << " " << kll_constants::MAX_K << " P3";
    for (size_t i = 0; i < sizeof(powers_of_three) / sizeof(powers_of_three[0]); ++i) os << " " << powers_of_three[i];
    return os.str();
  }
  if (op == "cap" && w.size() == 3) {
    const uint16_t k = (uint16_t)atoi(w[1].c_str()); const uint8_t L = (uint8_t)atoi(w[2].c_str());
    std::ostringstream os;
    os << "K " << kll_helper::compute_total_capacity(k, kll_constants::DEFAULT_M, L);
    for (uint8_t h = 0; h < L; ++h) os << " " << kll_helper::level_capacity(k, L, h, kll_constants::DEFAULT_M);
    return os.str();
  }
  if (op == "q" && w.size() >= 3) {
    auto it = g_objs.find(atoi(w[1].c_str())); if (it == g_objs.end()) return "bad-op";
    Obj& o = it->second;
    if (o.ty == 'i') return query<SkI, int64_t>(*o.i, w);
    if (o.ty == 'd') return query<SkD, double>(*o.d, w);
    return query<SkS, std::string>(*o.s, w);
  }
  std::string r = apply_op(g_objs, w);
  if (r.rfind("S ", 0) == 0) r += " F " + std::to_string(src.used);
  return r;
}

int main() {
  random_utils::verif_source = &src;
  return vh::run_loop(step);
}

// C19 harness: type-erased lifecycle interface + one adapter per sketch family.
#pragma once
#include "life_track.hpp"
#include "common_defs.hpp"
#include <memory>
#include <functional>

namespace life {

using W = std::vector<std::string>;

struct BadOp : std::runtime_error { explicit BadOp(const std::string& s) : std::runtime_error(s) {} };

// random source for the library's coins/draws: bits from the op line first, then a fixed LCG
struct CoinSource : datasketches::random_utils::verif_random_source {
  std::string bits; size_t pos = 0; uint64_t lcg;
  explicit CoinSource(const std::string& s, uint64_t seed = 12345) : lcg(seed * 6364136223846793005ULL + 1442695040888963407ULL) {
    for (char c : s) if (c == '0' || c == '1') bits.push_back(c);
    datasketches::random_utils::verif_source = this;
  }
  ~CoinSource() override { datasketches::random_utils::verif_source = nullptr; }
  uint64_t next() { lcg = lcg * 6364136223846793005ULL + 1442695040888963407ULL; return lcg >> 11; }
  bool bit() override { if (pos < bits.size()) return bits[pos++] == '1'; return false; }
  double unit() override { return (double)(next() & ((1ULL << 52) - 1)) / (double)(1ULL << 52); }
  uint64_t below(uint64_t n) override { return n == 0 ? 0 : next() % n; }
};

struct AnyObj {
  virtual ~AnyObj() {}
  virtual AnyObj* copy() const = 0;
  virtual AnyObj* move_new() = 0;
  virtual void copy_assign(const AnyObj& o) = 0;
  virtual void move_assign(AnyObj& o) = 0;
  virtual void update(const W& w) = 0;
  virtual void merge(AnyObj& o, bool by_move) = 0;
  virtual void query(const W& w) = 0;
  virtual std::string image() const = 0;
  virtual void serialize_op() = 0;
  virtual AnyObj* roundtrip(const W& w) const = 0;
  virtual void trim() = 0;
  virtual void reset() = 0;
};

struct FromImage {};

// allocator instance of the object whose operation is running (for adapters that build temporary operands)
inline int& cur_inst() { static int i = 1; return i; }

// merge by reference: alternately through a NON-const and a const lvalue (a forwarding-reference merge instantiates differently
// for the two, and neither may touch its source)
template<class S> inline void merge_lvalue(S& s, S& o) {
  static unsigned n = 0;
  if (++n % 2) s.merge(o); else s.merge(const_cast<const S&>(o));
}

// copy construction: a family may provide ccopy(const S&) -> S to route some copies through another constructor that must also
// yield an observationally equal object (the quantile families alternate with the type-converting constructors)
template<class F> auto ccopy_of(const typename F::S& s, int) -> decltype(F::ccopy(s)) { return F::ccopy(s); }
template<class F> typename F::S ccopy_of(const typename F::S& s, long) { return typename F::S(s); }

// F: struct with  S (sketch type), make(inst, w) -> S, update(S&, w), merge(S&, S&, bool), query(S&, w),
//    image(const S&) -> std::string, deser(const std::string&, inst) -> S, trim(S&), reset(S&)
template<class F> struct ObjT : AnyObj {
  typename F::S s;
  int inst;
  ObjT(int inst_, const W& w) : s(F::make(inst_, w)), inst(inst_) {}
  ObjT(const ObjT& o) : s(ccopy_of<F>(o.s, 0)), inst(o.inst) {}
  ObjT(ObjT&& o) : s(std::move(o.s)), inst(o.inst) {}
  ObjT(FromImage, const std::string& img, int inst_) : s(F::deser(img, inst_)), inst(inst_) {}
  static const ObjT& same(const AnyObj& o) {
    const ObjT* p = dynamic_cast<const ObjT*>(&o);
    if (!p) throw BadOp("objects of different families");
    return *p;
  }
  AnyObj* copy() const override { return new ObjT(*this); }
  AnyObj* move_new() override { return new ObjT(std::move(*this)); }
  void copy_assign(const AnyObj& o) override { F::cassign(s, same(o).s); }
  void move_assign(AnyObj& o) override { s = std::move(const_cast<ObjT&>(same(o)).s); }
  void update(const W& w) override { CoinSource cs(w.size() > 4 ? w[4] : "", w.size()); cur_inst() = inst; F::update(s, w); }
  void merge(AnyObj& o, bool mv) override { F::merge(s, const_cast<ObjT&>(same(o)).s, mv); }
  void query(const W& w) override { F::query(s, w); }
  std::string image() const override { return F::image(s); }
  void serialize_op() override { std::string b = F::image(s); (void)b; }
  AnyObj* roundtrip(const W& w) const override {
    Ledger& L = ledger();
    L.muted = true;
    std::string img;
    try { img = F::image(s); } catch (...) { L.muted = false; throw; }
    L.muted = false;
    if (w[0] == "serdecut" && w.size() > 3) img.resize(img.size() * (size_t)atoll(w[3].c_str()) / 100);   // truncated image: must be rejected
    return new ObjT(FromImage(), img, ledger().shared_inst ? 1 : atoi(w[2].c_str()) + 1);
  }
  void trim() override { F::trim(s); }
  void reset() override { F::reset(s); }
};

struct NoTrimReset {
  template<class S> static void trim(S&) { throw BadOp("unsupported"); }
  template<class S> static void reset(S&) { throw BadOp("unsupported"); }
  template<class S> static void cassign(S& a, const S& b) { a = b; }
};

} // namespace life

#include "life_fam_modelled.hpp"
#include "life_fam_monitored.hpp"

namespace life {

inline AnyObj* make_object(const std::string& fam, int id, const W& w) {
  int inst = ledger().shared_inst ? 1 : id + 1;
  AnyObj* o = make_modelled(fam, inst, w);
  if (o) return o;
  o = make_monitored(fam, inst, w);
  if (o) return o;
  throw BadOp("unknown family " + fam);
}

} // namespace life

// Wire-format harness of the Theta / Tuple / array-of-doubles group (C09 round trip, C10 layout + old images,
// C11 truncation / corruption).  Drives REAL sketches of the current headers; see docs/WIRE_GUIDE.md.
//
// ops (one observation line each)
//   new <id> <fam> <lgk> <p f32hex> <seed> [num_values]     fam: theta | tf64 | ti64 | tstr | tcst | aod
//   upd <id> <key u64> [summary ...]                         f64: 16 hex digits; i64: decimal; str/cst: hex bytes or -
//   compact <src> <dst> <ordered>                            update->compact or compact-of-compact
//   union <dst> <lgk> <ordered> <src>...  | inter <dst> <ordered> <src>... | anotb <dst> <ordered> <a> <b>
//   fromtheta <src theta> <dst> <fam> <ordered> <summary>    compact tuple sketch from a theta sketch
//   ser <id> <kind> [other]   -> IMG <kind> <seed> <hex> | <content> | ok   (or `| FAIL <check>,...`)
//   trunc <id> <kind>         -> TRUNC <kind> <seed> <hex> | <content> | <path>:<n cases>:<events> ; ...   (every prefix, isolated)
//   corrupt <id> <kind>       -> CORRUPT <kind> <seed> <hex> | <content> | npre=<k> | <path>:<verdict string>:<events> ; ...
//   load <id> <fam> <seed> <hex> [num_values]        compact object deserialized from an image (chosen hash values)
//   deser <fam> <kind> <seed> <hex> [num_values]  -> DES <content> | ok   (bytes, stream (and wrap) must agree)
//   BP pack <n> v0..v7 | BP unpack <n> <hex> | BPT <eb> v1..vk           real bit_packing.hpp routines
#include <cstdlib>
#include <new>
#include <atomic>

// sanitizer reports of the isolated cases are only classified (first line), never read by a person: symbolizing each of the
// (possibly thousands of) expected aborts costs 0.2 s apiece.  ASAN_OPTIONS=symbolize=1 in the environment overrides this.
extern "C" const char* __asan_default_options() { return "symbolize=0"; }
extern "C" const char* __ubsan_default_options() { return "symbolize=0"; }

// ---- tracking allocator with an allocation cap (global operator new/delete; malloc underneath keeps ASan red zones)
static long g_live = 0;
static size_t g_cap = (size_t)1 << 40;
static bool g_cap_hit = false;
static void* vh_alloc(size_t n) {
  if (n > g_cap) { g_cap_hit = true; throw std::bad_alloc(); }
  void* p = malloc(n ? n : 1);
  if (!p) throw std::bad_alloc();
  ++g_live;
  return p;
}
void* operator new(size_t n) { return vh_alloc(n); }
void* operator new[](size_t n) { return vh_alloc(n); }
void operator delete(void* p) noexcept { if (p) { --g_live; free(p); } }
void operator delete[](void* p) noexcept { if (p) { --g_live; free(p); } }
void operator delete(void* p, size_t) noexcept { if (p) { --g_live; free(p); } }
void operator delete[](void* p, size_t) noexcept { if (p) { --g_live; free(p); } }

#include "common.hpp"
#include <functional>
#include <sys/mman.h>
#include <sys/wait.h>
#include <unistd.h>
#include <fcntl.h>
#include <signal.h>
#include <time.h>
#include "theta_sketch.hpp"
#include "theta_union.hpp"
#include "theta_intersection.hpp"
#include "theta_a_not_b.hpp"
#include "tuple_sketch.hpp"
#include "tuple_union.hpp"
#include "tuple_intersection.hpp"
#include "tuple_a_not_b.hpp"
#include "array_of_doubles_sketch.hpp"
#include "bit_packing.hpp"

namespace datasketches {
// to_string(true) of the array-of-doubles sketch needs a printer for its summary type
static inline std::ostream& operator<<(std::ostream& os, const array<double>& a) { for (uint8_t i = 0; i < a.size(); ++i) os << (i ? "," : "") << a[i]; return os; }
}
using namespace datasketches;
using vh::split;
typedef std::vector<uint8_t> bytes_t;

static uint64_t u64_of(const std::string& s) { return strtoull(s.c_str(), nullptr, 10); }

// ------------------------------------------------------------------ isolation: run cases in forked children
struct Shared {
  volatile size_t cur;        // case being executed
  volatile size_t ndone;
  volatile size_t arena_used;
  char arena[1 << 20];        // "idx\ttext\n" records for non-trivial outcomes
};
enum { OC_NONE = 0, OC_THROW = 1, OC_ACCEPT = 2 };

// fn(i) returns "t" (exception), "a <content>" (accepted), or another outcome word (leak, alloc_cap ...).
// Returns one outcome string per case; a sanitizer abort / crash / hang of case i becomes asan|ubsan|alloc_cap|crash|timeout
// for that case and the remaining cases are run in a fresh child.
// Once more than `abort_budget` cases have aborted, only the cases with keep(i) are still run (the others are reported
// as "skipped"): an image whose reader aborts at nearly every length would otherwise cost one fork + report per length.
static std::vector<std::string> run_isolated(size_t n, const std::function<std::string(size_t)>& fn,
                                             int abort_budget = 1 << 30, const std::function<bool(size_t)>& keep = nullptr) {
  std::vector<std::string> out(n);
  if (n == 0) return out;
  Shared* sh = (Shared*)mmap(nullptr, sizeof(Shared), PROT_READ | PROT_WRITE, MAP_SHARED | MAP_ANONYMOUS, -1, 0);
  uint8_t* codes = (uint8_t*)mmap(nullptr, n, PROT_READ | PROT_WRITE, MAP_SHARED | MAP_ANONYMOUS, -1, 0);
  size_t start = 0;
  int restarts = 0;
  while (start < n && restarts < (int)n + 16) {
    sh->cur = start; sh->ndone = start;
    char errname[] = "/tmp/vh_wire_err_XXXXXX";
    int efd = mkstemp(errname);
    unlink(errname);
    fflush(stdout); fflush(stderr);
    pid_t pid = fork();
    if (pid == 0) {
      dup2(efd, 2);
      g_cap = (size_t)256 << 20;
      try { throw std::out_of_range(std::string("warm-up ") + std::to_string(n)); } catch (const std::exception&) {}
      for (size_t i = start; i < n; ++i) {
        sh->cur = i;
        if (restarts > abort_budget && keep && !keep(i)) { codes[i] = 6; sh->ndone = i + 1; continue; }
        std::string r = fn(i);
        if (r == "t") codes[i] = OC_THROW;
        else {
          codes[i] = 3;
          size_t need = r.size() + 24;
          if (sh->arena_used + need < sizeof(sh->arena)) {
            int k = snprintf(sh->arena + sh->arena_used, need, "%zu\t%s\n", i, r.c_str());
            sh->arena_used += k;
          } else codes[i] = 4; // arena full: outcome text lost (reported as "a ?")
        }
        sh->ndone = i + 1;
      }
      _exit(0);
    }
    // parent: wait with a progress watchdog
    int status = 0; size_t last = sh->ndone; double idle = 0; bool killed = false;
    while (true) {
      pid_t r = waitpid(pid, &status, WNOHANG);
      if (r == pid) break;
      struct timespec ts = {0, 2000000}; nanosleep(&ts, nullptr);
      if (sh->ndone != last) { last = sh->ndone; idle = 0; } else idle += 0.002;
      if (idle > 20.0) { kill(pid, SIGKILL); waitpid(pid, &status, 0); killed = true; break; }
    }
    size_t done = sh->ndone;
    if (!killed && WIFEXITED(status) && WEXITSTATUS(status) == 0 && done >= n) { close(efd); break; }
    // case `sh->cur` failed
    size_t bad = sh->cur;
    std::string err;
    { char buf[8192]; lseek(efd, 0, SEEK_SET); ssize_t k; while ((k = read(efd, buf, sizeof buf)) > 0) err.append(buf, k); }
    close(efd);
    std::string oc;
    if (killed) oc = "timeout";
    else if (err.find("allocation-size-too-big") != std::string::npos || err.find("out of memory") != std::string::npos ||
             err.find("failed to allocate") != std::string::npos) oc = "alloc_cap";
    else if (err.find("AddressSanitizer") != std::string::npos) {
      oc = "asan";
      size_t p = err.find("AddressSanitizer: ");
      if (p != std::string::npos) { size_t e = err.find_first_of(" \n", p + 18); oc += ":" + err.substr(p + 18, e - p - 18); }
    }
    else if (err.find("runtime error") != std::string::npos) {
      oc = "ubsan";
      size_t p = err.find("runtime error: ");
      if (p != std::string::npos) { size_t e = err.find('\n', p); std::string m = err.substr(p + 15, std::min<size_t>(e - p - 15, 60));
        for (auto& c : m) if (c == ' ') c = '_'; oc += ":" + m; }
    }
    else if (WIFSIGNALED(status)) oc = "crash:sig" + std::to_string(WTERMSIG(status));
    else oc = "crash:exit" + std::to_string(WIFEXITED(status) ? WEXITSTATUS(status) : -1);
    if (bad < n) { out[bad] = oc; codes[bad] = 5; }
    start = bad + 1;
    ++restarts;
  }
  // collect
  std::map<size_t, std::string> texts;
  { std::string a(sh->arena, sh->arena_used); std::istringstream is(a); std::string l;
    while (std::getline(is, l)) { size_t t = l.find('\t'); if (t != std::string::npos) texts[strtoull(l.c_str(), nullptr, 10)] = l.substr(t + 1); } }
  for (size_t i = 0; i < n; ++i) {
    if (codes[i] == OC_THROW) out[i] = "t";
    else if (codes[i] == 3) out[i] = texts.count(i) ? texts[i] : "a ?";
    else if (codes[i] == 4) out[i] = "a ?";
    else if (codes[i] == 6) out[i] = "skipped";
    else if (codes[i] == 0) out[i] = "notrun";
  }
  munmap(sh, sizeof(Shared)); munmap(codes, n);
  return out;
}

// ------------------------------------------------------------------ canonical content
template<typename SK> static std::string head_of(const SK& s) {
  std::ostringstream os;
  os << (s.is_empty() ? 1 : 0) << " " << (s.is_ordered() ? 1 : 0) << " " << (s.is_estimation_mode() ? 1 : 0) << " "
     << s.get_seed_hash() << " " << s.get_theta64();
  return os.str();
}
// exercise every getter (a "usable" sketch): estimate, bounds, theta, iteration, to_string
template<typename SK> static void touch(const SK& s) {
  volatile double d = s.get_estimate(); d = s.get_theta();
  for (uint8_t k = 1; k <= 3; ++k) { d = s.get_lower_bound(k); d = s.get_upper_bound(k); }
  (void)d;
  std::string t = s.to_string(true); (void)t;
}

struct str_serde1 { // custom serde: one length byte + bytes
  void serialize(std::ostream& os, const std::string* items, unsigned num) const {
    for (unsigned i = 0; i < num; ++i) { uint8_t l = (uint8_t)items[i].size(); os.write((char*)&l, 1); os.write(items[i].data(), l); }
  }
  void deserialize(std::istream& is, std::string* items, unsigned num) const {
    unsigned i = 0;
    for (; i < num; ++i) {
      uint8_t l; is.read((char*)&l, 1);
      if (!is.good()) break;
      std::string s(l, 0); is.read(&s[0], l);
      if (!is.good()) break;
      new (&items[i]) std::string(std::move(s));
    }
    if (i < num) { for (unsigned j = 0; j < i; ++j) items[j].~basic_string(); throw std::runtime_error("str_serde1: stream"); }
  }
  size_t size_of_item(const std::string& s) const { return 1 + std::min<size_t>(s.size(), 255); }
  size_t serialize(void* ptr, size_t cap, const std::string* items, unsigned num) const {
    size_t w = 0; char* p = (char*)ptr;
    for (unsigned i = 0; i < num; ++i) { uint8_t l = (uint8_t)items[i].size(); check_memory_size(w + 1 + l, cap); p[w] = (char)l; memcpy(p + w + 1, items[i].data(), l); w += 1 + l; }
    return w;
  }
  size_t deserialize(const void* ptr, size_t cap, std::string* items, unsigned num) const {
    size_t r = 0; const char* p = (const char*)ptr; unsigned i = 0; bool bad = false;
    for (; i < num; ++i) {
      if (r + 1 > cap) { bad = true; break; }
      uint8_t l = (uint8_t)p[r];
      if (r + 1 + l > cap) { bad = true; break; }
      new (&items[i]) std::string(p + r + 1, l); r += 1 + l;
    }
    if (bad) { for (unsigned j = 0; j < i; ++j) items[j].~basic_string(); throw std::out_of_range("str_serde1: bytes"); }
    return r;
  }
};

static std::string sum_str(double d) { return vh::hex_f64(d); }
static std::string sum_str(int64_t d) { return vh::hex_u64((uint64_t)d); }
static std::string sum_str(const std::string& s) { return vh::hex_of_bytes((const uint8_t*)s.data(), s.size()); }
static void sum_parse(const std::string& w, double& d) { d = vh::f64_of_hex(w); }
static void sum_parse(const std::string& w, int64_t& d) { d = (int64_t)strtoull(w.c_str(), nullptr, 16); }
static void sum_parse(const std::string& w, std::string& s) { auto b = vh::bytes_of_hex(w); s.assign(b.begin(), b.end()); }

static const size_t MAXLIST = 4096;

template<typename SK> static std::string content_theta(const SK& s) {
  std::ostringstream os;
  std::vector<uint64_t> ks; for (auto h : s) ks.push_back(h);
  os << "T " << head_of(s) << " " << s.get_num_retained() << " " << vh::hex_f64(s.get_estimate());
  if (ks.size() != s.get_num_retained()) os << " ITER-COUNT-MISMATCH";
  if (ks.size() <= MAXLIST) for (auto k : ks) os << " " << k; else os << " fold " << vh::hex_u64(vh::fold64(ks));
  return os.str();
}
template<typename SK> static std::string content_tuple(const SK& s) {
  std::ostringstream os; size_t n = 0;
  os << "U " << head_of(s) << " " << s.get_num_retained() << " " << vh::hex_f64(s.get_estimate());
  for (const auto& e : s) { os << " " << e.first << ":" << sum_str(e.second); ++n; }
  if (n != s.get_num_retained()) os << " ITER-COUNT-MISMATCH";
  return os.str();
}
template<typename SK> static std::string content_aod(const SK& s) {
  std::ostringstream os; size_t n = 0;
  os << "A " << head_of(s) << " " << (int)s.get_num_values() << " " << s.get_num_retained() << " " << vh::hex_f64(s.get_estimate());
  for (const auto& e : s) {
    os << " " << e.first << ":";
    for (uint8_t i = 0; i < e.second.size(); ++i) os << (i ? "," : "") << vh::hex_f64(e.second[i]);
    if (e.second.size() == 0) os << "-";
    ++n;
  }
  if (n != s.get_num_retained()) os << " ITER-COUNT-MISMATCH";
  return os.str();
}

// ------------------------------------------------------------------ family traits
struct ThetaTr {
  typedef update_theta_sketch Upd; typedef compact_theta_sketch Cmp;
  static const bool has_wrap = true;
  static std::vector<std::string> kinds() { return {"theta_v3", "theta_v4"}; }
  template<typename SK> static std::string content(const SK& s) { return content_theta(s); }
  static Upd make(int lgk, float p, uint64_t seed, int) { return Upd::builder().set_lg_k((uint8_t)lgk).set_p(p).set_seed(seed).build(); }
  static void update(Upd& u, const std::vector<std::string>& w, size_t i) { u.update(u64_of(w[i])); }
  static Cmp compact(const Upd& u, bool o) { return u.compact(o); }
  static Cmp recompact(const Cmp& c, bool o) { return Cmp(c, o); }
  static bytes_t ser_bytes(const Cmp& c, const std::string& kind, unsigned h) { auto v = kind == "theta_v4" ? c.serialize_compressed(h) : c.serialize(h); return bytes_t(v.begin(), v.end()); }
  static std::string ser_stream(const Cmp& c, const std::string& kind) { std::ostringstream os; if (kind == "theta_v4") c.serialize_compressed(os); else c.serialize(os); return os.str(); }
  static size_t adv_size(const Cmp& c, const std::string& kind) { return c.get_serialized_size_bytes(kind == "theta_v4"); }
  static long max_size(int lgk) { return (long)Cmp::get_max_serialized_size_bytes((uint8_t)lgk); }
  static Cmp de_bytes(const uint8_t* p, size_t n, uint64_t seed, int) { return Cmp::deserialize(p, n, seed); }
  static Cmp de_stream(std::istream& is, uint64_t seed, int) { return Cmp::deserialize(is, seed); }
  static std::string wrap_content(const uint8_t* p, size_t n, uint64_t seed, bool usable) {
    auto w = wrapped_compact_theta_sketch::wrap(p, n, seed);
    if (usable) touch(w);
    return content_theta(w);
  }
  static Cmp union_(int lgk, uint64_t seed, bool o, const std::vector<const Cmp*>& ops, const uint8_t* wp, size_t wn) {
    auto u = theta_union::builder().set_lg_k((uint8_t)lgk).set_seed(seed).build();
    for (auto c : ops) u.update(*c);
    if (wp) u.update(wrapped_compact_theta_sketch::wrap(wp, wn, seed));
    return u.get_result(o);
  }
  static Cmp inter(uint64_t seed, bool o, const std::vector<const Cmp*>& ops, const uint8_t* wp, size_t wn) {
    theta_intersection x(seed);
    for (auto c : ops) x.update(*c);
    if (wp) x.update(wrapped_compact_theta_sketch::wrap(wp, wn, seed));
    return x.get_result(o);
  }
  static Cmp anotb(uint64_t seed, bool o, const Cmp& a, const Cmp& b) { theta_a_not_b x(seed); return x.compute(a, b, o); }
};

template<typename S> struct add_policy { void operator()(S& a, const S& b) const { a += b; } };
template<> struct add_policy<int64_t> { void operator()(int64_t& a, const int64_t& b) const { a = (int64_t)((uint64_t)a + (uint64_t)b); } };

template<typename S, typename SD, int TAG> struct TupleTr {
  typedef update_tuple_sketch<S> Upd; typedef compact_tuple_sketch<S> Cmp;
  static const bool has_wrap = false;
  static std::vector<std::string> kinds() { return {std::string("tuple_") + (TAG == 0 ? "f64" : TAG == 1 ? "i64" : TAG == 2 ? "str" : "cst")}; }
  template<typename SK> static std::string content(const SK& s) { return content_tuple(s); }
  static Upd make(int lgk, float p, uint64_t seed, int) { return typename Upd::builder().set_lg_k((uint8_t)lgk).set_p(p).set_seed(seed).build(); }
  static void update(Upd& u, const std::vector<std::string>& w, size_t i) { S v; sum_parse(w.at(i + 1), v); u.update(u64_of(w[i]), v); }
  static Cmp compact(const Upd& u, bool o) { return u.compact(o); }
  static Cmp recompact(const Cmp& c, bool o) { return Cmp(c, o); }
  static bytes_t ser_bytes(const Cmp& c, const std::string&, unsigned h) { auto v = c.serialize(h, SD()); return bytes_t(v.begin(), v.end()); }
  static std::string ser_stream(const Cmp& c, const std::string&) { std::ostringstream os; c.serialize(os, SD()); return os.str(); }
  static size_t adv_size(const Cmp&, const std::string&) { return (size_t)-1; } // no get_serialized_size_bytes in the API
  static long max_size(int) { return -1; }
  static Cmp de_bytes(const uint8_t* p, size_t n, uint64_t seed, int) { return Cmp::deserialize(p, n, seed, SD()); }
  static Cmp de_stream(std::istream& is, uint64_t seed, int) { return Cmp::deserialize(is, seed, SD()); }
  static std::string wrap_content(const uint8_t*, size_t, uint64_t, bool) { return ""; }
  static Cmp union_(int lgk, uint64_t seed, bool o, const std::vector<const Cmp*>& ops, const uint8_t*, size_t) {
    auto u = typename tuple_union<S, add_policy<S>>::builder().set_lg_k((uint8_t)lgk).set_seed(seed).build();
    for (auto c : ops) u.update(*c);
    return u.get_result(o);
  }
  static Cmp inter(uint64_t seed, bool o, const std::vector<const Cmp*>& ops, const uint8_t*, size_t) {
    tuple_intersection<S, add_policy<S>> x(seed);
    for (auto c : ops) x.update(*c);
    return x.get_result(o);
  }
  static Cmp anotb(uint64_t seed, bool o, const Cmp& a, const Cmp& b) { tuple_a_not_b<S> x(seed); return x.compute(a, b, o); }
};

struct AodTr {
  typedef update_array_of_doubles_sketch Upd; typedef compact_array_of_doubles_sketch Cmp;
  static const bool has_wrap = false;
  static std::vector<std::string> kinds() { return {"aod"}; }
  template<typename SK> static std::string content(const SK& s) { return content_aod(s); }
  static Upd make(int lgk, float p, uint64_t seed, int nv) {
    return Upd::builder(default_array_of_doubles_update_policy((uint8_t)nv)).set_lg_k((uint8_t)lgk).set_p(p).set_seed(seed).build();
  }
  static void update(Upd& u, const std::vector<std::string>& w, size_t i) {
    std::vector<double> v; for (size_t j = i + 1; j < w.size(); ++j) v.push_back(vh::f64_of_hex(w[j]));
    v.resize(u.get_num_values(), 0.0);
    u.update(u64_of(w[i]), v);
  }
  static Cmp compact(const Upd& u, bool o) { return u.compact(o); }
  static Cmp recompact(const Cmp& c, bool o) { return Cmp(c, o); }
  static bytes_t ser_bytes(const Cmp& c, const std::string&, unsigned h) { auto v = c.serialize(h); return bytes_t(v.begin(), v.end()); }
  static std::string ser_stream(const Cmp& c, const std::string&) { std::ostringstream os; c.serialize(os); return os.str(); }
  static size_t adv_size(const Cmp&, const std::string&) { return (size_t)-1; }
  static long max_size(int) { return -1; }
  static Cmp de_bytes(const uint8_t* p, size_t n, uint64_t seed, int) { return Cmp::deserialize(p, n, seed); }
  static Cmp de_stream(std::istream& is, uint64_t seed, int) { return Cmp::deserialize(is, seed); }
  static std::string wrap_content(const uint8_t*, size_t, uint64_t, bool) { return ""; }
  static Cmp union_(int lgk, uint64_t seed, bool o, const std::vector<const Cmp*>& ops, const uint8_t*, size_t) {
    uint8_t nv = ops.empty() ? 1 : ops[0]->get_num_values();
    auto u = array_of_doubles_union::builder(default_array_of_doubles_union_policy(nv)).set_lg_k((uint8_t)lgk).set_seed(seed).build();
    for (auto c : ops) u.update(*c);
    return u.get_result(o);
  }
  static Cmp inter(uint64_t seed, bool o, const std::vector<const Cmp*>& ops, const uint8_t*, size_t) {
    uint8_t nv = ops.empty() ? 1 : ops[0]->get_num_values();
    array_of_doubles_intersection<default_array_of_doubles_union_policy> x(seed, default_array_of_doubles_union_policy(nv));
    for (auto c : ops) x.update(*c);
    return x.get_result(o);
  }
  static Cmp anotb(uint64_t seed, bool o, const Cmp& a, const Cmp& b) { array_of_doubles_a_not_b x(seed); return x.compute(a, b, o); }
};

// ------------------------------------------------------------------ objects
struct no_such_object {};   // malformed history (dangling id, wrong object kind): reported as `no-such-object`, never as `throw`
struct Obj {
  std::string fam; uint64_t seed = 9001; int lgk = 12; int nv = 1;
  virtual ~Obj() {}
  virtual std::string content() const = 0;
  virtual void update(const std::vector<std::string>& w, size_t i) = 0;
  virtual std::unique_ptr<Obj> compact(bool ordered) const = 0;
  virtual std::unique_ptr<Obj> setop(const std::string& op, int lgk, bool ordered, const std::vector<const Obj*>& ops) const = 0;
  virtual std::string ser(const std::string& kind, const Obj* other) const = 0;
  virtual std::string trunc(const std::string& kind) const = 0;
  virtual std::string corrupt(const std::string& kind) const = 0;
  // the same sweeps over a STORED image (legacy serial versions, shipped files) this object was loaded from
  virtual std::string trunc_img(const std::string& kind, const std::vector<uint8_t>& img) const = 0;
  virtual std::string corrupt_img(const std::string& kind, const std::vector<uint8_t>& img) const = 0;
};

static size_t preamble_bytes(const std::string& kind, const bytes_t& img) {
  if (img.size() < 8) return img.size();
  if (kind == "aod") return std::min<size_t>(img.size(), (img[4] & 8) ? 24 : 16);
  size_t pre = img[0];
  if (kind.rfind("theta", 0) == 0 && img[1] == 4) return std::min<size_t>(img.size(), 8 * pre + img[4]);
  return std::min<size_t>(img.size(), 8 * std::max<size_t>(pre, 1));
}

template<typename Tr> struct Fam : Obj {
  std::unique_ptr<typename Tr::Upd> upd;
  std::unique_ptr<typename Tr::Cmp> cmp;
  typedef typename Tr::Cmp Cmp;

  std::string content() const override { return upd ? Tr::content(*upd) : Tr::content(*cmp); }
  void update(const std::vector<std::string>& w, size_t i) override { if (!upd) throw no_such_object(); Tr::update(*upd, w, i); }
  std::unique_ptr<Fam> derived(Cmp&& c, int lgk_) const {
    std::unique_ptr<Fam> o(new Fam); o->fam = fam; o->seed = seed; o->lgk = lgk_; o->nv = nv; o->cmp.reset(new Cmp(std::move(c))); return o;
  }
  std::unique_ptr<Obj> compact(bool ordered) const override {
    return upd ? derived(Tr::compact(*upd, ordered), lgk) : derived(Tr::recompact(*cmp, ordered), lgk);
  }
  std::unique_ptr<Obj> setop(const std::string& op, int lgk_, bool ordered, const std::vector<const Obj*>& ops) const override {
    std::vector<const Cmp*> cs; std::vector<std::unique_ptr<Cmp>> tmp; int mx = 0;
    for (auto o : ops) {
      auto f = dynamic_cast<const Fam*>(o);
      if (!f) throw no_such_object();
      if (f->cmp) cs.push_back(f->cmp.get()); else { tmp.emplace_back(new Cmp(Tr::compact(*f->upd, false))); cs.push_back(tmp.back().get()); }
      mx = std::max(mx, f->lgk);
    }
    if (op == "union") return derived(Tr::union_(lgk_, seed, ordered, cs, nullptr, 0), lgk_);
    if (op == "inter") return derived(Tr::inter(seed, ordered, cs, nullptr, 0), mx);
    if (op == "anotb") return derived(Tr::anotb(seed, ordered, *cs.at(0), *cs.at(1)), mx);
    throw std::runtime_error("bad set op");
  }

  // ---- C09 / C10: one image with all implementation-side checks
  std::string ser(const std::string& kind, const Obj* other) const override {
    if (!cmp) throw no_such_object();
    const Cmp& c = *cmp;
    std::vector<std::string> fail;
    bytes_t img = Tr::ser_bytes(c, kind, 0);
    const std::string want = Tr::content(c);
    for (unsigned h : {1u, 8u, 13u}) {
      bytes_t b = Tr::ser_bytes(c, kind, h);
      bool ok = b.size() == img.size() + h;
      for (unsigned i = 0; ok && i < h; ++i) ok = b[i] == 0;
      ok = ok && std::equal(img.begin(), img.end(), b.begin() + h);
      if (!ok) fail.push_back("header" + std::to_string(h));
    }
    std::string st = Tr::ser_stream(c, kind);
    if (st.size() != img.size() || !std::equal(img.begin(), img.end(), (const uint8_t*)st.data())) fail.push_back("stream-ne-bytes");
    size_t adv = Tr::adv_size(c, kind);
    if (adv != (size_t)-1 && adv != img.size()) fail.push_back("size-ne-advertised");
    long mx = Tr::max_size(lgk);
    if (mx >= 0 && (long)img.size() > mx) fail.push_back("size-gt-max");
    // stream position after image ++ sentinel
    {
      std::string s2 = st + std::string("\xA5\x5A\xA5\x5A\xA5\x5A\xA5\x5A\xA5\x5A\xA5\x5A\xA5\x5A\xA5\x5A", 16);
      std::istringstream is(s2);
      try {
        Cmp r = Tr::de_stream(is, seed, nv);
        if (!is.good() || (size_t)is.tellg() != st.size()) fail.push_back("stream-pos");
        if (Tr::content(r) != want) fail.push_back("deser-stream-content");
        if (Tr::ser_bytes(r, kind, 0) != img) fail.push_back("reser-stream");
      } catch (const std::exception&) { fail.push_back("deser-stream-throws"); }
    }
    std::unique_ptr<Cmp> restored;
    {
      std::unique_ptr<uint8_t[]> blk(new uint8_t[img.size()]); memcpy(blk.get(), img.data(), img.size());
      try {
        restored.reset(new Cmp(Tr::de_bytes(blk.get(), img.size(), seed, nv)));
        if (Tr::content(*restored) != want) fail.push_back("deser-bytes-content");
        if (Tr::ser_bytes(*restored, kind, 0) != img) fail.push_back("reser-bytes");
        std::string st2 = Tr::ser_stream(*restored, kind);
        if (st2 != st) fail.push_back("reser-bytes-stream");
      } catch (const std::exception&) { fail.push_back("deser-bytes-throws"); }
      if (Tr::has_wrap) {
        try { if (Tr::wrap_content(blk.get(), img.size(), seed, true) != want) fail.push_back("wrap-content"); }
        catch (const std::exception&) { fail.push_back("wrap-throws"); }
      }
      // deserialize from a buffer with trailing bytes: must give the same sketch
      {
        bytes_t b2(img); b2.insert(b2.end(), 16, 0xA5);
        try { if (Tr::content(Tr::de_bytes(b2.data(), b2.size(), seed, nv)) != want) fail.push_back("deser-bytes-tail-content"); }
        catch (const std::exception&) { fail.push_back("deser-bytes-tail-throws"); }
      }
      // continue: the restored (and wrapped) sketch must behave like the original in further set operations
      if (other && restored) {
        auto fo = dynamic_cast<const Fam*>(other);
        if (fo) {
          std::unique_ptr<Cmp> oc(fo->cmp ? new Cmp(*fo->cmp) : new Cmp(Tr::compact(*fo->upd, false)));
          int lg = std::max(5, std::min(lgk, fo->lgk));
          try {
            for (int ord = 0; ord < 2; ++ord) {
              std::string u1 = Tr::content(Tr::union_(lg, seed, ord, {&c, oc.get()}, nullptr, 0));
              std::string u2 = Tr::content(Tr::union_(lg, seed, ord, {restored.get(), oc.get()}, nullptr, 0));
              if (u1 != u2) fail.push_back("continue-union");
              std::string i1 = Tr::content(Tr::inter(seed, ord, {&c, oc.get()}, nullptr, 0));
              std::string i2 = Tr::content(Tr::inter(seed, ord, {restored.get(), oc.get()}, nullptr, 0));
              if (i1 != i2) fail.push_back("continue-inter");
              if (Tr::content(Tr::anotb(seed, ord, c, *oc)) != Tr::content(Tr::anotb(seed, ord, *restored, *oc))) fail.push_back("continue-anotb");
              if (Tr::content(Tr::anotb(seed, ord, *oc, c)) != Tr::content(Tr::anotb(seed, ord, *oc, *restored))) fail.push_back("continue-anotb-rev");
              if (Tr::has_wrap) {
                std::string u3 = Tr::content(Tr::union_(lg, seed, ord, {oc.get()}, blk.get(), img.size()));
                std::string u1b = Tr::content(Tr::union_(lg, seed, ord, {oc.get(), &c}, nullptr, 0));
                if (u3 != u1b) fail.push_back("continue-union-wrapped");
                std::string i3 = Tr::content(Tr::inter(seed, ord, {oc.get()}, blk.get(), img.size()));
                std::string i1b = Tr::content(Tr::inter(seed, ord, {oc.get(), &c}, nullptr, 0));
                if (i3 != i1b) fail.push_back("continue-inter-wrapped");
              }
            }
            // recompact of restored == recompact of original
            if (Tr::content(Tr::recompact(c, true)) != Tr::content(Tr::recompact(*restored, true))) fail.push_back("continue-recompact");
          } catch (const std::exception& e) { fail.push_back(std::string("continue-throws")); }
        }
      }
    }
    std::ostringstream os;
    os << "IMG " << kind << " " << seed << " " << vh::hex_of_bytes(img.data(), img.size()) << " | " << want << " | ";
    if (fail.empty()) os << "ok"; else { os << "FAIL "; for (size_t i = 0; i < fail.size(); ++i) os << (i ? "," : "") << fail[i]; }
    return os.str();
  }

  // one deserialization attempt on an exact-size heap copy; returns "t" | "a <content>" | "leak..." | "alloc_cap"
  static std::string attempt(int path, const uint8_t* data, size_t len, uint64_t seed, int nv, bool usable) {
    std::string res; res.reserve(512);
    g_cap_hit = false;
    uint8_t* blk = (uint8_t*)malloc(len ? len : 1);   // exact size: the ASan red zone starts at blk + len
    if (len) memcpy(blk, data, len); else { free(blk); blk = (uint8_t*)malloc(0); }
    const uint8_t* exact = blk;
    const long before = g_live;
    try {
      if (path == 0) { Cmp r = Tr::de_bytes(exact, len, seed, nv); if (usable) { touch(r); Tr::ser_bytes(r, Tr::kinds()[0], 0); } res = "a " + Tr::content(r); }
      else if (path == 1) { std::string s((const char*)exact, len); std::istringstream is(s); Cmp r = Tr::de_stream(is, seed, nv); if (usable) { touch(r); Tr::ser_bytes(r, Tr::kinds()[0], 0); } res = "a " + Tr::content(r); }
      else { res = "a " + Tr::wrap_content(exact, len, seed, usable); }
    } catch (const std::exception&) { res = "t"; }
    const long after = g_live;
    free(blk);
    bool cap = g_cap_hit; g_cap_hit = false;
    if (cap) return "alloc_cap";
    if (after != before) return "leak:" + std::to_string(after - before) + (res == "t" ? ":after-throw" : ":after-accept");
    return res;
  }

  static std::string events(const std::vector<std::string>& oc, size_t lo, size_t hi, const std::function<std::string(size_t)>& label) {
    std::ostringstream os; size_t nev = 0;
    for (size_t i = lo; i < hi; ++i) if (oc[i] != "t") { if (nev < 40) os << " " << label(i) << "=" << oc[i]; ++nev; }
    if (nev == 0) return " none";
    if (nev > 40) os << " (+" << (nev - 40) << " more)";
    return os.str();
  }

  // ---- C11: every strict prefix, every path
  std::string trunc(const std::string& kind) const override {
    if (!cmp) throw no_such_object();
    return trunc_img(kind, Tr::ser_bytes(*cmp, kind, 0));
  }
  std::string trunc_img(const std::string& kind, const bytes_t& img) const override {
    if (!cmp) throw no_such_object();
    const int npaths = Tr::has_wrap ? 3 : 2;
    const size_t n = img.size();
    uint64_t sd = seed; int nvv = nv;
    // warm-up: lazy one-time allocations (locale facets etc.) must not look like leaks
    for (int p = 0; p < npaths; ++p) attempt(p, img.data(), n, sd, nvv, true);   // only the VALID image runs outside the isolated children
    auto oc = run_isolated(n * npaths, [&](size_t i) { return attempt((int)(i / n), img.data(), i % n, sd, nvv, true); },
                           96, [&](size_t i) { size_t len = i % n; return len < 32 || len + 16 >= n || len % 16 == 0; });
    size_t nskipped = 0; for (auto& o : oc) if (o == "skipped") { o = "t"; ++nskipped; }
    std::ostringstream os;
    os << "TRUNC " << kind << " " << seed << " " << vh::hex_of_bytes(img.data(), img.size()) << " | " << Tr::content(*cmp) << " |";
    static const char* pn[] = {"bytes", "stream", "wrap"};
    for (int p = 0; p < npaths; ++p)
      os << " " << pn[p] << ":" << n << ":" << events(oc, p * n, (p + 1) * n, [&](size_t i) { return std::to_string(i % n); }).substr(1) << " ;";
    if (nskipped) os << " skipped:" << nskipped << ":none ;";
    return os.str();
  }

  // ---- C11: corruption of every preamble byte
  std::string corrupt(const std::string& kind) const override {
    if (!cmp) throw no_such_object();
    return corrupt_img(kind, Tr::ser_bytes(*cmp, kind, 0));
  }
  std::string corrupt_img(const std::string& kind, const bytes_t& img) const override {
    if (!cmp) throw no_such_object();
    const int npaths = Tr::has_wrap ? 3 : 2;
    size_t npre = preamble_bytes(kind, img);
    struct C { size_t pos; uint8_t val; };
    std::vector<C> cs;
    for (size_t pos = 0; pos < npre; ++pos) {
      uint8_t b = img[pos];
      uint8_t repl[8] = {0x00, 0x01, 0x7F, 0x80, 0xFF, (uint8_t)(b ^ 1), (uint8_t)(b ^ 0x80), (uint8_t)(b + 1)};
      for (int k = 0; k < 8; ++k) {
        bool dup = repl[k] == b; for (int j = 0; j < k; ++j) dup = dup || repl[j] == repl[k];
        if (!dup) cs.push_back({pos, repl[k]});
      }
    }
    const size_t nc = cs.size();
    uint64_t sd = seed; int nvv = nv;
    for (int p = 0; p < npaths; ++p) attempt(p, img.data(), img.size(), sd, nvv, true);
    auto oc = run_isolated(nc * npaths, [&](size_t i) {
      bytes_t b(img); const C& c = cs[i % nc]; b[c.pos] = c.val;
      return attempt((int)(i / nc), b.data(), b.size(), sd, nvv, true);
    });
    std::ostringstream os;
    os << "CORRUPT " << kind << " " << seed << " " << vh::hex_of_bytes(img.data(), img.size()) << " | " << Tr::content(*cmp) << " | npre=" << npre << " |";
    static const char* pn[] = {"bytes", "stream", "wrap"};
    for (int p = 0; p < npaths; ++p) {
      os << " " << pn[p] << ":";
      for (size_t i = 0; i < nc; ++i) { const std::string& o = oc[p * nc + i]; os << (o == "t" ? 't' : o.rfind("a ", 0) == 0 ? 'a' : 'X'); }
      std::vector<std::string> ev(oc.begin() + p * nc, oc.begin() + (p + 1) * nc);
      for (auto& e : ev) if (e.rfind("a ", 0) == 0) e = "t";   // accepted-and-usable is fine here
      os << ":" << events(ev, 0, nc, [&](size_t i) { return std::to_string(cs[i].pos) + "/" + std::to_string((int)cs[i].val); }).substr(1) << " ;";
    }
    return os.str();
  }
};

static std::map<int, std::unique_ptr<Obj>> objs;
// a dangling object id is a malformed history (e.g. produced by delta debugging), not an exception of the library
static Obj* get_obj(const std::string& id) {
  auto it = objs.find(atoi(id.c_str()));
  if (it == objs.end() || !it->second) throw no_such_object();
  return it->second.get();
}

template<typename Tr> static std::unique_ptr<Obj> make_upd(const std::string& fam, int lgk, float p, uint64_t seed, int nv) {
  std::unique_ptr<Fam<Tr>> o(new Fam<Tr>); o->fam = fam; o->seed = seed; o->lgk = lgk; o->nv = nv;
  o->upd.reset(new typename Tr::Upd(Tr::make(lgk, p, seed, nv)));
  return std::unique_ptr<Obj>(o.release());
}
typedef TupleTr<double, serde<double>, 0> TF64;
typedef TupleTr<int64_t, serde<int64_t>, 1> TI64;
typedef TupleTr<std::string, serde<std::string>, 2> TSTR;
typedef TupleTr<std::string, str_serde1, 3> TCST;

template<typename Tr> static std::unique_ptr<Obj> load_obj(const std::string& fam, uint64_t seed, const bytes_t& img, int nv) {
  std::unique_ptr<Fam<Tr>> o(new Fam<Tr>); o->fam = fam; o->seed = seed; o->lgk = 26; o->nv = nv;
  std::unique_ptr<uint8_t[]> blk(new uint8_t[img.size() ? img.size() : 1]); memcpy(blk.get(), img.data(), img.size());
  o->cmp.reset(new typename Tr::Cmp(Tr::de_bytes(blk.get(), img.size(), seed, nv)));
  return std::unique_ptr<Obj>(o.release());
}

template<typename Tr> static std::string deser_all(const std::string&, uint64_t seed, const bytes_t& img, int nv) {
  std::string a, b, c;
  {
    std::unique_ptr<uint8_t[]> blk(new uint8_t[img.size() ? img.size() : 1]); memcpy(blk.get(), img.data(), img.size());
    auto r = Tr::de_bytes(blk.get(), img.size(), seed, nv); touch(r); a = Tr::content(r);
    if (Tr::has_wrap) c = Tr::wrap_content(blk.get(), img.size(), seed, true);
  }
  { std::string s((const char*)img.data(), img.size()); std::istringstream is(s); auto r = Tr::de_stream(is, seed, nv); b = Tr::content(r);
    if (!is.good() || (size_t)is.tellg() != img.size()) b += " STREAM-POS"; }
  std::string res = "DES " + a + " | ";
  if (a != b) res += "FAIL stream-differs:" + b; else if (Tr::has_wrap && a != c) res += "FAIL wrap-differs:" + c; else res += "ok";
  return res;
}

static std::string step(const std::vector<std::string>& w) {
  const std::string& op = w[0];
  if (op == "new") {
    int id = atoi(w[1].c_str()); const std::string& fam = w[2];
    int lgk = atoi(w[3].c_str()); float p = vh::f32_of_hex(w[4]); uint64_t seed = u64_of(w[5]); int nv = w.size() > 6 ? atoi(w[6].c_str()) : 1;
    std::unique_ptr<Obj> o;
    if (fam == "theta") o = make_upd<ThetaTr>(fam, lgk, p, seed, nv);
    else if (fam == "tf64") o = make_upd<TF64>(fam, lgk, p, seed, nv);
    else if (fam == "ti64") o = make_upd<TI64>(fam, lgk, p, seed, nv);
    else if (fam == "tstr") o = make_upd<TSTR>(fam, lgk, p, seed, nv);
    else if (fam == "tcst") o = make_upd<TCST>(fam, lgk, p, seed, nv);
    else if (fam == "aod") o = make_upd<AodTr>(fam, lgk, p, seed, nv);
    else return "bad-op";
    std::string c = o->content(); objs[id] = std::move(o); return c;
  }
  if (op == "upd") { Obj& o = *get_obj(w[1]); o.update(w, 2); return o.content(); }
  if (op == "compact") {
    auto n = get_obj(w[1])->compact(w[3] == "1"); std::string c = n->content(); objs[atoi(w[2].c_str())] = std::move(n); return c;
  }
  if (op == "union" || op == "inter" || op == "anotb") {
    int dst = atoi(w[1].c_str()); size_t i = 2; int lgk = 0;
    if (op == "union") lgk = atoi(w[i++].c_str());
    bool ord = w.at(i++) == "1";
    std::vector<const Obj*> ops; for (; i < w.size(); ++i) ops.push_back(get_obj(w[i]));
    auto n = ops.at(0)->setop(op, lgk, ord, ops); std::string c = n->content(); objs[dst] = std::move(n); return c;
  }
  if (op == "fromtheta") {
    auto src = dynamic_cast<Fam<ThetaTr>*>(get_obj(w[1]));
    if (!src) return "bad-op";
    int dst = atoi(w[2].c_str()); const std::string& fam = w[3]; bool ord = w[4] == "1";
    std::unique_ptr<compact_theta_sketch> tc(src->cmp ? new compact_theta_sketch(*src->cmp) : new compact_theta_sketch(src->upd->compact(false)));
    std::unique_ptr<Obj> n;
    if (fam == "tf64") { double v; sum_parse(w[5], v); std::unique_ptr<Fam<TF64>> o(new Fam<TF64>); o->cmp.reset(new compact_tuple_sketch<double>(*tc, v, ord)); n.reset(o.release()); }
    else if (fam == "tstr") { std::string v; sum_parse(w[5], v); std::unique_ptr<Fam<TSTR>> o(new Fam<TSTR>); o->cmp.reset(new compact_tuple_sketch<std::string>(*tc, v, ord)); n.reset(o.release()); }
    else return "bad-op";
    n->fam = fam; n->seed = src->seed; n->lgk = src->lgk;
    std::string c = n->content(); objs[dst] = std::move(n); return c;
  }
  if (op == "ser") return get_obj(w[1])->ser(w[2], w.size() > 3 ? get_obj(w[3]) : nullptr);
  if (op == "trunc") return get_obj(w[1])->trunc(w[2]);
  if (op == "corrupt") return get_obj(w[1])->corrupt(w[2]);
  if (op == "deser") {
    const std::string& fam = w[1]; uint64_t seed = u64_of(w[3]); bytes_t img = vh::bytes_of_hex(w[4]); int nv = w.size() > 5 ? atoi(w[5].c_str()) : 1;
    if (fam == "theta") return deser_all<ThetaTr>(w[2], seed, img, nv);
    if (fam == "tf64") return deser_all<TF64>(w[2], seed, img, nv);
    if (fam == "ti64") return deser_all<TI64>(w[2], seed, img, nv);
    if (fam == "tstr") return deser_all<TSTR>(w[2], seed, img, nv);
    if (fam == "tcst") return deser_all<TCST>(w[2], seed, img, nv);
    if (fam == "aod") return deser_all<AodTr>(w[2], seed, img, nv);
    return "bad-op";
  }
  if (op == "load") {   // load <id> <fam> <seed> <hex> [nv] : a compact object from an (uncompressed) image, e.g. with chosen hash values
    int id = atoi(w[1].c_str()); const std::string& fam = w[2]; uint64_t seed = u64_of(w[3]); bytes_t img = vh::bytes_of_hex(w[4]); int nv = w.size() > 5 ? atoi(w[5].c_str()) : 1;
    std::unique_ptr<Obj> o;
    if (fam == "theta") o = load_obj<ThetaTr>(fam, seed, img, nv);
    else if (fam == "tf64") o = load_obj<TF64>(fam, seed, img, nv);
    else if (fam == "ti64") o = load_obj<TI64>(fam, seed, img, nv);
    else if (fam == "tstr") o = load_obj<TSTR>(fam, seed, img, nv);
    else if (fam == "tcst") o = load_obj<TCST>(fam, seed, img, nv);
    else if (fam == "aod") o = load_obj<AodTr>(fam, seed, img, nv);
    else return "bad-op";
    std::string c = o->content(); objs[id] = std::move(o); return c;
  }
  if (op == "truncimg" || op == "corruptimg") {   // <fam> <kind> <seed> <hex> [nv]: the C11 sweeps over a stored image
    const std::string& fam = w[1]; uint64_t seed = u64_of(w[3]); bytes_t img = vh::bytes_of_hex(w[4]); int nv = w.size() > 5 ? atoi(w[5].c_str()) : 1;
    std::unique_ptr<Obj> o;
    if (fam == "theta") o = load_obj<ThetaTr>(fam, seed, img, nv);
    else if (fam == "tf64") o = load_obj<TF64>(fam, seed, img, nv);
    else if (fam == "ti64") o = load_obj<TI64>(fam, seed, img, nv);
    else if (fam == "tstr") o = load_obj<TSTR>(fam, seed, img, nv);
    else if (fam == "tcst") o = load_obj<TCST>(fam, seed, img, nv);
    else if (fam == "aod") o = load_obj<AodTr>(fam, seed, img, nv);
    else return "bad-op";
    return op == "truncimg" ? o->trunc_img(w[2], img) : o->corrupt_img(w[2], img);
  }
  if (op == "BP" && w[1] == "pack") {
    uint8_t n = (uint8_t)atoi(w[2].c_str()); uint64_t v[8];
    for (int i = 0; i < 8; ++i) v[i] = u64_of(w.at(3 + i));
    bytes_t buf(n ? n : 1, 0xAA);
    pack_bits_block8(v, buf.data(), n);
    return "BP " + vh::hex_of_bytes(buf.data(), n);
  }
  if (op == "BP" && w[1] == "unpack") {
    uint8_t n = (uint8_t)atoi(w[2].c_str()); bytes_t b = vh::bytes_of_hex(w[3]); uint64_t v[8];
    for (int i = 0; i < 8; ++i) v[i] = 0xDEADBEEFULL;
    std::unique_ptr<uint8_t[]> blk(new uint8_t[b.size() ? b.size() : 1]); memcpy(blk.get(), b.data(), b.size());
    unpack_bits_block8(v, blk.get(), n);
    std::ostringstream os; os << "BPU"; for (int i = 0; i < 8; ++i) os << " " << v[i]; return os.str();
  }
  if (op == "BPT") {
    uint8_t eb = (uint8_t)atoi(w[1].c_str()); std::vector<uint64_t> vals; for (size_t i = 2; i < w.size(); ++i) vals.push_back(u64_of(w[i]));
    size_t nbytes = (eb * vals.size() + 7) / 8;
    bytes_t buf(nbytes ? nbytes : 1, 0);
    uint8_t* ptr = buf.data(); uint8_t off = 0;
    for (auto v : vals) off = pack_bits(v, eb, ptr, off);
    std::unique_ptr<uint8_t[]> blk(new uint8_t[nbytes ? nbytes : 1]); memcpy(blk.get(), buf.data(), nbytes);
    const uint8_t* rp = blk.get(); uint8_t roff = 0; bool rt = true;
    for (auto v : vals) { uint64_t x = 0; roff = unpack_bits(x, eb, rp, roff); rt = rt && x == v; }
    return "BPT " + vh::hex_of_bytes(buf.data(), nbytes) + " rt=" + (rt ? "1" : "0");
  }
  return "bad-op";
}

static std::string safe_step(const std::vector<std::string>& w) {
  try { return step(w); } catch (const no_such_object&) { return "no-such-object"; }
}

int main() { return vh::run_loop(safe_step); }

#!/usr/bin/env python3
"""Self-test of ./check c07quant / c08quant (classic quantiles parts of C07 / C08): applies seeded textual edits of the
anchored C++ to a scratch worktree of /repo (created here, removed at the end; /repo itself is never touched), runs both
checks with VERIF_REPO pointing at it and reports which stage caught the edit and whether the replay passes on the
clean tree.  M* = property-breaking (must yield VIOLATION), P* = property-preserving (must stay silent).
M10 keeps a contiguous half instead of evens/odds: still weight-conserving and mean-unbiased, so only the
correspondence tie breaks (`no-failing-input-found`), by design.
usage: python3 selftest/quantiles_mutations.py [names...]"""
import subprocess, sys, os, re, json
REPO="/var/tmp/repo-quant"
W=os.path.dirname(os.path.dirname(os.path.abspath(__file__)))
MUTS = {
 "M1_zip_offset_zero": ("quantiles/include/quantiles_sketch_impl.hpp",
    "  uint32_t rand_offset = random_utils::verif_random_bit();", "  uint32_t rand_offset = 0;"),
 "M2_stdmerge_forgets_n": ("quantiles/include/quantiles_sketch_impl.hpp",
    """  tgt.n_ = new_n;
  if ((tgt.get_n() / (2 * tgt.get_k())) != tgt.bit_pattern_) {
    throw std::logic_error("Failed internal consistency check after standard_merge()");
  }""", """  if ((new_n / (2 * tgt.get_k())) != tgt.bit_pattern_) {
    throw std::logic_error("Failed internal consistency check after standard_merge()");
  }"""),
 "M3_min_update_swapped": ("quantiles/include/quantiles_sketch_impl.hpp",
    "    if (comparator_(item, *min_item_)) *min_item_ = item;", "    if (comparator_(*min_item_, item)) *min_item_ = item;"),
 "M4_iter_begin_weight": ("quantiles/include/quantiles_sketch_impl.hpp",
    "      level_ = 0;\n      weight_ = 2;", "      level_ = 0;\n      weight_ = 1;"),
 "M5_stride_offset_zero": ("quantiles/include/quantiles_sketch_impl.hpp",
    "  const uint16_t rand_offset = static_cast<uint16_t>(random_utils::verif_next_below(stride));", "  const uint16_t rand_offset = 0; (void)stride;"),
 "M6_view_bounds_swapped": ("common/include/quantiles_sorted_view_impl.hpp",
    """  auto it = inclusive ?
      std::upper_bound(entries_.begin(), entries_.end(), Entry(ref_helper(item), 0), compare_pairs_by_first(comparator_))
    : std::lower_bound(entries_.begin(), entries_.end(), Entry(ref_helper(item), 0), compare_pairs_by_first(comparator_));""",
    """  auto it = inclusive ?
      std::lower_bound(entries_.begin(), entries_.end(), Entry(ref_helper(item), 0), compare_pairs_by_first(comparator_))
    : std::upper_bound(entries_.begin(), entries_.end(), Entry(ref_helper(item), 0), compare_pairs_by_first(comparator_));"""),
 "M7_no_sort_before_carry": ("quantiles/include/quantiles_sketch_impl.hpp",
    "  std::sort(base_buffer_.begin(), base_buffer_.end(), comparator_);\n  in_place_propagate_carry(0,", "  in_place_propagate_carry(0,"),
 "M8_downsample_wrong_level": ("quantiles/include/quantiles_sketch_impl.hpp",
    "      in_place_propagate_carry(src_lvl + lg_sample_factor,", "      in_place_propagate_carry(src_lvl,"),
 "M9_exact_merge_minmax_lost": ("quantiles/include/quantiles_sketch_impl.hpp",
    "    if (tgt.comparator_(*tgt.max_item_, *src.max_item_))\n      *tgt.max_item_ = conditional_forward<FwdSk>(*src.max_item_);\n  }\n}\n\ntemplate<typename T, typename C, typename A>\ntemplate<typename FwdSk>\nvoid quantiles_sketch<T, C, A>::downsampling_merge",
    "    if (tgt.comparator_(*src.max_item_, *tgt.max_item_))\n      *tgt.max_item_ = conditional_forward<FwdSk>(*src.max_item_);\n  }\n}\n\ntemplate<typename T, typename C, typename A>\ntemplate<typename FwdSk>\nvoid quantiles_sketch<T, C, A>::downsampling_merge"),
 "M10_zip_keeps_adjacent": ("quantiles/include/quantiles_sketch_impl.hpp",
    "  for (uint32_t i = rand_offset, o = 0; o < k; i += 2, ++o) {", "  for (uint32_t i = rand_offset * static_cast<uint32_t>(k), o = 0; o < k; i += 1, ++o) {"),
 "M11_nan_update_accepted": ("quantiles/include/quantiles_sketch.hpp",
    "    return !std::isnan(item);\n  }\n\n  template<typename TT = T, typename std::enable_if<!std::is_floating_point<TT>::value, int>::type = 0>\n  static inline bool check_update_item(TT) {",
    "    return !std::isnan(item) || item != item;\n  }\n\n  template<typename TT = T, typename std::enable_if<!std::is_floating_point<TT>::value, int>::type = 0>\n  static inline bool check_update_item(TT) {"),
 "P1_stable_sort": ("quantiles/include/quantiles_sketch_impl.hpp",
    "  std::sort(base_buffer_.begin(), base_buffer_.end(), comparator_);\n  in_place_propagate_carry(0,", "  std::stable_sort(base_buffer_.begin(), base_buffer_.end(), comparator_);\n  in_place_propagate_carry(0,"),
 "P2_coin_relabelled": ("quantiles/include/quantiles_sketch_impl.hpp",
    "  uint32_t rand_offset = random_utils::verif_random_bit();", "  uint32_t rand_offset = 1 - random_utils::verif_random_bit();"),
 "P3_merge_tie_break": ("quantiles/include/quantiles_sketch_impl.hpp",
    "    if (comparator(*it1, *it2)) {\n      dst.push_back(std::move(*it1++));", "    if (!comparator(*it2, *it1)) {\n      dst.push_back(std::move(*it1++));"),
 "P4_iterator_weight_shift": ("quantiles/include/quantiles_sketch_impl.hpp",
    "      weight_ *= 2;\n    } while ((bit_pattern_ & static_cast<uint64_t>(1)) == 0);", "      weight_ <<= 1;\n    } while ((bit_pattern_ & static_cast<uint64_t>(1)) == 0);"),
}
def sh(cmd, **kw):
    return subprocess.run(cmd, shell=True, stdout=subprocess.PIPE, stderr=subprocess.STDOUT, text=True, **kw).stdout
def main():
    names = sys.argv[1:] or list(MUTS)
    if not os.path.isdir(REPO):
        sh("git -C /repo worktree add %s HEAD" % REPO)
    for name in names:
        rel, old, new = MUTS[name]
        sh("git -C %s checkout -q ." % REPO)
        p = os.path.join(REPO, rel)
        s = open(p).read()
        if s.count(old) != 1:
            print(name, "PATTERN COUNT", s.count(old)); continue
        open(p, "w").write(s.replace(old, new))
        res = {}
        for chk in ("c07quant", "c08quant"):
            out = sh("cd %s && VERIF_REPO=%s VERIF_JOBS=4 ./check %s --tier quick 2>&1 | grep -E '^(VIOLATION|KNOWN-FINDING)' " % (W, REPO, chk))
            lines = [l for l in out.splitlines() if l.startswith("VIOLATION")]
            desc = []
            for l in lines:
                m = re.search(r"replay=(\S+)", l)
                key = "?"
                if m:
                    hdr = open(os.path.join(W, m.group(1))).read().split("\n")
                    key = [h for h in hdr if h.startswith("# key=")][0][6:]
                    kind = [h for h in hdr if h.startswith("# kind=")]
                    nops = len([h for h in hdr if h and not h.startswith("#")])
                    # does the replay pass on the clean tree?
                    clean = sh("cd %s && VERIF_JOBS=4 ./check %s --replay %s 2>&1 | tail -2" % (W, chk, m.group(1))) if "no-failing" not in l else ""
                    desc.append("%s [%s, %d ops]%s clean-replay: %s" % (key, kind[0][7:] if kind else "", nops, " NO-INPUT" if "no-failing" in l else "", clean.strip().replace("\n", " | ")[:160]))
            res[chk] = desc or ["silent"]
        print("==", name)
        for chk, d in res.items():
            for x in d:
                print("   ", chk, "->", x)
        sys.stdout.flush()
    sh("git -C %s checkout -q ." % REPO)
    sh("git -C /repo worktree remove --force %s" % REPO)
    # rebuild the harness from the clean tree
    sh("cd %s && VERIF_JOBS=4 ./check c08quant --tier quick" % W)
main()

"""Self-test of the C17 check: seeded edits of the t-digest headers in a SCRATCH worktree of the repository.

usage: python3 selftest/c17_edits.py [edit names...]      (never touches /repo; VERIF_SELFTEST_REPO = scratch worktree)
  expect=break      property-breaking edit: the check must print VIOLATION with a replay that fails on the edited tree
                    and passes on the clean tree
  expect=behaviour  changes an observable value without violating the property: VIOLATION ... no-failing-input-found
  expect=preserve   refactoring / retuning: the check must stay silent (P1 only with VERIF_C17_DISTINCT=1: with ties
                    std::sort instead of std::stable_sort IS property-breaking and is caught)
  expect=tie-broken statement shape the translator no longer recognises: reported as a broken tie
"""
import subprocess, sys, os, re, json, time
REPO = os.environ.get("VERIF_SELFTEST_REPO", "/var/tmp/repo-tdigest")   # scratch worktree of /repo (git -C /repo worktree add ...)
W = os.path.dirname(os.path.dirname(os.path.abspath(__file__)))
IMPL = REPO + "/tdigest/include/tdigest_impl.hpp"
HPP = REPO + "/tdigest/include/tdigest.hpp"
MUTS = {
 # name: (file, old, new, expect)
 "M1-merge-other-weight-dropped": (IMPL, "merge(tmp, buffer_.size() + other.get_total_weight());", "merge(tmp, buffer_.size());", "break"),
 "M2-update-min-not-updated": (IMPL, "  min_ = std::min(min_, value);\n", "", "break"),
 "M3-rank-wrong-neighbour": (IMPL, "  weight_delta += upper->get_weight() / 2.0;", "  weight_delta += lower->get_weight() / 2.0;", "break"),
 "M5-reverse-back-dropped": (IMPL, "  if (reverse_merge_) std::reverse(centroids_.begin(), centroids_.end());\n", "", "break"),
 "M6-merge-other-buffer-lost": (IMPL, "  for (const T value: other.buffer_) tmp.push_back(centroid(value, 1));\n", "", "break"),
 "M11-pmf-loop-off-by-one": (IMPL, "for (uint32_t i = size; i > 0; --i) {", "for (uint32_t i = size; i > 1; --i) {", "break"),
 "M12-split-points-allow-duplicates": (IMPL, "!(values[i] < values[i + 1])", "(values[i] > values[i + 1])", "break"),
 "M14-merge-max-not-updated": (IMPL, "  max_ = std::max(max_, centroids_.back().get_mean());\n", "", "break"),
 "M15-last-centroid-unprotected": (HPP, "return q * (1 - q) / normalizer;", "return (q * (1 - q) + 0.02) / normalizer;", "break"),
 "M16-rank-right-tail-compare": (IMPL, "  if (value > max_) return 1;\n", "  if (value >= max_) return 1;\n", "behaviour"),
 "P1-stable_sort-to-sort": (IMPL, "std::stable_sort(buffer.begin(), buffer.end(), centroid_cmp());", "std::sort(buffer.begin(), buffer.end(), centroid_cmp());", "preserve"),
 "P2-first-protection-test-removed": (IMPL, "if (std::distance(buffer.begin(), it) != 1 && std::distance(buffer.end(), it) != 1) {", "if (std::distance(buffer.end(), it) != 1) {", "preserve"),
 "P3-normalizer-hoisted": (IMPL, "      const double normalizer = scale_function().normalizer(2 * k_, centroids_weight_);\n", "", "preserve"),
 "P4-vacuous-end-test-removed": (IMPL, "if (std::distance(buffer.begin(), it) != 1 && std::distance(buffer.end(), it) != 1) {", "if (std::distance(buffer.begin(), it) != 1) {", "preserve"),
}
MUTS.update({
 "P5-buffer-multiplier-8": (HPP, "static const size_t BUFFER_MULTIPLIER = 4;", "static const size_t BUFFER_MULTIPLIER = 8;", "preserve"),
 "P6-scale-z-26": (HPP, "return 4 * std::log(n / compression) + 24;", "return 4 * std::log(n / compression) + 26;", "preserve"),
 "P7-fudge-20": (IMPL, "const size_t fudge = k < 30 ? 30 : 10;", "const size_t fudge = k < 40 ? 30 : 20;", "preserve"),
 "T1-fudge-shape-unparseable": (IMPL, "const size_t fudge = k < 30 ? 30 : 10;", "size_t fudge = 10; if (k < 30) fudge = 30;", "tie-broken"),
})
EXTRA = {"P3-normalizer-hoisted": (IMPL, "  double weight_so_far = 0;\n  while (it != buffer.end()) {", "  double weight_so_far = 0;\n  const double normalizer = scale_function().normalizer(2 * k_, centroids_weight_);\n  while (it != buffer.end()) {")}

def sh(cmd, env=None):
    e = dict(os.environ); e.update(env or {})
    p = subprocess.run(cmd, shell=True, stdout=subprocess.PIPE, stderr=subprocess.STDOUT, text=True, env=e)
    return p.returncode, p.stdout

names = sys.argv[1:] or list(MUTS)
for n in names:
    f, old, new, expect = MUTS[n]
    sh("git -C %s checkout -- ." % REPO)
    s = open(f).read()
    assert s.count(old) == 1, (n, s.count(old))
    s = s.replace(old, new)
    if n in EXTRA:
        f2, o2, n2 = EXTRA[n]
        assert s.count(o2) == 1, n
        s = s.replace(o2, n2)
    open(f, "w").write(s)
    sh("rm -f %s/replays/C17-*" % W)
    t = time.time()
    rc, out = sh("cd %s && ./check C17 --tier quick" % W, env={"VERIF_REPO": REPO, "VERIF_JOBS": "4", "VERIF_SEED": os.environ.get("VERIF_SEED", "1")})
    dt = time.time() - t
    verdicts = [l for l in out.splitlines() if l.startswith(("VIOLATION", "KNOWN"))]
    print("=== %s expect=%s rc=%d %.0fs" % (n, expect, rc, dt))
    for v in verdicts:
        print("   ", v[:160])
    for v in verdicts:
        m = re.search(r"replay=(\S+)", v)
        if m:
            rp = os.path.join(W, m.group(1))
            hdr = [l for l in open(rp) if l.startswith("# ")]
            key = [l.strip() for l in hdr if l.startswith("# key=") or l.startswith("# kind=") or l.startswith("# what=")]
            print("    replay", m.group(1), " | ".join(k[:110] for k in key), "ops=%d" % sum(1 for l in open(rp) if not l.startswith("#")))
            pass
            # the replay must fail on the mutant and pass on the clean tree
            rc1, o1 = sh("cd %s && ./check C17 --replay %s" % (W, rp), env={"VERIF_REPO": REPO})
            rc2, o2 = sh("cd %s && ./check C17 --replay %s" % (W, rp), env={"VERIF_REPO": "/repo"})
            print("    on mutant rc=%d: %s" % (rc1, " / ".join(l for l in o1.splitlines() if l.startswith(("replay", "VIOL", "KNOWN", "still")))[:200]))
            print("    on clean  rc=%d: %s" % (rc2, " / ".join(l for l in o2.splitlines() if l.startswith(("replay", "VIOL", "KNOWN", "still")))[:200]))
            break
sh("git -C %s checkout -- ." % REPO)
sh("cd %s && ./check C17 --tier quick" % W)

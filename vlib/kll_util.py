"""Helpers shared by the KLL parts of C07 and C08: item types of the kll line protocol, parsing of the
observation lines, the space bound as STATED by the library (kll_helper::level_capacity), coin-independent projection."""
import struct, math, functools


def f64(hexbits):
    return struct.unpack("<d", struct.pack("<Q", int(hexbits, 16)))[0]


def f64hex(x):
    return "%016x" % struct.unpack("<Q", struct.pack("<d", x))[0]


class Ty:
    """item type: parse literal -> python value with the comparator of the harness"""

    def __init__(self, ty):
        self.ty = ty

    def parse(self, lit):
        if self.ty == "i":
            return int(lit)
        if self.ty == "d":
            return f64(lit)
        return lit

    def lt(self, a, b):
        if self.ty == "s":
            return (len(a), a) < (len(b), b)
        return a < b

    def le(self, a, b):
        return not self.lt(b, a)

    def equiv(self, a, b):
        return not self.lt(a, b) and not self.lt(b, a)

    def is_nan(self, a):
        return self.ty == "d" and a != a

    def key(self):
        return functools.cmp_to_key(lambda a, b: -1 if self.lt(a, b) else (1 if self.lt(b, a) else 0))

    def ident(self, a):
        """identity of a value as printed (doubles by bits, so -0.0 and 0.0 differ)"""
        return f64hex(a) if self.ty == "d" else a


def parse_pairs(ty, words):
    out = []
    for w in words:
        it, wt = w.rsplit(":", 1)
        out.append((ty.parse(it), int(wt)))
    return out


def parse_S(ty, line):
    """`S n min max retained est I item:w ... F flips` -> dict or None"""
    w = line.split()
    if not w or w[0] != "S":
        return None
    try:
        i = w.index("I")
        f = len(w) - 2 if len(w) >= 2 and w[-2] == "F" else len(w)
        d = dict(n=int(w[1]), min=None if w[2] == "-" else ty.parse(w[2]), max=None if w[3] == "-" else ty.parse(w[3]),
                 retained=int(w[4]), est=w[5] == "1", it=parse_pairs(ty, w[i + 1:f]),
                 flips=int(w[-1]) if f != len(w) else None)
        return d
    except (ValueError, IndexError):
        return None


def parse_V(ty, words):
    """words after `V`: total then item:cum ..."""
    return int(words[0]), parse_pairs(ty, words[1:])


def ub_on_num_levels(n):
    return 1 if n == 0 else n.bit_length()


def level_capacity(k, num_levels, height, m, p3):
    depth = num_levels - height - 1

    def aux2(k, d):
        return (((2 * k) << d) // p3[d] + 1) >> 1

    if depth <= 30:
        c = aux2(k, depth)
    else:
        half = depth // 2
        c = aux2(aux2(k, half), depth - half)
    return max(m, c)


def total_capacity(k, num_levels, m, p3):
    return sum(level_capacity(k, num_levels, h, m, p3) for h in range(num_levels))


def parse_consts(line):
    """`CONSTS DEFAULT_K DEFAULT_M MIN_K MAX_K P3 ...` -> dict"""
    w = line.split()
    if not w or w[0] != "CONSTS":
        return None
    i = w.index("P3")
    return dict(default_k=int(w[1]), m=int(w[2]), min_k=int(w[3]), max_k=int(w[4]), p3=[int(x) for x in w[i + 1:]])


DEFAULT_CONSTS = dict(default_k=200, m=8, min_k=8, max_k=65535, p3=[3 ** i for i in range(31)])


def coin_free_projection(line):
    """what of an observation line does not depend on coin VALUES (only on shapes): used to compare model and
    implementation on long histories so that a relabelling of coin values stays silent (DESIGN 2.11)."""
    w = line.split()
    if not w:
        return ("",)
    if w[0] == "S" and "I" in w:
        i = w.index("I")
        f = len(w) - 2 if w[-2] == "F" else len(w)
        weights = sorted(x.rsplit(":", 1)[1] for x in w[i + 1:f])
        return ("S", w[1], w[2], w[3], w[4], w[5], tuple(weights), tuple(w[f:]))
    if w[0] == "V":
        cums = [int(x.rsplit(":", 1)[1]) for x in w[2:]]
        incs = sorted(b - a for a, b in zip([0] + cums[:-1], cums))
        return ("V", w[1], tuple(incs))
    if w[0] in ("R", "Q"):
        return (w[0],)
    if w[0] in ("C", "P"):
        return (w[0], len(w))
    return tuple(w)


def view_rank_num(ty, ents, x, incl):
    """cumulative weight of the entries <= x (incl) / < x (excl) in a view [(item, cum)]"""
    r = 0
    for it, c in ents:
        if (ty.le(it, x) if incl else ty.lt(it, x)):
            r = c
        else:
            break
    return r

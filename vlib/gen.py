"""Shared generators: typed update inputs with boundary literals (the twelve update overloads)."""
import struct

F64_SPECIAL = ["0000000000000000", "8000000000000000", "7ff8000000000000", "7ff0000000000001", "fff8000000000000",
               "7ff4000000000000", "7ff0000000000000", "fff0000000000000", "0000000000000001", "3ff0000000000000",
               "bff0000000000000", "7fefffffffffffff", "4059000000000000"]
F32_SPECIAL = ["00000000", "80000000", "7fc00000", "7f800001", "ffc00000", "7f800000", "ff800000", "00000001",
               "3f800000", "bf800000", "42c80000"]


def f64hex(x):
    return "%016x" % struct.unpack("<Q", struct.pack("<d", x))[0]


def f32hex(x):
    return "%08x" % struct.unpack("<I", struct.pack("<f", x))[0]


def rand_input(rng, universe=64, types=None):
    """-> (type, literal). Small universes make duplicates (also across types: 5 as u8/i32/u64-as-i64 collide by design)."""
    ty = rng.choice(types or ["u64", "i64", "u32", "i32", "u16", "i16", "u8", "i8", "f64", "f32", "str", "raw"])
    v = rng.randrange(universe)
    edge = rng.random() < 0.15
    if ty == "u64":
        lit = rng.choice([0, 1, 2**63 - 1, 2**63, 2**64 - 1, 2**32]) if edge else v
    elif ty == "i64":
        lit = rng.choice([0, -1, -2**63, 2**63 - 1, -2**31]) if edge else v - universe // 4
    elif ty == "u32":
        lit = rng.choice([0, 2**31, 2**32 - 1, 2**31 - 1]) if edge else v
    elif ty == "i32":
        lit = rng.choice([0, -1, -2**31, 2**31 - 1]) if edge else v - universe // 4
    elif ty == "u16":
        lit = rng.choice([0, 2**15, 2**16 - 1]) if edge else v
    elif ty == "i16":
        lit = rng.choice([0, -1, -2**15, 2**15 - 1]) if edge else v - universe // 4
    elif ty == "u8":
        lit = rng.choice([0, 128, 255]) if edge else v % 256
    elif ty == "i8":
        lit = rng.choice([0, -1, -128, 127]) if edge else (v % 256) - 128
    elif ty == "f64":
        lit = rng.choice(F64_SPECIAL) if rng.random() < 0.4 else f64hex(float(v) / rng.choice([1, 2, 3]))
    elif ty == "f32":
        lit = rng.choice(F32_SPECIAL) if rng.random() < 0.4 else f32hex(float(v) / rng.choice([1, 2, 3]))
    elif ty == "str":
        if rng.random() < 0.1:
            lit = "-"
        else:
            n = rng.choice([1, 2, 3, 7, 8, 9, 15, 16, 17, 31, 32, 33, 40]) if edge else rng.randrange(1, 6)
            lit = "".join("%02x" % ((v * 7 + i * 13) % 251 + 1) for i in range(n))
    else:
        n = rng.randrange(0, 41) if edge else rng.randrange(0, 20)
        lit = "".join("%02x" % ((v * 11 + i * 3) % 256) for i in range(n)) or "-"
    return ty, str(lit)


P_CHOICES = [("3f800000", 1.0), ("3f000000", 0.5), ("3dcccccd", None), ("3a83126f", None), ("3f7fffff", None),
             ("1e3ce508", None), ("00000001", None)]     # 1e-20f and the smallest denormal: p * 2^63 truncates to 0


def p_float(hexbits):
    return struct.unpack("<f", struct.pack("<I", int(hexbits, 16)))[0]


def theta0_floor():
    """smallest starting theta, read from the header shape by tools/trules/theta.py (0 pinned, 1 repaired)"""
    import os, re
    try:
        t = open(os.path.join(os.path.dirname(os.path.dirname(os.path.abspath(__file__))), "lean", "DSGen", "Theta.lean")).read()
        return int(re.search(r"def theta_STARTING_THETA_FLOOR : Nat := (\d+)", t).group(1))
    except Exception:
        return 0


def theta0_of_p(hexbits):
    p = p_float(hexbits)
    if p < 1:
        return max(theta0_floor(), int(float(2**63) * p))
    return 2**63 - 1


def edge_matrix(rng=None, extra=40):
    """every boundary literal of every update overload (deterministic), plus `extra` random inputs when an rng is given.
    The sign/zero-extension, -0.0 / NaN canonicalisation and empty-input rules are only visible on these."""
    m = []
    for v in [0, 1, 2**31 - 1, 2**31, 2**32 - 1, 2**32, 2**63 - 1, 2**63, 2**64 - 1, 255, 256, 65535, 65536]:
        m.append(("u64", str(v)))
    for v in [0, 1, -1, -2**63, 2**63 - 1, -2**31, 2**31 - 1, 2**31, -2**31 - 1, 2**32, -128, 127, 255]:
        m.append(("i64", str(v)))
    for v in [0, 1, 2**31 - 1, 2**31, 2**31 + 1, 3000000000, 2**32 - 1, 255, 65535, 65536]:
        m.append(("u32", str(v)))
    for v in [0, 1, -1, -2**31, 2**31 - 1, -128, 127, 255, -32768, 65535]:
        m.append(("i32", str(v)))
    for v in [0, 1, 2**15 - 1, 2**15, 2**16 - 1, 255, 256]:
        m.append(("u16", str(v)))
    for v in [0, 1, -1, -2**15, 2**15 - 1, -128, 127, 255]:
        m.append(("i16", str(v)))
    for v in [0, 1, 127, 128, 255]:
        m.append(("u8", str(v)))
    for v in [0, 1, -1, -128, 127]:
        m.append(("i8", str(v)))
    for h in F64_SPECIAL:
        m.append(("f64", h))
    for h in F32_SPECIAL:
        m.append(("f32", h))
    m += [("str", "-"), ("str", "61"), ("str", "ff"), ("str", "0100000000000000"), ("str", "ffffffffffffffff"), ("str", "61" * 16), ("str", "62" * 17)]
    m += [("str", "63" * n) for n in (31, 32, 33, 63, 64, 65, 96, 128)] + [("raw", "0a" * n) for n in (31, 32, 33, 64, 96)]      # hash block sizes
    m += [("raw", "-"), ("raw", "00"), ("raw", "0100000000000000"), ("raw", "ffffffff"), ("raw", "ffffffffffffffff"), ("raw", "07" * 16), ("raw", "09" * 33)]
    if rng is not None:
        m += [rand_input(rng, rng.choice([10, 1000, 10**9])) for _ in range(extra)]
    return m

"""Generic check runner: proof obligations + correspondence + oracle + verdict, driven by a Spec.

A Spec (one per property) names the Lean modules holding its theorems and one or more Parts.
A Part ties one model driver (lean exe + sub-command) to one C++ harness with a generator of
operation histories and a property oracle on implementation traces.  A Spec with no explicit
parts is its own single part.
"""
import os, sys, json, random, time, glob
from . import core
from .core import log


class Part:
    name = "main"
    harness = None              # harness/<name>.cpp
    harness_args = ()
    model_exe = None            # lean exe name (lakefile), e.g. "dsmodel_theta"
    family = None               # sub-command of the model exe
    cmp = None                  # optional line comparator (x, y) -> bool
    timeout = 120
    compare_model = True        # False: oracle-only part (no model output comparison)
    advisory = False            # True: a deeper (layout-level) tie whose breakage is recorded in the evidence but is not an
                                # alarm by itself, because the property-level tie (another part) still carries the theorems

    def generate(self, rng, tier):
        """-> list of histories (list of op lines)."""
        return []

    def search_histories(self, rng, tier, around=None):
        """extra histories for the failing-input search (default: fresh draws of generate)."""
        return self.generate(rng, tier)

    def oracle(self, hist, impl_out):
        """Property statement checked on one implementation trace. -> list of (key, what, line_index)."""
        return []

    def nontrivial_key(self, hist, impl_out):
        """hashable signature of a history if non-trivial, else None (for distinct_nontrivial)."""
        return None

    def run_pair(self, exe, hist, model_ok):
        """Run implementation and model on one history -> (impl_out, impl_outcome, impl_err, model_out, model_outcome, model_err).
        Default: both consume the same op lines.  Two-phase parts (e.g. wire images: the model decodes what the
        implementation wrote) override `model_lines` / `expected_model_out`, or this whole method."""
        io, ioc, ierr = core.run_impl(exe, hist, self.harness_args, timeout=self.timeout)
        if model_ok and self.compare_model and self.model_exe:
            ml = self.model_lines(hist, io)
            mo, moc, merr = core.run_model(self.model_exe, self.family, ml, timeout=self.timeout)
            io_cmp = self.expected_model_out(hist, io)
        else:
            mo, moc, merr, io_cmp = [], "skipped", "", io
        self._last_expected = io_cmp
        return io, ioc, ierr, mo, moc, merr

    def model_lines(self, hist, impl_out):
        return hist

    def expected_model_out(self, hist, impl_out):
        return impl_out

    def diff(self, hist, impl_out, model_out):
        """index of the first disagreement between what the model printed and what the implementation implies, or None"""
        return core.first_diff(self.expected_model_out(hist, impl_out), model_out, self.cmp)

    def shrink_line(self, line):
        """optional literal-level shrinking of one op line: -> list of smaller candidate lines"""
        return []

    def safety_is_violation(self, outcome):
        """sanitizer/timeout/crash outcomes of the real code under valid API use count as failing inputs."""
        return True


class Spec(Part):
    pid = "C00"
    props_modules = []          # Lean modules holding ONLY the property theorems
    tfamilies = []              # translator families (tools/trules/<f>.py) this property depends on
    trusted_base = []
    assumptions = []
    rule = ""
    level = "proof"

    def parts(self):
        return [self]

    def extra_stages(self, rep, tier, rng, broken):
        """property-specific additional stages (translator ties etc). may append to `broken` or call rep.violation."""
        return


def safe_oracle(part, h, io):
    try:
        return part.oracle(h, io)
    except Exception as e:
        return []


def _run_one(part, exe, hist, model=True):
    return part.run_pair(exe, hist, model)


def corpus_histories(pid, partname):
    res = []
    for f in sorted(glob.glob(os.path.join(core.ROOT, "corpus", "regress", pid, "*.txt"))):
        hdr, lines = core.read_replay(f)
        if hdr.get("part", "main") == partname:
            res.append((os.path.relpath(f, core.ROOT), hdr, lines))
    return res


def run_check(spec, tier, seed, replay=None):
    rep = core.Report(spec.pid, tier, seed, level=spec.level)
    rng = random.Random(seed * 1000003 + sum(map(ord, spec.pid)))
    rep.cov["trusted_base"] = list(spec.trusted_base)
    rep.assumptions = list(spec.assumptions)
    rep.cov["rule"] = spec.rule
    parts = spec.parts()
    exes = sorted(set(p.model_exe for p in parts if p.model_exe))
    rep.cov["checker_cmd"] = "cd lean && lake build %s && lake env lean <file with `#print axioms` for every theorem>" % " ".join(spec.props_modules + exes)
    broken = []      # (kind, name, detail)

    # ---- stage 0: translator (only this property's families) + model drivers
    tstatus = core.translate()
    for fam in spec.tfamilies:
        st = tstatus.get(fam)
        if st is None or not st.get("ok"):
            broken.append(("translator", "tools/trules/%s.py" % fam, "\n".join((st or {}).get("errors", ["family missing"]))[-3000:]))
    model_ok = {}
    for e in exes:
        ok, out, dt = core.lake_build([e])
        model_ok[e] = ok
        if not ok:
            broken.append(("model-build", e, out[-3000:]))

    # ---- stage 1: proof obligations
    required, discharged, axioms = [], [], {}
    for pm in spec.props_modules:
        ob = core.check_obligations(pm)
        required += ob["required"]
        discharged += ob["discharged"]
        axioms.update(ob.get("axioms", {}))
        for t, why in ob["broken"]:
            broken.append(("obligation", t, why + "\n" + ob["log"][-2500:]))
    rep.cov["obligations"] = len(required)
    rep.cov["discharged"] = len(discharged)
    rep.cov["theorems"] = discharged
    rep.cov["axioms_used"] = sorted(set(a for v in axioms.values() for a in v))
    if tier == "thorough" and not any(k == "obligation" for k, _, _ in broken):
        # independent re-check of the compiled .olean files of every property module by leanchecker (one module per call)
        lc = {}
        for pm in spec.props_modules:
            ok, out = core.leanchecker(pm)
            lc[pm] = "ok" if ok else "FAILED"
            if not ok:
                broken.append(("obligation", pm, "leanchecker rejects the compiled module\n" + out[-2500:]))
        rep.cov["leanchecker"] = lc

    # ---- stage 0b: harnesses
    hexe = {}
    for p in parts:
        if p.harness and p.harness not in hexe:
            ok, exe, hlog = core.compile_harness(p.harness)
            hexe[p.harness] = exe if ok else None
            if not ok:
                broken.append(("harness-build", p.harness, hlog[-3000:]))

    # ---- property-specific stages (translator tie, table obligations ...)
    spec.extra_stages(rep, tier, rng, broken)

    # ---- replay mode
    if replay:
        hdr, lines = core.read_replay(replay)
        part = next((p for p in parts if p.name == hdr.get("part", "main")), parts[0])
        exe = hexe.get(part.harness)
        if exe is None or not lines:
            print("replay: nothing to execute (kind=%s theorem=%s)" % (hdr.get("kind"), hdr.get("theorem")))
            for kind, name, detail in broken:
                print("still-broken %s %s" % (kind, name))
                rep.violation("%s:%s" % (kind, name), dict(kind=kind, theorem=name, detail=detail[-1500:]), [], False, "%s %s no longer checks" % (kind, name))
            if not broken:
                print("replay: the obligations named in the file check again")
            return rep.finish(write_evidence=False)
        mok = model_ok.get(part.model_exe, False)
        io, ioc, ierr, mo, moc, merr = _run_one(part, exe, lines, mok)
        bad = safe_oracle(part, lines, io) if ioc == "ok" else [(core.safety_key(ioc, ierr), ierr[-500:], len(io))]
        d = part.diff(lines, io, mo) if (mok and part.compare_model and moc == "ok") else None
        for key, what, idx in bad:
            print("replay: property fails at op %d: %s %s" % (idx, key, what))
            rep.violation(key, dict(kind="oracle", part=part.name), lines, True, what)
        if d is not None:
            print("replay: model/impl diverge at op %d: impl=%r model=%r" % (d, io[d] if d < len(io) else None, mo[d] if d < len(mo) else None))
            if not bad:
                rep.violation("correspondence", dict(kind="correspondence", part=part.name), lines, False, "diverge at op %d" % d)
        if not bad and d is None:
            print("replay: passes (model == implementation, oracle clean)")
        return rep.finish(write_evidence=False)

    # ---- stage 3+4: correspondence and oracle, per part
    tot = dict(evaluations=0, ops=0, validated=0, mism=0)
    keys = set()
    opkinds, outcomes = {}, {}
    samples = []
    all_mismatches = []   # (part, name, hist, idx, impl_line, model_line)
    advisory_broken = {}
    all_oracle_fail = []  # (part, name, hist, key, what, idx)
    for part in parts:
        exe = hexe.get(part.harness)
        if exe is None:
            continue
        mok = model_ok.get(part.model_exe, False) if part.model_exe else False
        hists = [("corpus:" + path, lines) for path, hdr, lines in corpus_histories(spec.pid, part.name)]
        for i, h in enumerate(part.generate(rng, tier)):
            hists.append(("gen:%s:%d" % (part.name, i), h))

        def work(item, part=part, exe=exe, mok=mok):
            name, h = item
            return (name, h) + _run_one(part, exe, h, mok)

        results = core.pmap(work, hists)
        mism_names = set()
        for name, h, io, ioc, ierr, mo, moc, merr in results:
            tot["ops"] += len(h)
            for l in h:
                w = l.split()
                k = w[0] if w else ""
                opkinds[k] = opkinds.get(k, 0) + 1
            outcomes[ioc] = outcomes.get(ioc, 0) + 1
            if ioc != "ok":
                if part.safety_is_violation(ioc):
                    all_oracle_fail.append((part, name, h, core.safety_key(ioc, ierr),
                                            "implementation outcome %s after %d ops: %s" % (ioc, len(io), ierr[-600:]), len(io)))
                continue
            for key, what, idx in part.oracle(h, io):
                all_oracle_fail.append((part, name, h, key, what, idx))
            if mok and part.compare_model:
                if moc != "ok":
                    all_mismatches.append((part, name, h, len(mo), "<impl ok>", "<model %s> %s" % (moc, merr[-300:])))
                    mism_names.add(name)
                else:
                    d = part.diff(h, io, mo)
                    if d is not None:
                        ex = part.expected_model_out(h, io)
                        mism_names.add(name)
                        if part.advisory:
                            advisory_broken.setdefault(part.name, []).append(dict(history=name, op_index=d, op=h[d] if d < len(h) else None))
                        else:
                            all_mismatches.append((part, name, h, d, ex[d] if d < len(ex) else "<missing>", mo[d] if d < len(mo) else "<missing>"))
            nk = part.nontrivial_key(h, io)
            if nk is not None:
                keys.add((part.name, nk))
        tot["evaluations"] += len(results)
        tot["validated"] += sum(1 for r in results if r[3] == "ok" and r[0] not in mism_names) if (mok and part.compare_model) else 0
        samples += [dict(part=part.name, ops=h[:10]) for _, h in hists[:1]] + [dict(part=part.name, ops=h[:10]) for _, h in hists[-1:]]
    rep.cov["evaluations"] = tot["evaluations"]
    rep.cov["ops"] = tot["ops"]
    rep.cov["op_kinds"] = opkinds
    rep.cov["impl_outcomes"] = outcomes
    rep.cov["distinct_nontrivial"] = len(keys)
    rep.cov["traces_validated_against_impl"] = tot["validated"]
    rep.cov["samples"] = samples[:6] or [dict(note="no histories (harness unavailable)")]
    rep.cov["correspondence_mismatches"] = len(all_mismatches)
    rep.cov["advisory_ties"] = {p.name: ("broken: %d histories diverge, first %s" % (len(advisory_broken[p.name]), advisory_broken[p.name][0])
                                         if p.name in advisory_broken else "ok") for p in parts if p.advisory}
    for pn, lst in advisory_broken.items():
        log("note: advisory tie %s no longer matches the implementation (%d histories); property-level tie decides" % (pn, len(lst)))

    # ---- stage 5: verdict
    def shrink_oracle(part, h, key):
        exe = hexe[part.harness]

        # shrinking must not cost more than the check: candidates run with a short timeout (a candidate that hangs is simply "not
        # this failure"), and a failure that IS a hang is shrunk with a handful of runs only
        is_hang = key == "safety:timeout"
        t_run = part.timeout if is_hang else min(part.timeout, 60)

        def fails(c):
            io, ioc, ierr = core.run_impl(exe, c, part.harness_args, timeout=t_run)
            if key.startswith("safety:"):
                return ioc == key.split(":")[1]
            return ioc == "ok" and any(k == key for k, _, _ in safe_oracle(part, c, io))
        budget = 4 if is_hang else (getattr(part, "shrink_budget", None) or (100 if tier == "quick" else 400))
        return core.ddmin(h, fails, budget=budget, shrink_line=part.shrink_line)

    done_keys = set()
    for part, name, h, key, what, idx in all_oracle_fail:
        if key in done_keys:
            continue
        done_keys.add(key)
        if rep.is_known(key):
            rep.violation(key, {}, [], True, what)
            continue
        small = shrink_oracle(part, h[:idx + 1] if not key.startswith("safety:") else h, key)
        rep.violation(key, dict(kind="oracle" if not key.startswith("safety:") else "safety", source=name, part=part.name), small, True, what)

    new_oracle_fail = [x for x in all_oracle_fail if not rep.is_known(x[3])]
    if (broken or all_mismatches) and not new_oracle_fail:
        # SEARCH for a concrete failing input: more histories through implementation + oracle only
        found = None
        budget_s = 60 if tier == "quick" else 600
        t0 = time.time()
        rounds = 0
        sparts = [m[0] for m in all_mismatches] or parts
        while time.time() - t0 < budget_s and found is None and rounds < 30:
            rounds += 1
            any_hist = False
            for part in dict.fromkeys(sparts):
                exe = hexe.get(part.harness)
                if exe is None:
                    continue
                more = part.search_histories(rng, tier, around=[m[2] for m in all_mismatches if m[0] is part])
                if not more:
                    continue
                any_hist = True

                def w2(h, part=part, exe=exe):
                    io, ioc, ierr = core.run_impl(exe, h, part.harness_args, timeout=part.timeout)
                    if ioc != "ok":
                        return (part, h, core.safety_key(ioc, ierr), ierr[-400:], len(io)) if part.safety_is_violation(ioc) else None
                    for key, what, idx in safe_oracle(part, h, io):
                        if not rep.is_known(key):
                            return (part, h, key, what, idx)
                    return None
                for r in core.pmap(w2, more):
                    if r is not None:
                        found = r
                        break
                if found:
                    break
            if not any_hist:
                break
        rep.cov["search_rounds"] = rounds
        if found is not None:
            part, h, key, what, idx = found
            small = shrink_oracle(part, h[:idx + 1] if not key.startswith("safety:") else h, key)
            rep.violation(key, dict(kind="oracle", source="search", part=part.name), small, True, what)
        else:
            for kind, name, detail in broken:
                rep.violation("%s:%s" % (kind, name), dict(kind=kind, theorem=name, detail=detail[-1500:]), [], False,
                              "%s %s no longer checks" % (kind, name))
            for part, name, h, d, il, ml in all_mismatches[:1]:
                exe = hexe[part.harness]

                def fails(c, part=part, exe=exe):
                    io, ioc, _, mo, moc, _ = _run_one(part, exe, c, True)
                    return ioc == "ok" and moc == "ok" and part.diff(c, io, mo) is not None
                small = core.ddmin(h[:d + 1], fails, budget=80)
                rep.violation("correspondence", dict(kind="correspondence", source=name, part=part.name, op_index=d, impl=il[:300], model=ml[:300]),
                              small, bool(getattr(part, "divergence_is_property_failure", False)),
                              "model and implementation diverge (op %d of %s)" % (d, name))
    return rep.finish()

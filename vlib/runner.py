"""Generic check runner: proof obligations + correspondence + oracle + verdict, driven by a Spec."""
import os, sys, json, random, time, glob
from . import core
from .core import log


class Spec:
    pid = "C00"
    props_modules = []          # Lean modules holding ONLY the property theorems
    harness = None              # harness/<name>.cpp
    harness_args = ()
    family = None               # dsmodel sub-command
    trusted_base = []
    assumptions = []
    rule = ""
    cmp = None                  # optional line comparator (x, y) -> bool
    timeout = 120
    level = "proof"

    def generate(self, rng, tier):
        """-> list of histories (list of op lines)."""
        return []

    def search_histories(self, rng, tier, around=None):
        """extra histories for the failing-input search (default: fresh seeds of generate)."""
        return self.generate(rng, tier)

    def oracle(self, hist, impl_out):
        """Property statement checked on one implementation trace. -> list of (key, what, line_index)."""
        return []

    def nontrivial_key(self, hist, impl_out):
        """hashable signature of a history if non-trivial, else None (for distinct_nontrivial)."""
        return None

    def extra_stages(self, rep, tier, rng):
        """property-specific additional stages (translator ties etc). may call rep.violation."""
        return

    def replay_family(self, hdr):
        return self.family, self.harness_args


def safe_oracle(spec, h, io, strict=False):
    try:
        return spec.oracle(h, io)
    except Exception as e:
        if strict:
            raise
        return []


def _run_one(spec, exe, hist, model=True, family=None, hargs=None):
    fam = family or spec.family
    hargs = spec.harness_args if hargs is None else hargs
    io, ioc, ierr = core.run_impl(exe, hist, hargs, timeout=spec.timeout)
    if model:
        mo, moc, merr = core.run_model(fam, hist, timeout=spec.timeout)
    else:
        mo, moc, merr = [], "skipped", ""
    return io, ioc, ierr, mo, moc, merr


def corpus_histories(pid):
    res = []
    for f in sorted(glob.glob(os.path.join(core.ROOT, "corpus", "regress", pid, "*.txt"))):
        hdr, lines = core.read_replay(f)
        res.append((os.path.relpath(f, core.ROOT), hdr, lines))
    return res


def run_check(spec, tier, seed, replay=None):
    rep = core.Report(spec.pid, tier, seed, level=spec.level)
    rng = random.Random(seed * 1000003 + sum(map(ord, spec.pid)))
    rep.cov["trusted_base"] = list(spec.trusted_base)
    rep.assumptions = list(spec.assumptions)
    rep.cov["rule"] = spec.rule
    rep.cov["checker_cmd"] = "cd lean && lake build %s dsmodel && lake env lean <#print axioms file>" % " ".join(spec.props_modules)
    broken = []      # (kind, name, detail)

    # ---- stage 0: translator + model driver
    ok, tlog = core.translate()
    if not ok:
        broken.append(("translator", "tools/translate.py", tlog[-3000:]))
    ok, out, dt = core.lake_build(["dsmodel"])
    model_ok = ok
    if not ok:
        broken.append(("model-build", "dsmodel", out[-3000:]))

    # ---- stage 1: proof obligations
    required, discharged, axioms = [], [], {}
    for pm in spec.props_modules:
        ob = core.check_obligations(pm)
        required += ob["required"]
        discharged += ob["discharged"]
        axioms.update(ob.get("axioms", {}))
        for t, why in ob["broken"]:
            broken.append(("obligation", t, why + "\n" + ob["log"][-2500:]))
    rep.cov["obligations"] = len(required)
    rep.cov["discharged"] = len(discharged)
    rep.cov["theorems"] = discharged
    rep.cov["axioms_used"] = sorted(set(a for v in axioms.values() for a in v))

    # ---- stage 0b: harness
    exe = None
    if spec.harness:
        ok, exe, hlog = core.compile_harness(spec.harness)
        if not ok:
            broken.append(("harness-build", spec.harness, hlog[-3000:]))
            exe = None

    # ---- property-specific stages (translator tie, table obligations ...)
    try:
        spec.extra_stages(rep, tier, rng, broken)
    except TypeError:
        spec.extra_stages(rep, tier, rng)

    # ---- replay mode
    if replay:
        hdr, lines = core.read_replay(replay)
        if exe is None or not lines:
            print("replay: nothing to run (kind=%s)" % hdr.get("kind"))
            for b in broken:
                print("still-broken %s %s" % (b[0], b[1]))
            return rep_finish_replay(rep, broken, hdr)
        fam, hargs = spec.replay_family(hdr)
        io, ioc, ierr, mo, moc, merr = _run_one(spec, exe, lines, model_ok, fam, hargs)
        bad = spec.oracle(lines, io) if ioc == "ok" else [("safety:" + ioc, ierr[-500:], len(io))]
        d = core.first_diff(io, mo, spec.cmp) if model_ok else None
        for key, what, idx in bad:
            print("replay: oracle fails at line %d: %s %s" % (idx, key, what))
            rep.violation(key, dict(kind="oracle"), lines, True, what)
        if d is not None:
            print("replay: model/impl diverge at op %d: impl=%r model=%r" % (d, io[d] if d < len(io) else None, mo[d] if d < len(mo) else None))
            if not bad:
                rep.violation("correspondence", dict(kind="correspondence"), lines, False, "diverge at op %d" % d)
        if not bad and d is None:
            print("replay: passes (model == implementation, oracle clean)")
        return rep.finish(write_evidence=False)

    # ---- stage 3+4: correspondence and oracle
    hists = []
    for path, hdr, lines in corpus_histories(spec.pid):
        hists.append(("corpus:" + path, lines))
    gen = spec.generate(rng, tier) if exe else []
    for i, h in enumerate(gen):
        hists.append(("gen:%d" % i, h))

    mismatches = []   # (name, hist, idx, impl_line, model_line)
    oracle_fail = []  # (name, hist, key, what, idx)
    keys = set()
    nops = 0

    def work(item):
        name, h = item
        return (name, h) + _run_one(spec, exe, h, model_ok)

    results = core.pmap(work, hists) if exe else []
    opkinds = {}
    outcomes = {}
    for name, h, io, ioc, ierr, mo, moc, merr in results:
        nops += len(h)
        for l in h:
            k = l.split()[0] if l.split() else ""
            opkinds[k] = opkinds.get(k, 0) + 1
        outcomes[ioc] = outcomes.get(ioc, 0) + 1
        if ioc != "ok":
            oracle_fail.append((name, h, "safety:%s" % ioc, "implementation outcome %s after %d ops: %s" % (ioc, len(io), ierr[-600:]), len(io)))
            continue
        for key, what, idx in spec.oracle(h, io):
            oracle_fail.append((name, h, key, what, idx))
        if model_ok:
            if moc != "ok":
                mismatches.append((name, h, len(mo), "<model %s>" % moc, merr[-300:]))
            else:
                d = core.first_diff(io, mo, spec.cmp)
                if d is not None:
                    mismatches.append((name, h, d, io[d] if d < len(io) else "<missing>", mo[d] if d < len(mo) else "<missing>"))
        nk = spec.nontrivial_key(h, io)
        if nk is not None:
            keys.add(nk)
    rep.cov["evaluations"] = len(results)
    rep.cov["ops"] = nops
    rep.cov["op_kinds"] = opkinds
    rep.cov["impl_outcomes"] = outcomes
    rep.cov["distinct_nontrivial"] = len(keys)
    rep.cov["traces_validated_against_impl"] = sum(1 for r in results if r[3] == "ok") - len(set(m[0] for m in mismatches))
    rep.cov["samples"] = [h[:12] for _, h in hists[:2]] + [h[:12] for _, h in hists[-1:]]
    rep.cov["correspondence_mismatches"] = len(mismatches)

    # ---- stage 5: verdict
    def shrink_oracle(h, key):
        def fails(c):
            io, ioc, ierr = core.run_impl(exe, c, spec.harness_args, timeout=spec.timeout)
            if key.startswith("safety:"):
                return ioc == key.split(":", 1)[1]
            return ioc == "ok" and any(k == key for k, _, _ in safe_oracle(spec, c, io))
        return core.ddmin(h, fails, budget=120 if tier == "quick" else 400)

    done_keys = set()
    for name, h, key, what, idx in oracle_fail:
        if key in done_keys:
            continue
        done_keys.add(key)
        small = shrink_oracle(h[:idx + 1] if not key.startswith("safety:") else h, key)
        rep.violation(key, dict(kind="oracle" if not key.startswith("safety:") else "safety", source=name), small, True, what)

    if (broken or mismatches) and not oracle_fail:
        # SEARCH for a concrete failing input: more histories through implementation + oracle only
        found = None
        if exe:
            budget_s = 60 if tier == "quick" else 600
            t0 = time.time()
            rounds = 0
            # neighbourhood of the diverging histories first
            cands = [h for _, h, *_ in mismatches]
            while time.time() - t0 < budget_s and found is None and rounds < 40:
                rounds += 1
                more = spec.search_histories(rng, tier, around=cands)
                if not more:
                    break

                def w2(h):
                    io, ioc, ierr = core.run_impl(exe, h, spec.harness_args, timeout=spec.timeout)
                    if ioc != "ok":
                        return (h, "safety:" + ioc, ierr[-400:], len(io))
                    for key, what, idx in safe_oracle(spec, h, io):
                        return (h, key, what, idx)
                    return None
                for r in core.pmap(w2, more):
                    if r is not None:
                        found = r
                        break
            rep.cov["search_rounds"] = rounds
        if found is not None:
            h, key, what, idx = found
            small = shrink_oracle(h[:idx + 1] if not key.startswith("safety:") else h, key)
            rep.violation(key, dict(kind="oracle", source="search"), small, True, what)
        else:
            for kind, name, detail in broken:
                rep.violation("%s:%s" % (kind, name), dict(kind=kind, theorem=name, detail=detail[-1500:]), [], False,
                              "%s %s no longer checks" % (kind, name))
            for name, h, d, il, ml in mismatches[:3]:
                def fails(c, _cmp=spec.cmp):
                    io, ioc, _, mo, moc, _ = _run_one(spec, exe, c, True)
                    return ioc == "ok" and moc == "ok" and core.first_diff(io, mo, _cmp) is not None
                small = core.ddmin(h[:d + 1], fails, budget=80)
                rep.violation("correspondence", dict(kind="correspondence", source=name, op_index=d, impl=il[:300], model=ml[:300]),
                              small, False, "model and implementation diverge (op %d of %s)" % (d, name))
                break
    return rep.finish()


def rep_finish_replay(rep, broken, hdr):
    for kind, name, detail in broken:
        rep.violation("%s:%s" % (kind, name), dict(kind=kind, theorem=name, detail=detail[-1500:]), [], False, "%s %s no longer checks" % (kind, name))
    return rep.finish(write_evidence=False)

"""Combine per-sketch-kind / per-family parts (built separately) into one Spec per property."""
import glob, importlib, os
from . import core
from .runner import Spec


def _load(modname):
    try:
        return importlib.import_module("vlib.props." + modname)
    except ModuleNotFoundError as e:
        if e.name == "vlib.props." + modname:
            return None
        raise


def combined_spec(pid, modnames, props_prefix, extra_props=()):
    """modnames: candidate part modules (those that exist are used); props: every lean/DSProofs/Props/<prefix>_*.lean plus extra."""
    mods = [(m, _load(m)) for m in modnames]
    mods = [(n, m) for n, m in mods if m is not None]
    parts, tf, tb, asm, rules, texts = [], [], [], [], [], []
    for n, m in mods:
        ps = getattr(m, "PARTS", None) or ([m.PART] if hasattr(m, "PART") else [])
        if not ps and hasattr(m, "SPEC"):
            ps = m.SPEC.parts()
        for p in ps:
            if p.name == "main":
                p.name = n
            parts.append(p)
        sp = getattr(m, "SPEC", None)
        if sp is not None:
            tf += [x for x in sp.tfamilies if x not in tf]
            tb += [x for x in sp.trusted_base if x not in tb]
            asm += [x for x in sp.assumptions if x not in asm]
            if sp.rule:
                rules.append("[%s] %s" % (n, sp.rule))
        if hasattr(m, "CLAIM_TEXT"):
            texts.append("[%s] %s" % (n, m.CLAIM_TEXT))
    props = []
    for f in sorted(glob.glob(os.path.join(core.LEAN, "DSProofs", "Props", props_prefix + "_*.lean"))):
        props.append("DSProofs.Props." + os.path.basename(f)[:-5])
    for e in extra_props:
        if os.path.exists(os.path.join(core.LEAN, e.replace(".", "/") + ".lean")) and e not in props:
            props.append(e)

    class Combined(Spec):
        pass
    sp = Combined()
    sp.pid = pid
    sp.props_modules = props
    sp.tfamilies = tf
    sp.trusted_base = tb
    sp.assumptions = asm
    sp.rule = " || ".join(rules)
    sp._parts = parts
    sp.parts = lambda: sp._parts
    sp.part_modules = [n for n, _ in mods]
    subs = [m.SPEC for _, m in mods if getattr(m, "SPEC", None) is not None]

    def extra(rep, tier, rng, broken):
        for s_ in subs:          # every family's own stages (translator ties, table obligations, model self tests)
            s_.extra_stages(rep, tier, rng, broken)
    sp.extra_stages = extra
    sp.claim_texts = texts
    return sp

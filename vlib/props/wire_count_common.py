"""Shared machinery of the wire-format checks of group `count` (count-min, frequent items, VarOpt sketch, VarOpt union,
EBPPS): state generators, the two-phase tie (the Lean reader decodes what the code wrote), oracles for C09 / C10 / C11.
See docs/WIRE_GUIDE.md.  Harness: harness/wire_count_h.cpp; model driver: lean/Driver/WireCount.lean.
"""
import os, re, glob, random
from .. import core, gen
from ..runner import Part

HARNESS = "wire_count_h"
MODEL = "dsmodel_wire_count"
FAMILIES = ["countmin", "fi", "varopt", "vunion", "ebpps"]
BASELINE_DIR = {"countmin": "countmin", "fi": "fi", "varopt": "varopt", "vunion": "varopt", "ebpps": "ebpps"}
KIND_PREFIX = {"countmin": "cm", "fi": "fi", "varopt": "vo", "vunion": "vu", "ebpps": "eb"}
PROPS = {"countmin": "CountMin", "fi": "Fi", "varopt": "VarOpt", "vunion": "VarOpt", "ebpps": "Ebpps"}

CODE_NAMES = {"T": "throw", "A": "accept", "a": "accept-other-content", "S": "asan", "U": "ubsan", "O": "timeout",
              "C": "alloc_cap", "L": "leak", "X": "crash", "?": "no-result"}
SAFETY_CODES = set("SUOCLX?")


def fam_of_kind(kind):
    p = kind.split(":")[0]
    return {v: k for k, v in KIND_PREFIX.items()}[p]


def f(x):
    return gen.f64hex(float(x))


# ------------------------------------------------------------------------------------------------ generators

_STR_MODE = "mixed"


def rand_item(rng, ity, universe):
    v = rng.randrange(universe)
    if ity == "i":
        if rng.random() < 0.08:
            return str(rng.choice([0, -1, 2**63 - 1, -2**63, 2**32]))
        return str(v - universe // 3)
    if rng.random() < 0.06:
        return "-"                                   # empty string
    # (lengths above 15 bytes leave libstdc++'s small-string buffer: such items own heap memory, so an item that is constructed by a
    #  reader and never destroyed on a rejection path shows up in the allocation balance)
    if _STR_MODE == "long":
        n = rng.choice([17, 20, 24, 40])
        return "".join("%02x" % ((v * 7 + i * 13) % 255 + 1) for i in range(n - 2)) + "%02x%02x" % (v % 251 + 1, v // 251 + 1)
    n = rng.choice([1, 1, 2, 3, 5, 9, 17, 24, 40]) if rng.random() < 0.45 else 2
    return "".join("%02x" % ((v * 7 + i * 13) % 255 + 1) for i in range(n)) if n != 2 else "%02x%02x" % (v % 251 + 1, v // 251 + 1)


def dweight(rng, heavy=0.1):
    r = rng.random()
    if r < heavy:
        return f(rng.choice([50, 100, 1000, 12345.5]))
    if r < 0.5:
        return f(1.0)
    return f(rng.choice([0.5, 1.5, 2, 3, 0.25, 7, 10]))


class Hist:
    """builder of one history: allocates slots, records op lines"""

    def __init__(self, rng, zerofill=False):
        global _STR_MODE
        self.rng, self.ops, self.n = rng, [], 0
        _STR_MODE = rng.choice(["mixed", "long"])      # per history: in "long" histories EVERY string item owns heap memory
        if zerofill:
            # VarOpt union only: the pinned reader leaves the gadget's `marks_` beyond h uninitialised and get_result() of a
            # restored union then loads invalid bools (UBSan).  A quarter of the C09 union histories run without this switch
            # (they rediscover that finding); the others zero-fill allocations so that the remaining checks can run.
            self.ops.append("zerofill 1")

    def slot(self):
        self.n += 1
        return self.n - 1

    def add(self, line):
        self.ops.append(line)


def cm_state(h, rng, tier, cls=None):
    w = rng.choice(["i", "d"])
    seed = 9001 if rng.random() < 0.6 else rng.randrange(1, 2**64)
    nh = rng.choice([1, 2, 3, 4]); nb = rng.choice([3, 4, 5, 7, 8] if tier == "quick" else [3, 4, 5, 8, 13, 32])
    kind = "cm:%s:%d" % (w, seed)
    cls = cls or rng.choice(["empty", "single", "some", "some", "merge", "zero"])

    def mk():
        s = h.slot(); h.add("new %d %s %d %d" % (s, kind, nh, nb)); return s

    def wt():
        if w == "i":
            return str(rng.choice([1, 1, 2, 5, 100, -3, -1, 2**40]))
        return rng.choice([f(1), f(2.5), f(-1.25), f(1e9), f(0.125)])

    def fill(s, n):
        for _ in range(n):
            it = rand_item(rng, "i", 30) if rng.random() < 0.7 else "x" + (rand_item(rng, "s", 30).replace("-", "61"))
            h.add("upd %d %s %s" % (s, it, wt()))

    s = mk()
    if cls == "single":
        fill(s, 1)
    elif cls == "zero":
        h.add("upd %d 5 %s" % (s, "0" if w == "i" else f(0.0)))
    elif cls == "some":
        fill(s, rng.choice([2, 5, 20, 60]))
    elif cls == "merge":
        fill(s, rng.choice([0, 3, 10]))
        t = mk(); fill(t, rng.choice([1, 4, 12])); h.add("merge %d %d" % (s, t))
    return s, kind, cls, dict(cont=lambda a, b: cm_cont(h, rng, a, b, kind, nh, nb, wt))


def cm_cont(h, rng, a, b, kind, nh, nb, wt):
    for _ in range(rng.choice([1, 4, 10])):
        it = rand_item(rng, "i", 30); x = wt()
        h.add("upd2 %d %d %s %s 1" % (a, b, it, x))
    if rng.random() < 0.5:
        t = h.slot(); h.add("new %d %s %d %d" % (t, kind, nh, nb))
        for _ in range(3):
            h.add("upd %d %s %s" % (t, rand_item(rng, "i", 30), wt()))
        h.add("merge2 %d %d %d 1" % (a, b, t))


def fi_state(h, rng, tier, cls=None):
    ity = rng.choice(["i", "s"]); w = rng.choice(["u", "d"])
    lgmax = rng.choice([3, 3, 4, 5] if tier == "quick" else [3, 4, 5, 6, 7])
    lgst = rng.randrange(3, lgmax + 1)
    kind = "fi:%s:%s" % (ity, w)
    cls = cls or rng.choice(["empty", "single", "few", "purged", "purged", "merged", "merged"])
    cap = int(0.75 * 2**lgmax)

    def mk(lm=None, ls=None):
        s = h.slot(); h.add("new %d %s %d %d" % (s, kind, lm or lgmax, ls or lgst)); return s

    def wt():
        if w == "u":
            return str(rng.choice([1, 1, 1, 2, 3, 10, 1000, 2**33]))
        return rng.choice([f(1), f(1), f(2.5), f(0.5), f(100), f(1e12)])

    def fill(s, n, universe):
        for _ in range(n):
            h.add("upd %d %s %s" % (s, rand_item(rng, ity, universe), wt()))

    s = mk()
    if cls == "single":
        fill(s, 1, 10)
    elif cls == "few":
        fill(s, rng.randrange(2, max(3, cap)), max(2, cap - 1))
    elif cls == "purged":
        fill(s, rng.choice([3, 6, 12]) * cap, rng.choice([2, 4]) * cap + 3)
    elif cls == "merged":
        fill(s, rng.choice([0, 2, 3 * cap]), 3 * cap)
        for _ in range(rng.choice([1, 2])):
            t = mk(rng.choice([lgmax, 3, lgmax + 1]), 3); fill(t, rng.choice([1, cap, 4 * cap]), 3 * cap + 5)
            h.add("merge %d %d" % (s, t))

    def cont(a, b):
        for _ in range(rng.choice([1, 5, 3 * cap])):
            it = rand_item(rng, ity, 3 * cap); x = wt()
            h.add("upd2 %d %d %s %s 1" % (a, b, it, x))
        if rng.random() < 0.5:
            t = mk(lgmax, 3); fill(t, rng.choice([2, 2 * cap]), 3 * cap)
            h.add("merge2 %d %d %d 1" % (a, b, t))
    return s, kind, cls, dict(cont=cont)


def vo_fill(h, rng, s, ity, n, universe, heavy):
    for _ in range(n):
        h.add("seed %d" % rng.randrange(1, 2**32))
        h.add("upd %d %s %s" % (s, rand_item(rng, ity, universe), dweight(rng, heavy)))


def vo_state(h, rng, tier, cls=None, ity=None, k=None):
    ity = ity or rng.choice(["i", "s"])
    k = k or rng.choice([1, 2, 3, 4, 5, 8] if tier == "quick" else [1, 2, 3, 5, 8, 9, 16, 33])
    rf = rng.randrange(4)
    kind = "vo:%s" % ity
    cls = cls or rng.choice(["empty", "single", "warmup", "exact-full", "first-sampling", "sampling", "sampling", "heavy-mix", "all-equal"])
    s = h.slot(); h.add("new %d %s %d %d" % (s, kind, k, rf))
    if cls == "single":
        vo_fill(h, rng, s, ity, 1, 10, 0.1)
    elif cls == "warmup":
        vo_fill(h, rng, s, ity, rng.randrange(1, max(2, k)), 50, 0.2)
    elif cls == "exact-full":
        vo_fill(h, rng, s, ity, k, 50, 0.2)
    elif cls == "first-sampling":
        vo_fill(h, rng, s, ity, k + 1, 50, 0.2)
    elif cls == "sampling":
        vo_fill(h, rng, s, ity, k + rng.choice([2, 5, 20, 60]), 100, 0.1)
    elif cls == "heavy-mix":
        vo_fill(h, rng, s, ity, k + rng.choice([3, 10, 40]), 100, 0.35)
    elif cls == "all-equal":
        for _ in range(k + rng.choice([1, 4, 15])):
            h.add("seed %d" % rng.randrange(1, 2**32)); h.add("upd %d %s %s" % (s, rand_item(rng, ity, 100), f(1.0)))

    def cont(a, b):
        for _ in range(rng.choice([1, 3, k + 2, 3 * k])):
            it = rand_item(rng, ity, 100); x = dweight(rng, 0.15); sd = rng.randrange(1, 2**32)
            h.add("upd2 %d %d %s %s %d" % (a, b, it, x, sd))
    return s, kind, cls, dict(cont=cont, ity=ity, k=k)


def vu_state(h, rng, tier, cls=None):
    ity = rng.choice(["i", "s"])
    maxk = rng.choice([1, 2, 3, 4, 6, 8] if tier == "quick" else [1, 2, 3, 5, 8, 12, 20])
    kind = "vu:%s" % ity
    cls = cls or rng.choice(["empty", "empty-input", "exact", "sampling-one", "marks", "marks", "marks-wide", "mixed-k", "many"])
    if cls == "marks-wide":
        maxk = rng.choice([24, 40, 64])      # a gadget whose H region spans several bytes of the packed mark bits
    u = h.slot(); h.add("new %d %s %d" % (u, kind, maxk))

    def inp(c, k=None):
        s, _, _, _ = vo_state(h, rng, tier, cls=c, ity=ity, k=k or maxk)
        h.add("seed %d" % rng.randrange(1, 2**32)); h.add("merge %d %d" % (u, s))

    if cls == "empty-input":
        inp("empty")
    elif cls == "exact":
        inp(rng.choice(["single", "warmup"]), k=maxk + rng.choice([0, 3]))
    elif cls == "sampling-one":
        inp(rng.choice(["sampling", "heavy-mix", "all-equal"]))
    elif cls == "marks":
        # sampling inputs whose R items are heavy for the gadget: they stay in H, marked
        inp(rng.choice(["sampling", "all-equal"]), k=max(1, maxk // 2) if rng.random() < 0.5 else maxk)
        inp(rng.choice(["warmup", "single", "sampling"]), k=rng.choice([maxk, maxk + 2]))
    elif cls == "marks-wide":
        # small sampling inputs (their R items are heavy for the large gadget and stay in H, marked) alternating with exact inputs
        # (unmarked): marked and unmarked H items more than 8 slots apart, in either order
        order = rng.choice([["s", "e"], ["e", "s"], ["s", "e", "s", "e"], ["s", "s", "e"]])
        for o in order:
            if o == "s":
                inp(rng.choice(["all-equal", "sampling"]), k=rng.choice([4, 8, 9]))
            else:
                inp("exact-full", k=rng.choice([9, 12, 17]))
    elif cls == "mixed-k":
        for _ in range(rng.choice([2, 3])):
            inp(rng.choice(["warmup", "sampling", "heavy-mix", "all-equal", "exact-full"]), k=rng.choice([1, 2, maxk, maxk + 1, 2 * maxk]))
    elif cls == "many":
        for _ in range(rng.choice([3, 5])):
            inp(rng.choice(["sampling", "heavy-mix", "warmup", "empty"]), k=rng.choice([maxk, maxk + 3]))

    def cont(a, b):
        for _ in range(rng.choice([1, 2])):
            s, _, _, _ = vo_state(h, rng, tier, ity=ity, k=rng.choice([maxk, max(1, maxk - 1), maxk + 2]))
            sd = rng.randrange(1, 2**32)
            h.add("merge2 %d %d %d %d" % (a, b, s, sd))
    return u, kind, cls, dict(cont=cont)


def eb_state(h, rng, tier, cls=None):
    ity = rng.choice(["i", "s"])
    k = rng.choice([1, 2, 3, 4, 6] if tier == "quick" else [1, 2, 3, 5, 8, 13])
    kind = "eb:%s" % ity
    cls = cls or rng.choice(["empty", "single", "under-k-equal", "equal", "unequal", "unequal", "merged", "merged"])

    def mk(kk=None):
        s = h.slot(); h.add("new %d %s %d" % (s, kind, kk or k)); return s

    def fill(s, n, equal):
        for _ in range(n):
            h.add("seed %d" % rng.randrange(1, 2**32))
            h.add("upd %d %s %s" % (s, rand_item(rng, ity, 60), f(1.0) if equal else dweight(rng, 0.15)))

    s = mk()
    if cls == "single":
        fill(s, 1, rng.random() < 0.5)
    elif cls == "under-k-equal":
        fill(s, rng.randrange(1, k + 1), True)
    elif cls == "equal":
        fill(s, k + rng.choice([1, 5, 20]), True)
    elif cls == "unequal":
        fill(s, rng.choice([2, 3, k + 1, k + 7, 40]), False)
    elif cls == "merged":
        fill(s, rng.choice([0, 2, k + 3]), rng.random() < 0.3)
        for _ in range(rng.choice([1, 2])):
            t = mk(rng.choice([k, k + 1, max(1, k - 1)])); fill(t, rng.choice([1, 3, k + 4]), rng.random() < 0.3)
            h.add("seed %d" % rng.randrange(1, 2**32)); h.add("merge %d %d" % (s, t))

    def cont(a, b):
        for _ in range(rng.choice([1, 3, k + 2])):
            it = rand_item(rng, ity, 60); x = dweight(rng, 0.15); sd = rng.randrange(1, 2**32)
            h.add("upd2 %d %d %s %s %d" % (a, b, it, x, sd))
        if rng.random() < 0.5:
            t = mk(k); fill(t, rng.choice([2, k + 2]), False)
            sd = rng.randrange(1, 2**32)
            h.add("merge2 %d %d %d %d" % (a, b, t, sd))
    return s, kind, cls, dict(cont=cont)


STATE_GEN = {"countmin": cm_state, "fi": fi_state, "varopt": vo_state, "vunion": vu_state, "ebpps": eb_state}
CLASSES = {
    "countmin": ["empty", "single", "some", "merge", "zero"],
    "fi": ["empty", "single", "few", "purged", "merged"],
    "varopt": ["empty", "single", "warmup", "exact-full", "first-sampling", "sampling", "heavy-mix", "all-equal"],
    "vunion": ["empty", "empty-input", "exact", "sampling-one", "marks", "marks-wide", "mixed-k", "many"],
    "ebpps": ["empty", "single", "under-k-equal", "equal", "unequal", "merged"],
}


def class_schedule(fam, rng, n):
    """every state class at least once, then random"""
    cl = list(CLASSES[fam])
    out = cl[:n] if n <= len(cl) else cl + [rng.choice(cl) for _ in range(n - len(cl))]
    rng.shuffle(out)
    return out


# ------------------------------------------------------------------------------------------------ model access

def model_lines_for(impl_out):
    return [" ".join(l.split()[:3]) for l in impl_out if l.startswith("IMG ")]


def parse_img(line):
    """IMG kind hex | content | checks -> dict"""
    parts = [p.strip() for p in line.split("|")]
    w = parts[0].split()
    return dict(kind=w[1], hex=w[2], content=parts[1] if len(parts) > 1 else "", checks=parts[2] if len(parts) > 2 else "")


def img_len(hexs):
    return 0 if hexs == "-" else len(hexs) // 2


def expected_D(content, n):
    return "D %s | re=1 size=%d len=%d minpfx=%d" % (content, n, n, n)


_MARK = re.compile(r"^D VU n=(\d+) M gm=([01]*) \|")


def norm_model_line(mline, expected, extra=""):
    """strip the layout; a union image with marked items determines n and the marks of the gadget's H items (the model prints
    `VU n=<n> M gm=<marks>`): both must equal what the object itself reports (n through get_result(), marks through hook H4)"""
    m = mline.split(" layout=")[0]
    mm = _MARK.match(m)
    if mm:
        em = re.match(r"^D VU k=\d+ n=(\d+) ", expected)
        if em and em.group(1) == mm.group(1) and extra == "gm=" + mm.group(2):
            return expected.split(" | ")[0] + " | " + m.split(" | ", 1)[1]
    return m


def layouts(kind_hex_pairs):
    """-> {(kind, hex): [(field, offset)...]} via the Lean model"""
    pairs = list(dict.fromkeys(kind_hex_pairs))
    if not pairs:
        return {}
    out, oc, err = core.run_model(MODEL, None, ["IMG %s %s" % p for p in pairs])
    res = {}
    for p, l in zip(pairs, out):
        lay = []
        if " layout=" in l:
            for x in l.split(" layout=")[1].split(","):
                nm, off = x.rsplit(":", 1)
                lay.append((nm, int(off)))
        res[p] = lay
    return res


def field_at(lay, n):
    cur = "?"
    for nm, off in lay:
        if off <= n:
            cur = nm
    return cur


# ------------------------------------------------------------------------------------------------ parts

class WirePart(Part):
    harness = HARNESS
    model_exe = MODEL
    family = None          # no sub-command: the kind is on every line
    timeout = 600

    def __init__(self, fam):
        self.name = fam
        self.fam = fam

    def model_lines(self, hist, impl_out):
        return model_lines_for(impl_out)

    def expected_model_out(self, hist, impl_out):
        res = []
        for l in impl_out:
            if l.startswith("IMG "):
                d = parse_img(l)
                res.append(expected_D(d["content"], img_len(d["hex"])))
        return res

    def diff(self, hist, impl_out, model_out):
        exp = self.expected_model_out(hist, impl_out)
        ex = [(l.split(" | ") + ["", "", ""])[3].strip() for l in impl_out if l.startswith("IMG ")]
        mo = [norm_model_line(m, e, x) for m, e, x in zip(model_out, exp, ex)] + model_out[len(exp):]
        return core.first_diff(exp, mo, None)


class C09Part(WirePart):
    """reachable states -> ser (all C++-only checks) + deserialize-then-continue"""

    def generate(self, rng, tier):
        n = 10 if tier == "quick" else 120
        hs = []
        for j, cls in enumerate(class_schedule(self.fam, rng, n)):
            h = Hist(rng, zerofill=(self.fam == "vunion" and j % 4 != 0))
            s, kind, cls, aux = STATE_GEN[self.fam](h, rng, tier, cls=cls)
            h.add("ser %d" % s)
            for via in ("b", "s"):
                r = h.slot()
                h.add("fork %d %d %s" % (s, r, via))
                h.add("eq %d %d" % (s, r))
                if via == "b" or rng.random() < 0.5:
                    aux["cont"](s, r)
                    h.add("eq %d %d" % (s, r))
                    h.add("ser %d" % s)
                    h.add("ser %d" % r)
            if self.fam == "vunion":
                v = h.slot(); h.add("result %d %d" % (s, v)); h.add("ser %d" % v)
            hs.append(h.ops)
        return hs

    def oracle(self, hist, impl_out):
        bad = []
        broken_pairs = set()      # (a, b) whose continuation already failed asymmetrically: later comparisons say nothing new
        for i, (l, o) in enumerate(zip(hist, impl_out)):
            op = l.split()[0]
            if op in ("upd2", "merge2") and o.startswith("ASYM "):
                w = l.split()
                broken_pairs.add((w[1], w[2]))
                bad.append(("%s/continue-%s" % (self.fam, o.split()[1]),
                            "`%s`: the same operation under the same draws throws on only one of original / restored sketch" % l[:120], i))
                continue
            if op == "eq" and tuple(l.split()[1:3]) in broken_pairs:
                continue
            if o.startswith("ERR "):
                continue
            if op == "ser":
                if o.startswith("SERCRASH "):
                    w = o.split()
                    bad.append(("%s/ser-%s" % (self.fam, w[2]), "%s: sanitizer abort inside serialize/deserialize/getters of a VALID sketch (%s)" % (w[1], w[2]), i)); continue
                if not o.startswith("IMG "):
                    bad.append(("%s/serialize-throws" % self.fam, o[:120], i)); continue
                d = parse_img(o)
                if d["checks"] != "ok":
                    for c in d["checks"].replace("FAIL:", "").split(","):
                        bad.append(("%s/%s" % (self.fam, c), "%s: %s fails for image %s" % (d["kind"], c, d["hex"][:160]), i))
            elif op == "eq":
                if o.startswith("EQ X"):
                    for c in (o[4:].strip() or "content-crash").split(","):
                        bad.append(("%s/%s" % (self.fam, c), "public API call needed for the comparison crashed: %s" % o[:200], i))
                elif not o.startswith("EQ "):
                    bad.append(("%s/eq-throws" % self.fam, o[:120], i))
                elif o.strip() != "EQ 1":
                    bad.append(("%s/%s" % (self.fam, "restore-differs" if hist[i - 1].startswith("fork") else "continue-diverges"), o[:300], i))
            elif op in ("fork", "result"):
                if o.startswith("DIAG "):
                    bad.append(("%s/%s" % (self.fam, o.split()[1]), "state defect visible through the public API before serialization (%s)" % l, i))
                elif o.strip() != "ok":
                    bad.append(("%s/%s-throws" % (self.fam, op), o[:120], i))
        return bad

    def nontrivial_key(self, hist, impl_out):
        imgs = [parse_img(o) for o in impl_out if o.startswith("IMG ")]
        big = [d for d in imgs if img_len(d["hex"]) > 16]
        if not big:
            return None
        return tuple((d["kind"].split(":")[0], img_len(d["hex"])) for d in big[:3]) + (hash(big[0]["hex"]) & 0xffff,)


def baseline_lines(fam):
    res = []
    d = os.path.join(core.ROOT, "corpus", "baseline", BASELINE_DIR[fam])
    for fn in sorted(glob.glob(os.path.join(d, "*.txt"))):
        for l in open(fn):
            l = l.strip()
            if l.startswith("IMG ") and fam_of_kind(l.split()[1]) == fam:
                res.append((os.path.basename(fn), l))
    return res


class C10Part(WirePart):
    """(i) fresh images: the documented reader recovers the API content; (iv) baseline corpus decodes to the recorded content"""

    def generate(self, rng, tier):
        hs = []
        bl = baseline_lines(self.fam)
        for i in range(0, len(bl), 12):
            hs.append((["zerofill 1"] if self.fam == "vunion" else []) +
                      ["load %s %s | %s" % (parse_img(l)["kind"], parse_img(l)["hex"], parse_img(l)["content"]) for _, l in bl[i:i + 12]])
        if not bl:
            hs.append(["load-missing-baseline-corpus %s" % self.fam])
        n = 6 if tier == "quick" else 60
        sched = class_schedule(self.fam, rng, n)
        if self.fam == "vunion":
            # the packed mark bits are the one field whose bytes depend on a PATTERN (which H items are marked, across byte boundaries):
            # several patterns per run, not one
            sched += ["marks-wide"] * (5 if tier == "quick" else 30) + ["marks"] * 2
        for cls in sched:
            h = Hist(rng, zerofill=(self.fam == "vunion"))
            s, kind, cls, aux = STATE_GEN[self.fam](h, rng, tier, cls=cls)
            h.add("ser %d" % s)
            hs.append(h.ops)
        return hs

    def expected_model_out(self, hist, impl_out):
        # for baseline images the expectation is the RECORDED content (not what the current tree reports)
        res = []
        for l, o in zip(hist, impl_out):
            if not o.startswith("IMG "):
                continue
            d = parse_img(o)
            content = l.split("|", 1)[1].strip() if l.startswith("load ") and "|" in l else d["content"]
            res.append(expected_D(content, img_len(d["hex"])))
        return res

    def oracle(self, hist, impl_out):
        bad = []
        for i, (l, o) in enumerate(zip(hist, impl_out)):
            w = l.split()
            if w[0].startswith("load-missing"):
                bad.append(("%s/baseline-corpus-missing" % self.fam, "corpus/baseline/%s has no images" % BASELINE_DIR[self.fam], i))
            elif w[0] == "load":
                want = l.split("|", 1)[1].strip()
                if not o.startswith("IMG "):
                    bad.append(("%s/baseline-image-rejected" % self.fam, "%s %s" % (w[1], w[2][:160]), i)); continue
                d = parse_img(o)
                if d["checks"] != "ok":
                    cs = d["checks"].replace("FAIL:", "").split(",")
                    if any(c in ("bytes-throws", "stream-throws") for c in cs):
                        bad.append(("%s/baseline-image-rejected" % self.fam, "%s %s: %s" % (w[1], w[2][:160], d["checks"]), i))
                    else:
                        for c in cs:
                            bad.append(("%s/baseline-%s" % (self.fam, c), "%s %s: %s" % (w[1], w[2][:160], d["checks"]), i))
                elif d["content"] != want:
                    bad.append(("%s/baseline-content-changed" % self.fam, "%s %s: recorded `%s`, now `%s`" % (w[1], w[2][:120], want[:200], d["content"][:200]), i))
            elif w[0] == "ser" and o.startswith("SERCRASH "):
                ww = o.split()
                bad.append(("%s/ser-%s" % (self.fam, ww[2]), "%s: sanitizer abort / exception inside serialize/deserialize/getters of a VALID sketch (%s)" % (ww[1], ww[2]), i))
            elif w[0] == "ser" and not o.startswith("IMG "):
                bad.append(("%s/serialize-throws" % self.fam, o[:120], i))
            elif w[0] == "ser":
                # one object, two writers (+ the header variants): the model reads the byte-vector image; a stream image that differs
                # from it cannot be the documented layout as well (the round-trip checks of the same line belong to C09)
                for c in parse_img(o)["checks"].replace("FAIL:", "").split(","):
                    if c == "stream-ne-bytes" or c.startswith("header"):
                        bad.append(("%s/writers-disagree:%s" % (self.fam, c), "%s: %s (byte-vector image %s)" % (parse_img(o)["kind"], c, parse_img(o)["hex"][:100]), i))
        return bad

    def nontrivial_key(self, hist, impl_out):
        imgs = [parse_img(o) for o in impl_out if o.startswith("IMG ")]
        big = [d for d in imgs if img_len(d["hex"]) > 16]
        return (hist[0].split()[0], len(big), hash(big[0]["hex"]) & 0xffff) if big else None


def parse_c11(line):
    """C11 kind hex npre | b=.. | s=.. | cb=.. | cs=.."""
    parts = [p.strip() for p in line.split("|")]
    w = parts[0].split()
    d = dict(kind=w[1], hex=w[2], npre=int(w[3]))
    for p in parts[1:]:
        k, v = p.split("=", 1)
        d[k] = "" if v == "-" else v
    return d


class C11Part(WirePart):
    """every prefix length of every image on both paths; every preamble byte x 8 replacements on both paths"""
    stats = None

    def generate(self, rng, tier):
        n = 8 if tier == "quick" else 60
        hs = []
        for cls in class_schedule(self.fam, rng, n):
            h = Hist(rng, zerofill=(self.fam == "vunion"))
            s, kind, cls, aux = STATE_GEN[self.fam](h, rng, tier, cls=cls)
            # the set-up on ONE line: the failing-input shrinker then needs two or three runs of the (expensive) c11 op
            hs.append(["do " + " ; ".join(h.ops), "c11 %d" % s])
        return hs

    def model_lines(self, hist, impl_out):
        res = []
        for o in impl_out:
            if o.startswith("C11 "):
                d = parse_c11(o)
                res += ["PFX %s %s" % (d["kind"], d["hex"]), "CORR %s %s %d" % (d["kind"], d["hex"], d["npre"])]
        return res

    def expected_model_out(self, hist, impl_out):
        """the theorem `prefix_rejected`: the specification reader rejects EVERY strict prefix; corruption verdicts of
        the model are recorded (agreement statistics), not compared"""
        res = []
        for o in impl_out:
            if o.startswith("C11 "):
                d = parse_c11(o)
                res += ["R" * img_len(d["hex"]) or "-", None]
        return res

    def diff(self, hist, impl_out, model_out):
        exp = self.expected_model_out(hist, impl_out)
        c11 = [parse_c11(o) for o in impl_out if o.startswith("C11 ")]
        for i, e in enumerate(exp):
            m = model_out[i] if i < len(model_out) else "<missing>"
            if e is None:
                # corruption: agreement statistics (reject <-> throw)
                d = c11[i // 2]
                if self.stats is not None and len(m) == len(d.get("cb", "")):
                    for path in ("cb", "cs"):
                        for x, y in zip(d[path], m):
                            if x == "=":
                                continue
                            k = "agree" if (x == "T") == (y == "R") else ("impl-accepts-model-rejects" if y == "R" else "impl-rejects-model-accepts")
                            self.stats[k] = self.stats.get(k, 0) + 1
                continue
            if m.strip() != e:
                return i
        return None

    def oracle(self, hist, impl_out):
        bad = []
        c11 = [(i, parse_c11(o)) for i, o in enumerate(impl_out) if o.startswith("C11 ")]
        for i, (l, o) in enumerate(zip(hist, impl_out)):
            if l.split()[0] in ("c11", "c11x") and not o.startswith("C11 "):
                bad.append(("%s/c11-run-failed" % self.fam, o[:200], i))
        lay = layouts([(d["kind"], d["hex"]) for _, d in c11])
        for i, d in c11:
            L = lay.get((d["kind"], d["hex"]), [])
            n = img_len(d["hex"])
            if self.stats is not None:
                self.stats["images"] = self.stats.get("images", 0) + 1
                self.stats["prefixes"] = self.stats.get("prefixes", 0) + 2 * n
                self.stats["corruptions"] = self.stats.get("corruptions", 0) + sum(1 for c in d["cb"] + d["cs"] + d.get("xb", "") + d.get("xs", "") if c != "=")
            for path, key in (("bytes", "b"), ("stream", "s")):
                v = d[key]
                if len(v) != n:
                    bad.append(("%s/c11-run-failed" % self.fam, "verdict string length %d for %d prefixes" % (len(v), n), i)); continue
                groups = {}
                for k, c in enumerate(v):
                    if c != "T":
                        groups.setdefault((CODE_NAMES.get(c, c), field_at(L, k)), []).append(k)
                for (oc, fld), ks in sorted(groups.items()):
                    bad.append(("%s/%s/prefix/%s@%s" % (self.fam, path, oc, fld),
                                "%s: deserialize(%s) of the first n bytes, n in %s of %d: %s (a strict prefix must be rejected with an exception); image %s"
                                % (d["kind"], path, compress(ks), n, oc, d["hex"][:1600]), i))
            for path, key in (("bytes", "cb"), ("stream", "cs")):
                v = d[key]
                groups = {}
                for k, c in enumerate(v):
                    if c in SAFETY_CODES:
                        pos, j = divmod(k, 8)
                        groups.setdefault((CODE_NAMES.get(c, c), field_at(L, pos)), []).append((pos, j))
                for (oc, fld), ks in sorted(groups.items()):
                    bad.append(("%s/%s/corrupt/%s@%s" % (self.fam, path, oc, fld),
                                "%s: deserialize(%s) after replacing one preamble byte (position:replacement %s): %s; image %s"
                                % (d["kind"], path, ",".join("%d:%s" % (p, repl_name(j)) for p, j in ks[:6]), oc, d["hex"][:1600]), i))
            for path, key in (("bytes", "xb"), ("stream", "xs")):
                v = d.get(key, "")
                groups = {}
                for k, c in enumerate(v):
                    if c in SAFETY_CODES:
                        wi, j = divmod(k, 7)
                        groups.setdefault((CODE_NAMES.get(c, c), field_at(L, 4 * wi)), []).append((4 * wi, j))
                for (oc, fld), ks in sorted(groups.items()):
                    bad.append(("%s/%s/corrupt-word/%s@%s" % (self.fam, path, oc, fld),
                                "%s: deserialize(%s) after overwriting a 32-bit preamble word (offset:attack %s): %s; image %s"
                                % (d["kind"], path, ",".join("%d:%s" % (p, word_name(j)) for p, j in ks[:6]), oc, d["hex"][:1600]), i))
        return bad

    def nontrivial_key(self, hist, impl_out):
        c = [parse_c11(o) for o in impl_out if o.startswith("C11 ")]
        big = [d for d in c if img_len(d["hex"]) > 16]
        return (big[0]["kind"].split(":")[0], img_len(big[0]["hex"]), hash(big[0]["hex"]) & 0xffff) if big else None


def word_name(j):
    return ["ffffffff", "7fffffff", "80000000", "w-1", "w+1", "(w+5,next-5)", "(w-5,next+5)"][j]


def repl_name(j):
    return ["00", "01", "7f", "80", "ff", "b^1", "b^80", "b+1"][j]


def compress(ks):
    """[3,4,5,9] -> '3..5,9'"""
    out, i = [], 0
    while i < len(ks):
        j = i
        while j + 1 < len(ks) and ks[j + 1] == ks[j] + 1:
            j += 1
        out.append("%d" % ks[i] if i == j else "%d..%d" % (ks[i], ks[j]))
        i = j + 1
    return ",".join(out)


TRUSTED = ["Lean 4.33 kernel", "axioms: propext, Quot.sound, Classical.choice",
           "tools/trules/wire_count.py (wire constants and literal shapes re-extracted from the headers every run)",
           "harness/wire_count_h.cpp (drives the real readers/writers in-process under ASan+UBSan, tracking allocator with a 256 MiB cap, fork per crash)",
           "generators of reachable states (sampled images; prefix and preamble-corruption enumeration is exhaustive per image)",
           "DSModel/Murmur3.lean for the count-min seed hash"]


# ------------------------------------------------------------------------------------------------ baseline corpus

def make_baseline(repo_bin=None):
    """Write corpus/baseline/<family>/*.txt from the tree the harness was compiled against (run once on the pinned tree)."""
    ok, exe, log = core.compile_harness(HARNESS)
    if not ok:
        raise SystemExit(log)
    rng = random.Random(20260926)
    for fam in FAMILIES:
        lines = []
        for rep in range(3):
            for cls in CLASSES[fam]:
                h = Hist(rng, zerofill=(fam == "vunion"))
                s, kind, cls, aux = STATE_GEN[fam](h, rng, "quick", cls=cls)
                h.add("ser %d" % s)
                out, oc, err = core.run_impl(exe, h.ops)
                if oc != "ok":
                    raise SystemExit("harness failed: %s %s" % (oc, err[-500:]))
                for o in out:
                    if o.startswith("IMG "):
                        d = parse_img(o)
                        lines.append("IMG %s %s | %s" % (d["kind"], d["hex"], d["content"]))
        lines = list(dict.fromkeys(lines))
        d = os.path.join(core.ROOT, "corpus", "baseline", BASELINE_DIR[fam])
        os.makedirs(d, exist_ok=True)
        with open(os.path.join(d, "%s_states.txt" % fam), "w") as fh:
            rc, head = core.sh(["git", "-C", core.REPO, "rev-parse", "HEAD"])
            fh.write("# baseline images of family %s written by harness/wire_count_h.cpp from the pinned tree %s (commit %s); lines: IMG <kind> <hex> | <API content>\n" % (fam, core.REPO, head.strip()))
            fh.write("\n".join(lines) + "\n")
        print(fam, len(lines), "images")




# ------------------------------------------------------------------------------------------------ known findings of this group
# One rule per root cause: (property, key template, {placeholder: values}, proposed fix, what[, /repo commit that fixed it]).  `python3 -m vlib.props.wire_count_common findings`
# rewrites the entries of group "count" in known_findings.json from these rules (the templates are expanded; a key is listed only if it
# names a place where that root cause can show).  Every root cause was reproduced with a tiny program (proposed_fixes/*.md).
P2 = ["bytes", "stream"]
W2 = ["", "-word"]
FINDING_RULES = [
    ("C09", "{f}/continue-restored-throws", dict(f=["varopt", "vunion"]), "C09-varopt-restored-m-region",
     "var_opt_sketch::deserialize passes m = 1 for sampling-mode images: the restored sketch/gadget throws std::logic_error on the next heavy update", "dbbe534"),
    ("C09", "vunion/{k}", dict(k=["restored-bytes-api-throws", "restored-stream-api-throws", "ser-api-throws", "api-throws"]), "C09-varopt-restored-m-region",
     "get_result() of a restored union throws (gadget restored with m = 1)", "dbbe534"),
    ("C10", "vunion/baseline-restored-{p}-api-throws", dict(p=P2), "C09-varopt-restored-m-region",
     "get_result() of a union restored from a baseline image throws (gadget restored with m = 1)", "dbbe534"),
    ("C09", "vunion/get-result-ubsan:move.h:load-of-value-which-is", {}, "C09-varopt-gadget-marks-uninitialised",
     "deserialize leaves marks_[h..] of a gadget uninitialised; get_result() of the restored union swaps them (UBSan invalid bool load)", "cb4d600"),
    ("{c}", "ebpps/ser-ubsan:serde.hpp:null-pointer-passed-as-argument", dict(c=["C09", "C10"]), "C09-serde-null-memcpy",
     "serialize(bytes) of an EBPPS sample without full items: memcpy(ptr, nullptr, 0)", "993b0e0"),
    ("C09", "ebpps/state-items-ne-floor-c", {}, "C09-ebpps-items-vs-c",
     "reachable EBPPS state (after merge) holds fewer full items than floor(c); its own image is rejected by the reader", "a254b8d"),
    ("C11", "countmin/bytes/prefix/asan@cells", {}, "C11-countmin-reader",
     "D8: ensure_minimum_memory omits the 16 preamble bytes; the last 16 prefix lengths read past the buffer"),
    ("C11", "countmin/stream/prefix/{o}@{fld}", dict(o=["accept", "accept-other-content"], fld=["pre", "cfg", "weight", "cells"]), "C11-countmin-reader",
     "deserialize(istream) never checks the stream state: truncated streams are accepted with indeterminate content"),
    ("C11", "countmin/{p}/corrupt{w}/asan@cfg", dict(p=P2, w=W2), "C11-countmin-reader",
     "num_buckets * num_hashes limit check wrapped in 32 bits (repaired in /repo by b9ee092); still: the size check omits the preamble, so num_hashes + 1 passes and the cell loop reads past the buffer"),
    ("C11", "countmin/{p}/corrupt{w}/ubsan@cfg", dict(p=P2, w=W2), "C11-countmin-reader",
     "num_hashes = 0 accepted; get_estimate dereferences min_element of an empty vector"),
    ("C11", "countmin/{p}/corrupt{w}/alloc_cap@cfg", dict(p=P2, w=W2), "C11-countmin-reader + C11-config-dictated-allocation",
     "table allocated from unchecked num_buckets*num_hashes before any size check (non-empty bytes images: fixed by the patch; empty images / streams: by design)"),
    ("C11", "fi/{p}/corrupt{w}/ubsan@pre", dict(p=P2, w=W2), "C11-fi-reader", "lg_max_map_size has no upper bound: 1 << lg_max is undefined (get_epsilon, hash map)"),
    ("C11", "fi/stream/prefix/{o}@{fld}", dict(o=["ubsan", "alloc_cap"], fld=["pre", "count", "total", "offset"]), "C11-fi-reader",
     "stream reader uses lg sizes / num_items read from a truncated stream without checking the stream state"),
    ("C11", "fi/stream/corrupt{w}/{o}@{fld}", dict(w=W2, o=["alloc_cap", "timeout"], fld=["count", "pre"]), "C11-fi-reader + C11-serde-string-stream",
     "num_items (or a string length seen at a shifted position) drives allocation before anything is read"),
    ("C11", "fi/bytes/corrupt{w}/ubsan@count", dict(w=W2), "C11-fi-reader", "num_items = 0 in a non-empty image: memcpy with a null destination", "993b0e0"),
    ("C11", "varopt/{p}/corrupt-word/asan@h_r", dict(p=P2), "C11-varopt-reader", "h + r == k checked in 32 bits: (h+5, r-5) passes, h weights overflow the k+1 array (heap WRITE)"),
    ("C11", "varopt/stream/corrupt{w}/{o}@{fld}", dict(w=W2, o=["alloc_cap", "timeout"], fld=["n", "h_r", "total_wt_r", "weights"]), "C11-serde-string-stream",
     "string serde (stream): unchecked length drives reserve and an unbounded push_back loop"),
    ("C11", "varopt/{p}/corrupt{w}/alloc_cap@pre", dict(p=P2, w=W2), "C11-config-dictated-allocation", "k of an (empty) image dictates the allocation (resize factor X1)"),
    ("C11", "varopt/stream/corrupt{w}/timeout@pre", dict(w=W2), "C11-serde-string-stream",
     "gadget flag set on a string-item sketch: the item lengths are read at a shifted position; string serde (stream) loops on an unchecked length"),
    ("C11", "vunion/bytes/prefix/asan@{fld}", dict(fld=["un", "outer_tau_num", "outer_tau_den"]), "C11-varopt-reader",
     "var_opt_union::deserialize(bytes) checks 8 bytes, then reads 24 more: prefixes of length 8..31 are read out of bounds"),
    ("C11", "vunion/{p}/corrupt-word/asan@g.h_r", dict(p=P2), "C11-varopt-reader", "gadget: h + r == k checked in 32 bits (heap WRITE)"),
    ("C11", "vunion/stream/corrupt{w}/{o}@g.{fld}", dict(w=W2, o=["alloc_cap", "timeout"], fld=["n", "h_r", "total_wt_r", "weights", "pre"]), "C11-serde-string-stream",
     "string serde (stream): unchecked length drives reserve and an unbounded push_back loop"),
    ("C11", "vunion/{p}/corrupt{w}/{o}@g.pre", dict(p=P2, w=W2, o=["ubsan", "asan"]), "C11-varopt-reader", "the union accepts a non-gadget sketch image as its gadget: marks_ is null and is dereferenced"),
    ("C11", "ebpps/stream/prefix/{o}@pre", dict(o=["accept", "accept-other-content", "alloc_cap"]), "C11-ebpps-reader",
     "empty-image branch of deserialize(istream) does not check the stream state: garbage k accepted or reserved"),
    ("C11", "ebpps/{p}/corrupt{w}/{o}@{fld}", dict(p=P2, w=W2, o=["asan", "ubsan"], fld=["cum_wt", "wt_max", "rho", "c"]), "C11-ebpps-reader",
     "cumulative weight / max weight / rho / c are not validated; the next update or merge indexes past the sample"),
    ("C11", "ebpps/stream/corrupt{w}/{o}@c", dict(w=W2, o=["alloc_cap", "timeout"]), "C11-ebpps-reader + C11-serde-string-stream",
     "c is not bounded by k: floor(c) items are allocated / read"),
    ("C11", "ebpps/{p}/corrupt{w}/alloc_cap@pre", dict(p=P2, w=W2), "C11-config-dictated-allocation", "k of an (empty) image dictates reserve(k)"),
]


def expand_rules():
    import itertools
    out = []
    for rule in FINDING_RULES:
        prop, tmpl, ph, fix, what = rule[:5]
        commit = rule[5] if len(rule) > 5 else None
        names = list(ph)
        for combo in itertools.product(*[ph[n] for n in names]):
            key = tmpl.format(**dict(zip(names, combo)))
            e = dict(property=prop.format(**dict(zip(names, combo))), key=key, status="fixed" if commit else "open", group="count",
                     what="%s [proposed_fixes/%s]" % (what, fix.replace(" + ", ", proposed_fixes/")))
            if commit:
                e["commit"] = commit       # fix: commit in /repo that repaired it (found on the pinned tree 7431040)
            out.append(e)
    return out


def write_findings(observed_files):
    import json
    path = os.path.join(core.ROOT, "known_findings.json")
    cur = [e for e in json.load(open(path)) if e.get("group") != "count"] if os.path.exists(path) else []
    mine = expand_rules()
    json.dump(cur + mine, open(path, "w"), indent=1)
    keys = set((e["property"], e["key"]) for e in mine)
    for f in observed_files:
        for k in json.load(open(f)):
            p, key = k.split(" ", 1)
            if (p, key) not in keys:
                print("UNMATCHED", p, key)
    print(len(mine), "entries")


if __name__ == "__main__":
    import sys
    if len(sys.argv) > 1 and sys.argv[1] == "findings":
        write_findings(sys.argv[2:])
    elif len(sys.argv) > 1 and sys.argv[1] == "baseline":
        make_baseline()

"""C07 — combined over the three quantile sketch kinds (parts built separately: c07kll, c07req, c07quant)."""
from ..combine import combined_spec

SPEC = combined_spec("C07", ["c07kll", "c07req", "c07quant"], "C07")

"""C07 — combined over family parts (built separately: c07kll, c07req, c07quant)."""
from ..combine import combined_spec

SPEC = combined_spec("C07", ['c07kll', 'c07req', 'c07quant'], "C07")
CLAIM_TEXT = ('Quantile sketches (KLL, REQ, classic): kernel-checked theorems over ALL histories (any number of sketches; updates, merges, copies, views; every coin sequence) that n/min/max are exact, weights are conserved by the compaction schedule, retained counts stay within the capacity formulas, levels stay sorted, the sorted view is sorted with total n and rank = weight below, rank/quantile/CDF/PMF are monotone and dual, exact mode is exact, invalid queries are rejected; plus per-kind correspondence of the executable model with the real headers (random bits hooked) and a trace oracle. '
              + "Parts: " + " ".join(SPEC.claim_texts))
CLAIM = dict(text=CLAIM_TEXT,
             note="Combined over three parts (kll, req, quantiles); each part's model is tied to its own header by differential runs; Float thresholds of rank/quantile are executed and bit-compared, the theorems are over Nat/Rat.",
             technique='Lean 4 invariant proofs over coin/choice trees + generic sorted-view theory + differential correspondence (random source hooked) + trace oracle',
             design='DESIGN.md §3 C07')

"""C09 (HLL group) — serialization round trip of every HLL image kind (DESIGN.md 3 C09, docs/WIRE_GUIDE.md)."""
from ..runner import Spec
from . import hll_wire_common as W


class HllC09(W.WirePart):
    name = "hll"

    def __init__(self):
        self.stats = dict(images=0, by_class={}, perm_reser=0, aux_images=0, curmin_images=0, ooo_images=0, max_exceeded=0,
                          cont_ops=0, header_checks=0)

    def generate(self, rng, tier):
        nh = 36 if tier == "quick" else 400
        hs = []
        for i in range(nh):
            h, sids = [], []
            for j in range(rng.choice([1, 2, 3])):
                cls = W.CLASSES[(i + j * 3) % len(W.CLASSES)] if j == 0 else rng.choice(W.CLASSES)
                L, _ = W.recipe(rng, tier, j, cls, sids)
                h += L
                sids.append(j)
                h.append("ser %d c" % j)
                h.append("ser %d u" % j)
                # continue the same updates / merges on the original and on the restored sketch
                for _ in range(rng.choice([1, 2])):
                    kind, path = rng.choice("cu"), rng.choice("bs")
                    if rng.random() < 0.7 or len(sids) < 2:
                        h.append("cont %d %s %s %d %d" % (j, kind, path, rng.randrange(1 << 40), rng.choice([1, 7, 30, 300, 3000])))
                    else:
                        other = rng.choice([s for s in sids if s != j])
                        h.append("contu %d %s %s %d %d %d" % (j, kind, path, other, rng.choice([4, 6, 8, 10, 12]), rng.choice(W.TYPES)))
            hs.append(h)
        return hs

    # ---- the property statement on the implementation alone
    def oracle(self, hist, impl_out):
        bad = []
        for i, l in enumerate(impl_out):
            if i >= len(hist):
                break
            op = hist[i].split()[0]
            if l.strip() == "throw" and op in ("ser", "cont", "contu"):
                bad.append(("hll/%s/throws" % op, "valid API use threw: %s" % hist[i], i))
                continue
            if op in ("cont", "contu"):
                if l.strip() != "CONT eq":
                    bad.append(("hll/continue-after-restore/content-differs", l[:300], i))
                continue
            im = W.parse_img(l)
            if not im:
                continue
            cls = W.img_class(im["content"])
            tag = "%s-%s" % (cls, im["kind"])
            ck = im["checks"]
            f = W.content_fields(im["content"])
            if ck.get("hdr") != "ok":
                bad.append(("hll/%s/header-or-stream-bytes-differ" % tag, "hdr=%s" % ck.get("hdr"), i))
            if ck.get("size") != "ok":
                bad.append(("hll/%s/size-not-advertised" % tag, "size=%s" % ck.get("size"), i))
            mx = ck.get("max", "ok")
            if mx != "ok":
                # documented exception (hll.hpp): HLL_4 whose exception table has grown; anything else is a violation
                if not (cls == "hll4" and W.has_aux(im)):
                    bad.append(("hll/%s/size-above-published-max" % tag, "max=%s" % mx, i))
            pos = ck.get("pos", "ok")
            if pos != "ok":
                detail = "-no-aux" if (cls == "hll4" and not W.has_aux(im)) else ("-empty" if f.get("empty") == "1" else "")
                bad.append(("hll/stream/position-%s/%s%s" % (pos.split(":")[0], tag, detail),
                            "stream reader consumed %s bytes of the image" % pos.split(":")[-1], i))
            if ck.get("deser") != "ok":
                bad.append(("hll/%s/restored-content-differs" % tag, "deser=%s" % ck.get("deser"), i))
            un = ck.get("unal", "ok")
            if un != "ok":
                from .c11_hll import norm_outcome
                bad.append(("hll/bytes/unaligned-buffer/%s" % norm_outcome(un),
                            "deserialize(bytes + h) of a valid %s image behind a 1- or 13-byte header: %s" % (tag, un), i))
            if ck.get("api") != "ok":
                bad.append(("hll/%s/restored-estimates-differ" % tag, "api=%s" % ck.get("api"), i))
            for key, path in (("reser", "bytes"), ("resers", "stream")):
                v = ck.get(key, "-")
                if v == "eq":
                    continue
                if v.startswith("perm@"):
                    # order freedom exists only for the compact set table and the HLL_4 aux table
                    if (cls == "set" and im["kind"] == "compact" and v == "perm@12") or (cls == "hll4" and W.has_aux(im)):
                        continue
                bad.append(("hll/%s/reserialized-%s-differs" % (tag, path), "%s=%s" % (key, v), i))
        return bad

    def nontrivial_key(self, hist, impl_out):
        sig = []
        st = self.stats
        st["cont_ops"] += sum(1 for l in impl_out if l.startswith("CONT"))
        for l in impl_out:
            im = W.parse_img(l)
            if im:
                f = W.content_fields(im["content"])
                tag = "%s-%s" % (W.img_class(im["content"]), im["kind"])
                st["images"] += 1
                st["by_class"][tag] = st["by_class"].get(tag, 0) + 1
                st["header_checks"] += 4 if im["kind"] == "compact" else 1
                st["aux_images"] += 1 if W.has_aux(im) else 0
                st["curmin_images"] += 1 if f.get("curmin", "0") != "0" else 0
                st["ooo_images"] += 1 if f.get("ooo") == "1" else 0
                st["max_exceeded"] += 1 if im["checks"].get("max", "ok") != "ok" else 0
                st["perm_reser"] += 1 if im["checks"].get("reser", "").startswith("perm@") else 0
                if f.get("mode") in ("SET", "HLL") or f.get("n", "0") not in ("0",):
                    sig.append((W.img_class(im["content"]), im["kind"], im["size"], f.get("lgk"), f.get("curmin"), f.get("ooo"),
                                W.has_aux(im), hash(im["hex"]) & 0xffff))
        return tuple(sig) if sig else None


class C09Hll(Spec, HllC09):
    pid = "C09"
    props_modules = ["DSProofs.Props.C09_Hll"]
    tfamilies = ["wire_hll"]
    rule = ("histories of 1-3 real hll_sketch objects driven into the state classes empty / list 1-7 coupons / set / HLL mode "
            "(HLL_4,6,8; lg_k 4-10 quick, 4-12 thorough; 40 .. 1e5 updates so cur_min shifts happen) / HLL_4 with 1-9 aux "
            "exceptions from pre-computed inputs (incl. grown aux table, cur_min shifts afterwards) / start_full_size / "
            "out-of-order union results (incl. down-sampling unions) / reset; each serialized compact and updatable, header "
            "sizes {0,1,8,13} (compact; updatable has no header parameter), bytes vs stream, advertised size, published max, "
            "stream position with a 16-byte sentinel, deserialize(bytes/stream) content + estimates, re-serialization, then "
            "continued updates / unions on original vs restored. An image is non-trivial when it is not an empty list; "
            "distinct = distinct (class, kind, size, lg_k, cur_min, ooo, aux, bytes hash) signature per history")
    trusted_base = ["Lean 4.33 kernel", "axioms: propext, Quot.sound, Classical.choice",
                    "tools/trules/wire_hll.py (constants regenerated from HllUtil.hpp / HllSketchImpl-internal.hpp / HllArray-internal.hpp)",
                    "harness/wire_hll_h.cpp reads private sketch state via `#define private public` (observation only)",
                    "sampled images; byte/stream/size/position/restore checks are done on the implementation alone"]
    assumptions = ["theorems are about DSModel/Wire/Hll.lean; the tie to the C++ writers/readers is differential (every generated image "
                   "is decoded by the Lean specification reader and must project to the API content the harness printed)",
                   "re-serialization equality is up to the order of entries in the compact set table and the HLL_4 aux table (named by "
                   "`permRange`), byte-exact elsewhere"]

    def __init__(self):
        HllC09.__init__(self)

    def parts(self):
        return [self]

    def extra_stages(self, rep, tier, rng, broken):
        rep.cov["hll_wire"] = self.stats


SPEC = C09Hll()
PARTS = [SPEC]
CLAIM_TEXT = ("HLL: kernel-checked round trip `decode (encode s ++ tail) = some (s, tail)`, converse `encode (decode b) = b`, "
              "`|encode s| = serializedSize s`, published maximum (with the documented HLL_4 exception as a proved counterexample) for "
              "every list / set / HLL_4 / HLL_6 / HLL_8 image, compact and updatable, parametric in the constants of the current headers; "
              "every image written by real sketches in all state classes is decoded by that reader to the API content, and "
              "header/stream/size/position/restore/continue checks run on the implementation.")
CLAIM = dict(text=CLAIM_TEXT,
             note="Images are sampled; equality after restore is canonical content (sorted coupons / resolved registers), estimates bitwise.",
             technique="Lean 4 reader-combinator round-trip proofs + two-phase differential tie (model decodes implementation bytes) + trace oracle",
             design="DESIGN.md §3 C09")

"""C10 (wire group `theta`) — documented layout of compact theta / tuple / array-of-doubles images, legacy images
(theta serial versions 1 and 2, tuple serial version 1 / type 5), shipped .sk files, baseline corpus.
DESIGN.md 3 C10, docs/WIRE_GUIDE.md.

Parts
  theta, tuple, aod   fresh images of the current tree decoded by the Lean reader run with the DOCUMENTED constants
  legacy              model first: images produced by the Lean (legacy and current) encoders from random contents must
                      deserialize in C++ (bytes, stream, wrap) to that content
  corpus              corpus/baseline/theta/*.txt (written once from the pinned tree) and the shipped .sk files must
                      decode, in C++ from the current tree and in Lean, to the recorded content

`python3 -m vlib.props.c10_theta write-corpus` regenerates the baseline corpus from $VERIF_REPO (default /repo).
"""
import os, sys, glob, random
from .. import core
from ..runner import Spec, Part
from . import wire_theta_lib as L
from . import c09_theta as C9

CORPUS_DIR = os.path.join(core.ROOT, "corpus", "baseline", "theta")
MAXT = 2**63 - 1
SEEDS = {9001: 37836, 123: 1462}
KIND_OF_FAM = {"theta": "theta", "tf64": "tuple_f64", "ti64": "tuple_i64", "tstr": "tuple_str", "tcst": "tuple_cst", "aod": "aod"}


def fam_of_kind(kind):
    if kind.startswith("theta"):
        return "theta"
    if kind == "aod":
        return "aod"
    return {"tuple_f64": "tf64", "tuple_i64": "ti64", "tuple_str": "tstr", "tuple_cst": "tcst"}[kind.replace("_legacy", "")]


class DocPart(C9.WireC09):
    """as C09, but the Lean reader uses the documented constants (a consistent writer+reader change of a constant shows
    here as a content mismatch, in addition to breaking `wire_consts_documented`)"""
    family = "doc"

    def oracle(self, hist, impl_out):
        # the round-trip checks inside `ser` belong to C09; here only: the image exists and its layout is the documented one
        # (that is the model comparison) and nothing throws
        bad = []
        for i, (op, o) in enumerate(zip(hist, impl_out)):
            w = op.split()
            if o.strip() in ("no-such-object", "bad-op"):
                continue      # malformed history (dangling object id, e.g. after delta debugging): says nothing about the library
            if o.strip() == "throw":
                bad.append(("%s/unexpected-throw/%s" % (self.name, w[0]), op[:120], i))
            elif w[0] == "ser" and L.parse_img(o) is None:
                bad.append(("%s/bad-observation" % self.name, o[:120], i))
            elif w[0] == "ser":
                # one object, two writers (+ the header variants): the model reads the byte-vector image; a stream image that differs
                # from it cannot be the documented layout as well
                d = L.parse_img(o)
                for c in d["status"].replace("FAIL:", "").replace(",", " ").split():
                    if c == "stream-ne-bytes" or c.startswith("header"):
                        bad.append(("%s/writers-disagree:%s" % (self.name, c), "%s: %s (byte-vector image %s)" % (d["kind"], c, d["hex"][:100]), i))
        return bad


class ThetaDoc(DocPart):
    name = "theta"
    fams = ("theta",)
    nhist = (8, 80)


class TupleDoc(DocPart):
    name = "tuple"
    fams = ("tf64", "ti64", "tstr", "tcst")
    nhist = (8, 80)


class AodDoc(DocPart):
    name = "aod"
    fams = ("aod",)
    nhist = (4, 40)


def est_hex(n, theta):
    return L.f64hex(float(n) / (float(theta) / float(MAXT)))


def rand_theta_content(rng, legacy):
    seed = rng.choice(list(SEEDS))
    cls = rng.choice(["empty", "single", "exact", "est", "est", "zero"])
    theta = MAXT
    es = []
    if cls == "single":
        es = [rng.randrange(1, MAXT)]
    elif cls == "exact":
        es = sorted(set(rng.randrange(1, MAXT) for _ in range(rng.randrange(2, 40))))
    elif cls in ("est", "zero"):
        theta = rng.choice([rng.randrange(2, MAXT), 2**62, 2**40])
        if cls == "est":
            es = sorted(set(rng.randrange(1, theta) for _ in range(rng.randrange(1, 40))))
    empty = cls == "empty"
    ordered = True if (legacy or len(es) <= 1) else rng.random() < 0.5
    if not ordered:
        rng.shuffle(es)
    est = theta < MAXT and not empty
    return seed, "T %d %d %d %d %d %d %s %s" % (empty, ordered, est, SEEDS[seed], theta, len(es), est_hex(len(es), theta), " ".join(map(str, es)))


def rand_tuple_content(rng, fam):
    seed = rng.choice(list(SEEDS))
    cls = rng.choice(["empty", "single", "exact", "est", "zero"])
    theta = MAXT
    keys = []
    if cls == "single":
        keys = [rng.randrange(1, MAXT)]
    elif cls == "exact":
        keys = sorted(set(rng.randrange(1, MAXT) for _ in range(rng.randrange(2, 20))))
    elif cls in ("est", "zero"):
        theta = rng.randrange(2, MAXT)
        if cls == "est":
            keys = sorted(set(rng.randrange(1, theta) for _ in range(rng.randrange(1, 20))))
    empty = cls == "empty"
    ordered = True if len(keys) <= 1 else rng.random() < 0.5
    if not ordered:
        rng.shuffle(keys)

    def summ():
        if fam in ("tf64", "ti64"):
            return "%016x" % rng.choice([0, 1, 2**64 - 1, 0x3ff0000000000000, 0x7ff8000000000001, rng.randrange(2**64)])
        n = rng.choice([0, 1, 2, 5, 17])
        return "".join("%02x" % rng.randrange(256) for _ in range(n)) or "-"
    est = theta < MAXT and not empty
    ents = " ".join("%d:%s" % (k, summ()) for k in keys)
    return seed, "U %d %d %d %d %d %d %s %s" % (empty, ordered, est, SEEDS[seed], theta, len(keys), est_hex(len(keys), theta), ents)


def legacy_histories(rng, tier):
    """model first: random contents -> Lean encoders (legacy and current formats) -> `deser` ops carrying the requested content"""
    hs = []
    for i in range(6 if tier == "quick" else 60):
        enc = []
        for j in range(40):
            r = rng.random()
            if r < 0.5:
                kind = rng.choice(["theta_v1", "theta_v2"])
                seed, c = rand_theta_content(rng, True)
            elif r < 0.65:
                kind = rng.choice(["theta_v3", "theta_v4"])
                seed, c = rand_theta_content(rng, False)
            else:
                fam = rng.choice(["tf64", "ti64", "tstr", "tcst"])
                kind = KIND_OF_FAM[fam] + rng.choice(["_legacy", "_legacy", ""])
                seed, c = rand_tuple_content(rng, fam)
            enc.append((kind, seed, c))
        mo, moc, merr = core.run_model(L.MODEL, "doc", ["ENC %s %d %s" % e for e in enc], timeout=300)
        h = []
        for (kind, seed, c), m in zip(enc, mo):
            mw = m.split()
            if len(mw) >= 3 and mw[0] == "HEX" and mw[2] == "wf=1":
                h.append("deser %s %s %d %s 1 # %s" % (fam_of_kind(kind), kind.replace("_legacy", ""), seed, mw[1], c))
            else:
                h.append("deser theta model-encoder-failed 0 00 1 # %s: %s" % (kind, m[:80]))
        hs.append(h)
    return hs


def corpus_lines():
    """-> list of (kind, seed, hex, nv, content, source)"""
    res = []
    for f in sorted(glob.glob(os.path.join(CORPUS_DIR, "*.txt"))):
        for l in open(f):
            l = l.rstrip("\n")
            if l.startswith("IMG "):
                head, content = l.split(" | ", 1)
                w = head.split()
                nv = content.split()[6] if content.startswith("A ") else "1"
                res.append((w[1], w[2], w[3], nv, content.strip(), os.path.basename(f)))
            elif l.startswith("SK "):
                head, content = l.split(" | ", 1)
                w = head.split()
                path = os.path.join(core.REPO, w[1])
                try:
                    hx = open(path, "rb").read().hex()
                except OSError:
                    hx = "00"
                res.append((w[2], w[3], hx, "1", content.strip(), w[1]))
    return res


class CorpusPart(Part):
    name = "corpus"
    tag = "corpus"
    harness = L.HARNESS
    model_exe = L.MODEL
    family = "doc"
    timeout = 300

    def generate(self, rng, tier):
        cl = corpus_lines()
        h = ["deser %s %s %s %s %s # %s" % (fam_of_kind(k), k, seed, hx, nv, content) for k, seed, hx, nv, content, src in cl]
        # several short histories so that one crash does not hide the rest
        return [h[i:i + 25] for i in range(0, len(h), 25)]

    def model_lines(self, hist, impl_out):
        return ["IMG %s %s %s" % (l.split()[2], l.split()[3], l.split()[4]) for l in hist]

    def expected_model_out(self, hist, impl_out):
        return [l.split(" # ", 1)[1] for l in hist]

    def diff(self, hist, impl_out, model_out):
        for i, l in enumerate(hist):
            want = core.norm(l.split(" # ", 1)[1])
            got = core.norm((model_out[i] if i < len(model_out) else "<missing>").split(" | ")[0])
            if want != got:
                return i
        return None

    def oracle(self, hist, impl_out):
        bad = []
        for i, (l, o) in enumerate(zip(hist, impl_out)):
            w = l.split()
            want = core.norm(l.split(" # ", 1)[1])
            if o.strip() == "throw":
                bad.append(("%s/%s/rejected" % (self.tag, w[2]), "image no longer readable: %s (content %s)" % (w[4][:80], want[:80]), i))
                continue
            parts = o.split(" | ")
            if len(parts) < 2 or parts[1].strip() != "ok":
                bad.append(("%s/%s/paths-disagree" % (self.tag, w[2]), o[:200], i))
            if core.norm(parts[0].replace("DES ", "", 1)) != want:
                bad.append(("%s/%s/content" % (self.tag, w[2]), "image %s: expected %s, got %s" % (w[4][:64], want[:100], parts[0][:100]), i))
        return bad

    def nontrivial_key(self, hist, impl_out):
        return tuple(sorted(set((l.split()[2], len(l.split()[4])) for l in hist)))


class LegacyPart(CorpusPart):
    """model first, implementation second: images from the Lean encoders must be read by the real readers (all paths) as the
    content they were made from; the Lean reader must read them back too."""
    name = "legacy"
    tag = "legacy"

    def generate(self, rng, tier):
        try:
            return legacy_histories(rng, tier)
        except Exception as e:
            return []


PARTS = [ThetaDoc(), TupleDoc(), AodDoc(), LegacyPart(), CorpusPart()]

CLAIM_TEXT = ("Theta/Tuple/array-of-doubles: every wire constant translated from the current headers equals its documented value "
              "(kernel `decide`); the specification reader run with the documented constants recovers the API content from every image the "
              "real sketches write; legacy theta v1/v2 and tuple v1/type-5 encoders + reader round-trip (theorems) and their images are read "
              "by the real readers; the shipped .sk files and a committed baseline corpus decode to the recorded content in C++ and in Lean.")


class C10Theta(Spec):
    pid = "C10"
    props_modules = ["DSProofs.Props.C10_Theta", "DSProofs.Props.C10_Tuple", "DSProofs.Props.C10_Aod"]
    tfamilies = ["wire_theta"]
    rule = ("fresh images as C09 decoded with the documented constants; 40 random contents per history (empty / single / exact / estimation / "
            "zero-retained, seeds 9001 and 123) encoded by the Lean legacy (theta v1, v2, tuple v1/type 5) and current encoders and read by the "
            "real readers on all paths; every image of corpus/baseline/theta (one per kind x state class x flags, written from the pinned tree) "
            "and the 4 shipped theta .sk files; distinct = (kind, flags, size) signatures")
    trusted_base = ["Lean 4.33 kernel", "axioms: propext, Quot.sound, Classical.choice",
                    "tools/trules/wire_theta.py (regex extraction of constants, enums and the writers' preamble-longs literals)",
                    "the documented contract is the hand transcription in DSModel/Wire/*.lean `documented` + Props/C10_*.lean (DESIGN.md Appendix A)",
                    "harness/wire_theta_h.cpp; no Java/Python producer is available offline beyond the shipped files"]
    assumptions = ["big-endian hosts not covered", "hash definitions are tied by C01 (MurmurHash3 transcription + canonicalisation); here only compute_seed_hash is exercised (every image carries it)"]

    def parts(self):
        return PARTS


SPEC = C10Theta()

CLAIM = dict(text=CLAIM_TEXT,
             note="Cross-language compatibility is checked against the documented layouts, shipped files and model-generated legacy images only.",
             technique="kernel-decided constant pinning + legacy round-trip theorems + model-first / implementation-second image exchange + baseline corpus",
             design="DESIGN.md §3 C10")


def write_corpus():
    """Baseline corpus from the tree at $VERIF_REPO: one image per (kind, empty, ordered, estimation, size class, seed class)."""
    ok, exe, log = core.compile_harness(L.HARNESS)
    if not ok:
        print(log); return 1
    os.makedirs(CORPUS_DIR, exist_ok=True)
    rng = random.Random(20260926)
    out = {"theta": {}, "tuple": {}, "aod": {}}
    groups = {"theta": ("theta",), "tuple": ("tf64", "ti64", "tstr", "tcst"), "aod": ("aod",)}
    for g, fams in groups.items():
        hs = [L.gen_history(rng, "quick", fams[i % len(fams)], C9.ser_ops) for i in range(40)]
        if g == "theta":
            hs += [C9.width_history(rng, "thorough", C9.ser_ops) for _ in range(3)]
        for h in hs:
            io, oc, err = core.run_impl(exe, h, timeout=300)
            for l in io:
                d = L.parse_img(l)
                if not d or d["status"] != "ok":
                    continue
                c = d["content"].split()
                n = len(d["hex"]) // 2
                sig = (d["kind"], c[1], c[2], c[3], d["seed"] != "9001", 0 if n <= 24 else 1 if n <= 200 else 2, d["hex"][2:8] if d["kind"].startswith("theta") else "")
                if sig not in out[g] and n <= 1200:
                    out[g][sig] = "IMG %s %s %s | %s" % (d["kind"], d["seed"], d["hex"], d["content"])
    for g, m in out.items():
        with open(os.path.join(CORPUS_DIR, g + ".txt"), "w") as f:
            f.write("# baseline corpus (wire group theta, family %s): images written by the tree at the time of writing, with the content its API reported\n" % g)
            for sig in sorted(m, key=str):
                f.write(m[sig] + "\n")
        print(g, len(m), "images")
    # shipped files
    lines = []
    for rel in ["theta/test/theta_compact_empty_from_java_v1.sk", "theta/test/theta_compact_empty_from_java_v2.sk",
                "theta/test/theta_compact_estimation_from_java_v1.sk", "theta/test/theta_compact_estimation_from_java_v2.sk"]:
        hx = open(os.path.join(core.REPO, rel), "rb").read().hex()
        io, oc, err = core.run_impl(exe, ["deser theta theta_sk 9001 %s" % hx])
        content = io[0].split(" | ")[0].replace("DES ", "", 1)
        lines.append("SK %s theta_sk 9001 | %s" % (rel, content))
    with open(os.path.join(CORPUS_DIR, "shipped_sk.txt"), "w") as f:
        f.write("# shipped reference images (read from $VERIF_REPO at run time) and the content the pinned tree reported\n")
        f.write("\n".join(lines) + "\n")
    print("shipped", len(lines))
    return 0


if __name__ == "__main__":
    if len(sys.argv) > 1 and sys.argv[1] == "write-corpus":
        sys.exit(write_corpus())

"""C08, part "quantiles" — ranks of the classic quantiles_sketch are unbiased over the coin flips and stride offsets,
and the number of random choices depends on shapes only (DESIGN.md 3 C08)."""
import bisect
from ..runner import Spec, Part
from . import c07quant as Q


def parse_leaf(s, codec):
    """`a2.2.4:20:1*4,5*8` -> (arities tuple, total, [(item, cum)])"""
    a, total, ents = s.split(":", 2)
    ar = tuple(int(x) for x in a[1:].split(".")) if len(a) > 1 else ()
    return ar, int(total), Q.parse_view_entries(ents, codec)


def split_tree(words):
    """`tree id ; op ; op …` -> (id, [op words])"""
    ops = [[]]
    for t in words[3:]:
        if t == ";":
            ops.append([])
        else:
            ops[-1].append(t)
    return int(words[1]), ops


def prod(l):
    p = 1
    for x in l:
        p *= x
    return p


class QuantTreePart(Part):
    name = "quantiles"
    harness = "quantiles_h"
    model_exe = "dsmodel_quantiles"
    family = "quantiles"
    cmp = staticmethod(Q.line_cmp_c08)
    timeout = 300
    stats = None

    # ------------------------------------------------------------------ generation: short histories, whole coin tree
    def tree_history(self, rng, budget):
        """retry a few times until the intended merge actually fitted into the leaf budget"""
        h = None
        for _ in range(8):
            h, want_merge = self.tree_history_once(rng, budget)
            if not want_merge or " merge " in h[1]:
                break
        return h

    def tree_history_once(self, rng, budget):
        tname = rng.choice(["i64", "i64", "i64", "f64", "f64", "str"])
        codec = Q.CODECS[tname]
        sh = Q.Shapes(codec)
        ops = []
        leaves = [1]

        def lit():
            v = rng.randrange(rng.choice([3, 12, 40]))
            if codec is Q.StrCodec:
                return Q.str_item(v)
            return str(v) if codec is Q.IntCodec else Q.rank_hex(v / 2.0)

        def attempt(line):
            w = line.split()
            trial = Q.Shapes(codec)
            trial.kn, trial.truth = dict(sh.kn), {k: list(v) for k, v in sh.truth.items()}
            ar = trial.apply(w)
            if ar is None or leaves[0] * prod(ar) > budget:
                return False
            sh.kn, sh.truth = trial.kn, trial.truth
            leaves[0] *= prod(ar)
            ops.append(line)
            return True

        scenario = rng.choice(["single", "equal", "equal", "down", "down", "up", "exactsrc", "exacttgt", "chain", "mixed", "mixed"])
        small = [2, 2, 2, 4]
        if scenario == "single":
            ks = [rng.choice(small)]
        elif scenario == "equal":
            k = rng.choice(small)
            ks = [k, k] + ([k] if rng.random() < 0.3 else [])
        elif scenario == "down":          # target has the smaller k
            ks = rng.choice([[2, 4], [2, 8], [4, 8], [2, 16], [4, 16]])
        elif scenario == "up":            # target has the larger k (result takes the smaller one)
            ks = rng.choice([[4, 2], [8, 2], [8, 4], [16, 2]])
        else:
            ks = [rng.choice([2, 4, 8]) for _ in range(rng.choice([2, 3]))]
        for i, k in enumerate(ks):
            attempt("new %d %d" % (i, k))
        live = list(range(len(ks)))

        def fill(i, cnt):
            for _ in range(cnt):
                if not attempt("upd %d %s" % (i, lit())):
                    return False
            return True

        def est_fill(i, extra_max):
            k = sh.kn[i][0]
            return fill(i, 2 * k * rng.choice([1, 1, 2, 3] if k <= 4 else [1, 1, 1, 2]) + rng.randrange(0, extra_max + 1))

        if scenario == "single":
            while fill(0, 1) and len(ops) < 80:
                pass
        elif scenario in ("equal", "down", "up"):
            for i in sorted(live, key=lambda i: -ks[i]):
                est_fill(i, rng.choice([0, 1, 2 * ks[i] - 1]))
            attempt("merge 0 1 %s" % rng.choice("lr"))
            if len(live) > 2:
                attempt("merge 0 2 %s" % rng.choice("lr"))
            fill(0, rng.randrange(0, 2 * ks[0] + 2))
        elif scenario == "exactsrc":
            est_fill(0, 3)
            fill(1, rng.randrange(1, 2 * ks[1]))
            attempt("merge 0 1 %s" % rng.choice("lr"))
        elif scenario == "exacttgt":
            fill(0, rng.randrange(0, 2 * ks[0]))
            est_fill(1, 3)
            attempt("merge 0 1 %s" % rng.choice("lr"))
            fill(0, rng.randrange(0, 5))
        elif scenario == "chain":
            for i in live:
                if rng.random() < 0.7:
                    est_fill(i, 3)
                else:
                    fill(i, rng.randrange(0, 2 * ks[i]))
            for i in range(len(live) - 1, 0, -1):
                attempt("merge %d %d %s" % (i - 1, i, rng.choice("lr")))
            if rng.random() < 0.5:
                attempt("copy 0 5")
                attempt("merge 0 5 l")
        else:
            nxt = len(ks)
            for _ in range(rng.randrange(10, 60)):
                r = rng.random()
                i = rng.choice(live)
                if r < 0.75:
                    fill(i, rng.choice([1, 1, 2, 4]))
                elif r < 0.9 and len(live) > 1:
                    j = rng.choice([x for x in live if x != i])
                    attempt("merge %d %d %s" % (i, j, rng.choice("lr")))
                elif r < 0.95:
                    attempt("view %d" % i)
                elif nxt < 5:
                    if attempt("copy %d %d" % (i, nxt)):
                        live.append(nxt)
                        nxt += 1
        target = 0 if scenario != "mixed" else rng.choice(live)
        return ["T " + tname, "tree %d ; %s" % (target, " ; ".join(ops))], scenario not in ("single", "mixed")

    def generate(self, rng, tier):
        hs = []
        if tier == "quick":
            plan = [(4096, 10), (512, 40), (64, 40)]
            nlong = 12
        else:
            plan = [(16384, 30), (4096, 150), (512, 300), (64, 200)]
            nlong = 150
        for budget, cnt in plan:
            for _ in range(cnt):
                hs.append(self.tree_history(rng, budget))
        for _ in range(nlong):
            hs.append(Q.PART.one_history(rng, tier))
        return hs

    # ------------------------------------------------------------------ oracle on the implementation's leaves
    def oracle(self, hist, impl_out):
        bad = []
        codec = None
        sh = None
        consumed = 0
        for i, l in enumerate(hist):
            if i >= len(impl_out):
                break
            w = l.split()
            o = impl_out[i].strip()
            if w[0] == "T":
                codec = Q.CODECS.get(w[1])
                sh = Q.Shapes(codec)
                consumed = 0
                continue
            if codec is None:
                continue
            if w[0] == "tree":
                bad += self.check_tree(w, o, codec, i)
                continue
            if w[0] in ("new", "upd", "merge", "copy"):
                # long history on one recorded path: the number of choices consumed by each op is the one predicted from shapes
                ar = sh.apply(w)
                if ar is None or not o.startswith("O "):
                    continue
                ob = Q.parse_O(o, codec)
                if ob is None:
                    continue
                if ob["consumed"] - consumed != len(ar):
                    bad.append(("choices-consumed-not-shape-predicted", "%s consumed %d predicted %d" % (l[:50], ob["consumed"] - consumed, len(ar)), i))
                consumed = ob["consumed"]
        return bad

    def check_tree(self, w, o, codec, i):
        bad = []
        tid, ops = split_tree(w)
        sh = Q.Shapes(codec)
        pred = []
        for g in ops:
            ar = sh.apply(g)
            if ar is None:
                return []
            pred += ar
        ow = o.split()
        if len(ow) < 2 or ow[0] != "L" or ow[1] == "overflow":
            return [("tree-not-enumerated", o[:60], i)]
        leaves = [parse_leaf(s, codec) for s in ow[2:]]
        if self.stats is not None:
            self.stats["coin_leaves"] = self.stats.get("coin_leaves", 0) + len(leaves)
            self.stats["coin_trees"] = self.stats.get("coin_trees", 0) + 1
            self.stats["max_leaves"] = max(self.stats.get("max_leaves", 0), len(leaves))
        truth = sh.truth.get(tid)
        if truth is None or not leaves:
            return [("tree-object-missing", o[:60], i)]
        ars = set(lf[0] for lf in leaves)
        if len(ars) != 1:
            bad.append(("flip-count-depends-on-coin-values", "arity sequences seen: %s" % sorted(ars)[:3], i))
            return bad
        ar = leaves[0][0]
        if len(leaves) != prod(ar):
            bad.append(("leaf-count-not-product-of-arities", "%d leaves, arities %s" % (len(leaves), ar), i))
        if list(ar) != pred:
            bad.append(("choices-consumed-not-shape-predicted", "consumed %s predicted %s" % (list(ar), pred), i))
        n = len(truth)
        if any(lf[1] != n for lf in leaves):
            bad.append(("leaf-total-weight-not-n", "n=%d" % n, i))
        # integer identity: sum over all leaves of weightBelow(y) = #leaves * trueCountBelow(y), both criteria, every distinct y
        ts = sorted(truth)
        ys = sorted(set(truth))
        if ys and codec is Q.StrCodec:
            ys = ys + [(ys[-1][0] + 1, ""), (0, "")]
        elif ys:
            ys = ys + [ys[-1] + 1, ys[0] - 1]
        tot_le = {y: 0 for y in ys}
        tot_lt = {y: 0 for y in ys}
        for _, _, ents in leaves:
            items = [e[0] for e in ents]
            cums = [e[1] for e in ents]
            if items != sorted(items):
                bad.append(("view-not-sorted", "", i))
                break
            for y in ys:
                a = bisect.bisect_right(items, y)
                b = bisect.bisect_left(items, y)
                tot_le[y] += cums[a - 1] if a > 0 else 0
                tot_lt[y] += cums[b - 1] if b > 0 else 0
        for y in ys:
            if tot_le[y] != len(leaves) * bisect.bisect_right(ts, y):
                bad.append(("rank-biased", "inclusive y=%s: sum over %d leaves = %d, expected %d*%d" % (codec.render(y), len(leaves), tot_le[y], len(leaves), bisect.bisect_right(ts, y)), i))
                break
            if tot_lt[y] != len(leaves) * bisect.bisect_left(ts, y):
                bad.append(("rank-biased", "exclusive y=%s: sum over %d leaves = %d, expected %d*%d" % (codec.render(y), len(leaves), tot_lt[y], len(leaves), bisect.bisect_left(ts, y)), i))
                break
        return bad

    def nontrivial_key(self, hist, impl_out):
        if len(hist) >= 2 and hist[1].startswith("tree ") and len(impl_out) >= 2:
            ow = impl_out[1].split()
            if len(ow) < 3 or ow[0] != "L" or int(ow[1]) < 2:
                return None
            tid, ops = split_tree(hist[1].split())
            sig = tuple(tuple(g[:2] if g[0] == "upd" else g) for g in ops)
            return (hist[0], ow[2].split(":")[0], sig)
        return Q.PART.nontrivial_key(hist, impl_out)


PART = QuantTreePart()

CLAIM_TEXT = ("classic quantiles_sketch: kernel-checked theorems on the choice-tree model: (i) the arities of all random choices of any "
              "history (coins of zip_buffer, stride offsets of zip_buffer_with_stride) and the resulting shapes are functions of the operands' "
              "(k, n) only; (ii) for every stride s, every list and every predicate, the counts over the s strided sub-lists add up to the count "
              "over the list; (iii) for every history of updates, merges (equal k, down-sampling in both directions, exact operands), copies and "
              "view queries, every object and every predicate p on items (in particular `<= y` and `< y`): the sum over ALL coin vectors and stride "
              "offsets of the retained weight satisfying p equals (product of arities) * (number of accepted items satisfying p), i.e. the rank "
              "estimate is exactly unbiased. Tie: with the verif random source installed the harness enumerates every choice vector of short "
              "histories; multisets of leaves (arities consumed + sorted view) are compared with the model and the integer identity is checked "
              "on the implementation's leaves. The 'within the published error as often as claimed' sub-claim is not decided.")


class C08Quant(Spec):
    pid = "C08"
    props_modules = ["DSProofs.Props.C08_Quantiles"]
    tfamilies = ["quantiles"]
    rule = ("short histories (1-3 classic quantiles sketches of int64 / double / std::string items, k in {2,4,8,16}, equal k / down-sampling in both directions / exact operands / "
            "merge chains / copies) whose complete tree of random choices (coins and stride offsets) has <= 4096 leaves quick, <= 16384 "
            "thorough: EVERY choice vector is executed on the real code; plus long histories on one recorded choice sequence; a tree is "
            "non-trivial when it has >= 2 leaves; distinct = distinct (item type, arity sequence, op skeleton)")
    trusted_base = ["Lean 4.33 kernel", "axioms: propext, Quot.sound, Classical.choice",
                    "hooks H1/H2 (random_utils::verif_source) deliver every coin and every stride offset of quantiles_sketch",
                    "correspondence harness harness/quantiles_h.cpp (odometer enumeration of choice vectors) + generators"]
    assumptions = ["theorems are about DSModel/Quantiles/*.lean; the tie to quantiles_sketch_impl.hpp is differential (exhaustive over the coin "
                   "tree for each sampled short history)",
                   "fair, independent coins / uniform offsets are assumed of random_utils (not examined)",
                   "accuracy within get_normalized_rank_error 'as often as claimed' is NOT decided (empirical constants)"]

    def parts(self):
        return [PART]

    def extra_stages(self, rep, tier, rng, broken):
        PART.stats = rep.cov.setdefault("quantiles_tree", {})


SPEC = C08Quant()

CLAIM = dict(text=CLAIM_TEXT,
             note="Part 'quantiles' of C08 (classic sketch only).",
             technique="Lean 4 proofs over choice trees (sum over all leaves) + exhaustive coin-tree correspondence + integer-identity oracle",
             design="DESIGN.md §3 C08")

"""C10 (group `misc`: t-digest, Bloom filter, density sketch) — documented layout, old images (DESIGN.md §3 C10, docs/WIRE_GUIDE.md).

Parts: per family the two-phase tie "a reader written only from the documentation recovers what the API reports" (the Lean
specification reader decodes every image the real sketch wrote; an independent Python transcription of the documented layout is
the oracle used to produce failing inputs); `baseline` (committed corpus written once from the pinned tree + the shipped .sk
files must decode, in C++ from the current tree and in Lean, to the recorded content); `legacy` (images produced by the LEAN
encoders of the two big-endian t-digest reference formats from random contents must deserialize in C++ to that content).
`python3 -m vlib.props.c10_misc --write-baseline` regenerates the corpus (only meant to be run once, on the pinned tree)."""
import os, struct, sys, random
from .. import core
from ..runner import Spec
from . import misc_common as M


# ----------------------------------------------------------------------------- documented layouts, transcribed once more (oracle)

def doc_decode(kind, b):
    """-> canonical content string per the documented layout, or None if the bytes are not such an image"""
    try:
        if kind == "bloom":
            pre, ver, fam, flags, nh = struct.unpack_from("<BBBBH", b, 0)
            seed, nl = struct.unpack_from("<QI", b, 8)
            empty = bool(flags & 4)
            if ver != 1 or fam != 21 or pre != (3 if empty else 4):
                return None
            if empty:
                if len(b) != 24:
                    return None
                return "cap=%d nh=%d seed=%d used=0 empty=1 bits=%s" % (64 * nl, nh, seed, "00" * (8 * nl))
            nbs = struct.unpack_from("<Q", b, 24)[0]
            bits = b[32:]
            if len(bits) != 8 * nl:
                return None
            used = sum(bin(x).count("1") for x in bits) if nbs == 2**64 - 1 else nbs
            return "cap=%d nh=%d seed=%d used=%d empty=%d bits=%s" % (64 * nl, nh, seed, used, 1 if used == 0 else 0, bits.hex())
        if kind.startswith("den"):
            t, fmt = (4, "<%df") if kind == "den.f" else (8, "<%dd")
            pre, ver, fam, flags, k, _, dim = struct.unpack_from("<BBBBHHI", b, 0)
            empty = bool(flags & 4)
            if ver != 1 or fam != 19 or pre != (3 if empty else 6):
                return None
            if empty:
                return "k=%d dim=%d n=0 nr=0 empty=1 est=0 pts=" % (k, dim) if len(b) == 12 else None
            nr, n = struct.unpack_from("<IQ", b, 12)
            off, rem, lv, pts = 24, nr, 0, []
            while rem > 0:
                sz = struct.unpack_from("<I", b, off)[0]
                off += 4
                for _ in range(sz):
                    pts.append("%d:%s" % (2 ** lv, ",".join(b[off + i * t:off + (i + 1) * t][::-1].hex() for i in range(dim))))
                    off += dim * t
                    if off > len(b):
                        return None
                rem -= sz
                lv += 1
            if rem != 0 or off != len(b):
                return None
            return "k=%d dim=%d n=%d nr=%d empty=0 est=%d pts=%s" % (k, dim, n, nr, 1 if lv > 1 else 0, " ".join(pts))
        # t-digest, current format
        t, w = (8, 8) if kind == "td.d" else (4, 4)
        pre, ver, typ, k, flags = struct.unpack_from("<BBBHB", b, 0)
        if ver != 1 or typ != 20:
            return None
        empty, single = bool(flags & 1), bool(flags & 2)
        if pre != (1 if (empty or single) else 2):
            return None
        hx = lambda off, n: b[off:off + n][::-1].hex()
        if empty:
            return "k=%d w=0 empty=1 min=- max=- C 0 B 0" % k if len(b) == 8 else None
        if single:
            return "k=%d w=1 empty=0 min=%s max=%s C*" % (k, hx(8, t), hx(8, t)) if len(b) == 8 + t else None
        nc, nb = struct.unpack_from("<II", b, 8)
        if len(b) != 16 + 2 * t + nc * (t + w) + nb * t:
            return None
        off = 16 + 2 * t
        cs, tot = [], nb
        for i in range(nc):
            wt = int.from_bytes(b[off + t:off + t + w], "little")
            cs.append("%s:%d" % (hx(off, t), wt))
            tot += wt
            off += t + w
        bs = [hx(off + i * t, t) for i in range(nb)]
        return ("k=%d w=%d empty=0 min=%s max=%s C %d %s B %d %s" % (k, tot, hx(16, t), hx(16 + t, t), nc, " ".join(cs), nb, " ".join(bs))).replace("  ", " ").strip()
    except (struct.error, IndexError):
        return None


def same_content(api, doc):
    """API content (decimal means from to_string) vs exact documented-layout decode"""
    return M.content_cmp("DEC " + api, "DEC " + doc)


class C10Part(M.MiscPart):
    """real sketches -> images -> the documented reader must recover the API content"""

    def __init__(self, name, gen):
        self.name = name
        self.gen = gen

    def generate(self, rng, tier):
        op = {"bloom": "bf.ser %d", "tdigest": "td.ser %d %d", "density": "den.ser %d"}[self.name]

        def extra(i, cls, wb=0):
            return [op % ((i, wb) if self.name == "tdigest" else (i,))]
        n = {"bloom": 25, "tdigest": 20, "density": 25}[self.name] * (1 if tier == "quick" else 20)
        return [self.gen(rng, tier, extra) for _ in range(n)]

    def oracle(self, hist, impl_out):
        bad = M.unexpected(hist, impl_out)
        for i, o in enumerate(impl_out):
            d = M.parse_img(o)
            if not d or d["hex"] == "-":
                continue
            img = bytes.fromhex(d["hex"])
            if d["kind"].startswith("den") and M.trailing_empty_offset(d["kind"], img) != len(img):
                continue      # C09 open finding density/trailing-empty-level-not-restored
            doc = doc_decode(d["kind"], img)
            exp = M.dec_expected(d["content"], d["size"], kind=d["kind"], hexs=d["hex"]).split(" | ")[0][4:]
            if exp == "*":
                continue
            if doc is None:
                bad.append(("%s/image-not-in-documented-layout" % self.name, "%s image %s..." % (d["kind"], d["hex"][:64]), i))
            elif not same_content(exp, doc):
                bad.append(("%s/documented-reader-recovers-other-content" % self.name,
                            "api: %s || documented layout: %s" % (exp[:200], doc[:200]), i))
        return bad

    def nontrivial_key(self, hist, impl_out):
        sig = tuple((d["kind"], d["size"]) for d in map(M.parse_img, impl_out) if d and "empty=0" in d["content"])
        return sig or None


class BaselinePart(M.MiscPart):
    """committed baseline corpus + shipped .sk files: must decode to the recorded content (C++ current tree, Lean)"""
    name = "baseline"

    def __init__(self):
        pass

    def _entries(self):
        return [c for fam in ("bloom", "tdigest", "density") for c in M.corpus_lines(fam)]

    def generate(self, rng, tier):
        ents = self._entries()
        hs, cur = [], []
        for c in ents:
            if c["hex"] is None:
                hs.append(["missing %s" % c["src"]])
                continue
            cur.append("img %s %s" % (c["kind"], c["hex"]))
            if len(cur) >= 12 or c.get("shipped"):
                hs.append(cur); cur = []
        if cur:
            hs.append(cur)
        return hs

    def _recorded(self):
        return {(c["kind"], c["hex"]): c for c in self._entries() if c["hex"]}

    def oracle(self, hist, impl_out):
        bad = M.unexpected(hist, impl_out)
        rec = self._recorded()
        for i, (l, o) in enumerate(zip(hist, impl_out)):
            w = l.split()
            if w[0] == "missing":
                bad.append(("baseline/shipped-file-missing", l, i))
                continue
            if w[0] != "img":
                continue
            c = rec.get((w[1], w[2]))
            r = M.parse_imgdec(o)
            if c is None or r is None:
                bad.append(("baseline/bad-line", o[:100], i))
                continue
            fam = M.FAMILY_OF_KIND[w[1]]
            for path, content in r[1].items():
                if path == "size":
                    continue
                if path == "wwrap" and w[1] == "bloom" and len(w[2]) == 48:
                    continue              # an empty filter cannot be wrapped for writing
                got = content.split(" ## ")[0]
                want = c["content"]
                if w[1].startswith("td.") and " w=1 " in want:
                    got, want = got.split(" C ")[0], want.split(" C ")[0]     # single value: buffer or centroid is not stored
                if got != want:
                    bad.append(("baseline/%s/%s/%s" % (fam, path, "throw" if got == "throw" else "content-differs"),
                                "%s (%s): recorded %s || now %s" % (c["src"], path, c["content"][:160], got[:160]), i))
        return bad

    def model_lines(self, hist, impl_out):
        return ["IMG %s %s" % tuple(l.split()[1:3]) for l in hist if l.startswith("img ")]

    def expected_model_out(self, hist, impl_out):
        rec = self._recorded()
        res = []
        for l in hist:
            w = l.split()
            if w[0] != "img":
                continue
            c = rec[(w[1], w[2])]
            n = len(w[2]) // 2
            content = c["content"]
            if w[1].startswith("td.") and " w=1 " in content:
                content = content.split(" C ")[0] + " C*"
            res.append("DEC %s | reenc=1 size=%d minpfx=%d fmt=%s" % (content, n, n, fmt_of(bytes.fromhex(w[2]))))
        return res

    def nontrivial_key(self, hist, impl_out):
        return tuple(l.split()[2][:24] for l in hist if l.startswith("img "))[:4] or None


def fmt_of(img):
    if len(img) >= 4 and img[0] == 0 and img[1] == 0 and img[2] == 0:
        return "leg1" if img[3] == 1 else "leg2"
    return "main"


def f32r(x):
    return struct.unpack("<f", struct.pack("<f", x))[0]


class LegacyPart(M.MiscPart):
    """model first, implementation second: the Lean encoders of the reference formats produce the images"""
    name = "legacy"

    def __init__(self):
        pass

    def generate(self, rng, tier):
        hs = []
        for _ in range(12 if tier == "quick" else 100):
            h = []
            for _ in range(4):
                big = rng.random() < 0.5
                n = rng.choice([0, 1, 2, 5, 40])
                means = sorted(rng.choice([rng.uniform(-1e3, 1e3), float(rng.randrange(-50, 50)), rng.uniform(-1, 1) * 1e-3]) for _ in range(n))
                raw = list(means)
                if not big:
                    means = [f32r(m) for m in means]
                ws = [float(rng.choice([1, 1, 2, 7, 1000, 2**20])) for _ in range(n)]
                mn = means[0] - rng.choice([0, 0.5]) if n else rng.uniform(-5, 5)
                mx = means[-1] + rng.choice([0, 2.0]) if n else mn + 1
                if not big and n and rng.random() < 0.5:
                    # what the reference implementation really writes: min and max are the ORIGINAL doubles (0.7, 0.1, ...), the extreme
                    # centroids are singletons holding them rounded to float - so the first mean may lie just below min, the last just above max
                    mn, mx = raw[0], raw[-1]
                    ws[0] = ws[-1] = 1.0
                comp = float(rng.choice([10, 20, 100, 200, 1000]))
                kind = rng.choice(["td.d", "td.f"])
                if big:
                    f = [M.f64hex(mn), M.f64hex(mx), M.f64hex(comp)] + [x for w, m in zip(ws, means) for x in (M.f64hex(w), M.f64hex(m))]
                    h.append("legacy %s big %s" % (kind, " ".join(f)))
                else:
                    f = [M.f64hex(mn), M.f64hex(mx), M.f32hex(comp), "%04x" % rng.randrange(65536), "%04x" % rng.randrange(65536)] + \
                        [x for w, m in zip(ws, means) for x in (M.f32hex(w), M.f32hex(m))]
                    h.append("legacy %s small %s" % (kind, " ".join(f)))
            hs.append(h)
        return hs

    @staticmethod
    def expected_content(line):
        """the content the generated fields describe, as tdigest<T> must report it (means exact, as hex of T)"""
        w = line.split()
        kind, big, f = w[1], w[2] == "big", w[3:]
        val64 = lambda h: struct.unpack("<d", struct.pack("<Q", int(h, 16)))[0]
        val32 = lambda h: struct.unpack("<f", struct.pack("<I", int(h, 16)))[0]
        mn, mx = val64(f[0]), val64(f[1])
        comp = val64(f[2]) if big else val32(f[2])
        rest = f[3:] if big else f[5:]
        val = val64 if big else val32
        cents = [(val(rest[i]), val(rest[i + 1])) for i in range(0, len(rest), 2)]   # (weight, mean)
        hx = M.f64hex if kind == "td.d" else M.f32hex
        tot = sum(int(c[0]) for c in cents)
        if tot == 0:
            return "k=%d w=0 empty=1 min=- max=- C 0 B 0" % int(comp)
        return ("k=%d w=%d empty=0 min=%s max=%s C %d %s B 0" % (int(comp), tot, hx(mn), hx(mx), len(cents),
                " ".join("%s:%d" % (hx(m), int(wt)) for wt, m in cents))).replace("  ", " ")

    def run_pair(self, exe, hist, model_ok):
        enc = ["ENCLEG " + " ".join(l.split()[2:]) for l in hist]
        mo, moc, merr = core.run_model(self.model_exe, None, enc, timeout=self.timeout)
        if moc != "ok" or len(mo) != len(hist) or not all(x.startswith("HEX ") for x in mo):
            return [], "ok", "", mo, moc if moc != "ok" else "crash:encoder", "legacy encoder failed: %s %s" % (mo[:2], merr[-200:])
        imgs = [(l.split()[1], x.split()[1]) for l, x in zip(hist, mo)]
        io, ioc, ierr = core.run_impl(exe, ["img %s %s" % im for im in imgs], self.harness_args, timeout=self.timeout)
        mo2, moc2, merr2 = core.run_model(self.model_exe, None, ["IMG %s %s" % im for im in imgs], timeout=self.timeout)
        return io, ioc, ierr, mo2, moc2, merr2

    def expected_model_out(self, hist, impl_out):
        res = []
        for l, o in zip(hist, impl_out):
            r = M.parse_imgdec(o)
            if r is None:
                res.append("<no IMGDEC>")
                continue
            n = r[1]["size"]
            res.append("DEC %s | reenc=1 size=%d minpfx=%d fmt=%s" % (r[1].get("bytes", "throw").split(" ## ")[0], n, n, "leg1" if l.split()[2] == "big" else "leg2"))
        return res

    def oracle(self, hist, impl_out):
        bad = []
        for i, (l, o) in enumerate(zip(hist, impl_out)):
            r = M.parse_imgdec(o)
            if r is None:
                if o.startswith("DIED"):
                    bad.append(("legacy/died", o[:100], i))
                continue                      # (search / shrink feed the raw history: nothing to judge)
            want = self.expected_content(l)
            for path in ("bytes", "stream"):
                got = r[1].get(path, "missing").split(" ## ")[0]
                if not M.content_cmp("DEC " + got, "DEC " + want):
                    bad.append(("legacy/%s/%s" % (path, "throw" if got == "throw" else "content-differs"),
                                "%s: generated %s || tdigest reports %s" % (" ".join(l.split()[:3]), want[:160], got[:160]), i))
        return bad

    def nontrivial_key(self, hist, impl_out):
        return tuple(hash(l) & 0xffff for l in hist if len(l.split()) > 8) or None


PARTS = [C10Part("bloom", M.gen_bloom), C10Part("tdigest", M.gen_tdigest), C10Part("density", M.gen_density),
         BaselinePart(), LegacyPart()]

CLAIM_TEXT = ("t-digest, Bloom filter, density sketch: the Lean encoders/decoders ARE the documented layouts; every wire constant "
              "extracted from the current headers is proved equal to its documented value (wire_consts_documented) and the documented "
              "byte offsets are theorems about the encoders; both big-endian t-digest reference formats have a decoder, an encoder and a "
              "round-trip theorem. On the code: every image written by a real sketch is decoded by the specification reader to the "
              "content the API reports; Lean-encoded reference-format images, the two shipped .sk files and a committed baseline corpus "
              "decode in C++ (bytes, stream, wrap) to the generated / recorded content.")


class C10Misc(Spec):
    pid = "C10"
    props_modules = ["DSProofs.Props.C10_Bloom", "DSProofs.Props.C10_Density", "DSProofs.Props.C10_TDigest"]
    harness = M.HARNESS
    model_exe = M.MODEL
    tfamilies = ["wire_misc"]
    rule = ("images of every state class of C09 (ser only); baseline corpus corpus/baseline/{bloom,tdigest,density}/*.txt incl. the "
            "two shipped t-digest reference images; random reference-format contents (0..40 centroids, double and float) encoded in "
            "Lean and read as tdigest<double> and tdigest<float>; distinct = distinct image-size / content signature")
    trusted_base = ["Lean 4.33 kernel", "axioms: propext, Quot.sound, Classical.choice",
                    "tools/trules/wire_misc.py (constants regenerated from the headers every run)",
                    "the documented layouts were transcribed by hand from the layout comments / serialize code (twice: Lean model, Python oracle)",
                    "t-digest centroids and Bloom bits are observed through to_string(true) (6 significant digits for means)"]
    assumptions = ["no Java/Python producer is available offline: cross-language compatibility is checked against the documented layouts, the shipped images and Lean-encoded reference images",
                   "hash definitions (XXHash64 for Bloom) are outside this group"]

    def parts(self):
        return PARTS


SPEC = C10Misc()

CLAIM = dict(text=CLAIM_TEXT,
             note="Group `misc` of C10 only (the integrator combines groups).",
             technique="Lean 4 layout model with decide-checked constant contract + legacy encoders/decoders with round-trip theorems + corpus / shipped-image decoding",
             design="DESIGN.md §3 C10")


# ----------------------------------------------------------------------------- baseline corpus writer (run once on the pinned tree)

def write_baseline():
    ok, exe, log = core.compile_harness(M.HARNESS)
    if not ok:
        print(log); return 1
    rng = random.Random(20260926)
    plan = {"bloom": (M.gen_bloom, "bf.ser %d", 40), "tdigest": (M.gen_tdigest, "td.ser %d %d", 40), "density": (M.gen_density, "den.ser %d", 40)}
    for fam, (gen, op, n) in plan.items():
        seen, lines = set(), []
        for _ in range(n):
            def extra(i, cls, wb=0, op=op, fam=fam):
                return [op % ((i, wb) if fam == "tdigest" else (i,))]
            h = [l for l in gen(rng, "quick", extra) if not (fam == "density" and l.startswith("den.updn") and l.endswith(" 2"))]
            io, ioc, ierr = core.run_impl(exe, h, (), timeout=600)
            for o in io:
                d = M.parse_img(o)
                if d and d["hex"] not in seen and d["size"] <= 4096:
                    if fam == "density" and M.trailing_empty_offset(d["kind"], bytes.fromhex(d["hex"])) != d["size"]:
                        continue
                    seen.add(d["hex"])
                    lines.append("IMG %s %s | %s" % (d["kind"], d["hex"], d["content"]))
        out = os.path.join(core.ROOT, "corpus", "baseline", fam)
        os.makedirs(out, exist_ok=True)
        with open(os.path.join(out, "pinned.txt"), "w") as f:
            f.write("# written once by `python3 -m vlib.props.c10_misc --write-baseline` from the pinned tree %s\n" % core.REPO)
            f.write("\n".join(lines) + "\n")
        print(fam, len(lines), "images")
    # the shipped reference images, with the content the pinned tree reports for them
    sk = []
    for rel, kinds in (("tdigest/test/tdigest_ref_k100_n10000_double.sk", ["td.d", "td.f"]), ("tdigest/test/tdigest_ref_k100_n10000_float.sk", ["td.f", "td.d"])):
        hx = open(os.path.join(core.REPO, rel), "rb").read().hex()
        for kind in kinds:
            io, ioc, ierr = core.run_impl(exe, ["img %s %s" % (kind, hx)], (), timeout=600)
            r = M.parse_imgdec(io[0])
            sk.append("SK %s %s | %s" % (rel, kind, r[1]["bytes"].split(" ## ")[0]))
    with open(os.path.join(core.ROOT, "corpus", "baseline", "tdigest", "shipped.txt"), "w") as f:
        f.write("# the reference-implementation images shipped under /repo, read at run time; content recorded from the pinned tree\n")
        f.write("\n".join(sk) + "\n")
    print("shipped", len(sk))
    return 0


if __name__ == "__main__":
    if "--write-baseline" in sys.argv:
        sys.exit(write_baseline())

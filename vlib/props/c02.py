"""C02 — Theta set operations return the exact set expression over the hash samples (DESIGN.md 3 C02)."""
import struct
from .. import core, gen
from ..runner import Spec
from .c01 import parse_T

MAXT = 2**63 - 1


def f64hex(x):
    return "%016x" % struct.unpack("<Q", struct.pack("<d", x))[0]


class C02(Spec):
    pid = "C02"
    props_modules = ["DSProofs.Props.C02", "DSProofs.Props.C02_Jaccard"]
    harness = "theta_h"
    model_exe = "dsmodel_theta"
    family = "theta"
    tfamilies = ["theta"]
    rule = ("histories that build 2-5 operand sketches from overlapping universes (lg_k 5-7, p in {1,.5,.1,1e-3}, exact / estimation / empty / "
            "non-empty-with-zero-retained), put them in every physical form (update, compact ordered/unordered, serialize->deserialize, "
            "serialize->wrap, compressed variants) and run unions (reused across updates with interleaved get_result and reset, lvalue and "
            "rvalue), intersections (reused), A-not-B and Jaccard, plus seed-mismatch refusals; non-trivial = at least one set operation "
            "whose result has entries and at least one operand in estimation mode or a union exceeding its nominal size; distinct = "
            "distinct tuple of result (theta, n) values")
    trusted_base = ["Lean 4.33 kernel", "axioms: propext, Quot.sound, Classical.choice",
                    "correspondence harness harness/theta_h.cpp + generators (sampled histories; public-API observations)",
                    "L1 model: operands abstract to (theta, key-sorted entries, empty, ordered, seed hash); hash-table probe order unobservable"]
    assumptions = ["theorems are about DSModel/Theta/SetOps.lean; the tie to theta_union_base_impl.hpp / theta_intersection_base_impl.hpp / "
                   "theta_set_difference_base_impl.hpp / theta_jaccard_similarity_base.hpp is differential (sampled)",
                   "Jaccard bounds are compared with the model only in exact mode and in the trivial cases (estimation-mode bounds belong to C06)",
                   "operands are well formed (produced by the real API); corrupt operands are out of scope of C02"]

    # ------------------------------------------------------------------ generator
    def generate(self, rng, tier):
        nh = 100 if tier == "quick" else 800
        hs = []
        for _ in range(nh):
            h = []
            seed = 9001 if rng.random() < 0.8 else rng.randrange(1, 2**32)
            nops = rng.choice([2, 3, 4, 5])
            universe = rng.choice([30, 120, 400, 1500])
            sk = []          # ids of sketch objects usable as operands
            nid = [0]

            def fresh():
                nid[0] += 1
                return nid[0] - 1
            for s in range(nops):
                i = fresh()
                lgk = rng.choice([5, 5, 6, 7] if tier == "quick" else [5, 6, 7, 8, 9])
                p = rng.choice(["3f800000", "3f800000", "3f000000", "3dcccccd", "3a83126f"])
                sd = seed if rng.random() < 0.93 else seed + 1
                h.append("new %d %d %d %s %d" % (i, lgk, rng.randrange(4), p, sd))
                kind = rng.random()
                n = 0 if kind < 0.08 else rng.choice([1, 3, 10, 40, 100, 300] if tier == "quick" else [1, 10, 100, 400, 1500])
                lo = rng.randrange(universe)
                for _j in range(n):
                    h.append("upd %d u64 %d" % (i, (lo + rng.randrange(universe)) % (2 * universe)))
                sk.append(i)
                # physical forms
                forms = [i]
                if rng.random() < 0.8:
                    c = fresh()
                    h.append("compact %d %d %d" % (i, c, rng.randrange(2)))
                    forms.append(c)
                    if rng.random() < 0.7:
                        d = fresh()
                        h.append("ser %d %d %s %d" % (c, d, rng.choice(["deser", "wrap", "deserc", "wrapc"]), sd))
                        forms.append(d)
                sk += forms[1:]
            # set operations
            nset = rng.choice([2, 4, 8]) if tier == "quick" else rng.choice([4, 8, 16])
            unions, inters = [], []
            for _j in range(nset):
                r = rng.random()
                if r < 0.4:
                    if not unions or rng.random() < 0.4:
                        u = fresh()
                        h.append("unew %d %d %d %s %d" % (u, rng.choice([5, 5, 6, 7]), rng.randrange(4),
                                                          rng.choice(["3f800000", "3f800000", "3f000000", "3dcccccd"]), seed))
                        unions.append(u)
                    u = rng.choice(unions)
                    for _k in range(rng.randrange(1, 5)):
                        h.append("uupd %d %d%s" % (u, rng.choice(sk), " mv" if rng.random() < 0.3 else ""))
                        if rng.random() < 0.4:
                            h.append("ures %d %d %d" % (u, fresh(), rng.randrange(2)))
                    if rng.random() < 0.15:
                        h.append("ureset %d" % u)
                    r2 = fresh()
                    h.append("ures %d %d %d" % (u, r2, rng.randrange(2)))
                    if rng.random() < 0.5:
                        sk.append(r2)
                elif r < 0.7:
                    if not inters or rng.random() < 0.5:
                        it = fresh()
                        h.append("inew %d %d" % (it, seed))
                        inters.append(it)
                        if rng.random() < 0.2:
                            h.append("ihas %d" % it)
                            h.append("ires %d %d 1" % (it, fresh()))
                    it = rng.choice(inters)
                    for _k in range(rng.randrange(1, 4)):
                        h.append("iupd %d %d%s" % (it, rng.choice(sk), " mv" if rng.random() < 0.3 else ""))
                        if rng.random() < 0.4:
                            h.append("ires %d %d %d" % (it, fresh(), rng.randrange(2)))
                    h.append("ihas %d" % it)
                    r2 = fresh()
                    h.append("ires %d %d %d" % (it, r2, rng.randrange(2)))
                    if rng.random() < 0.5:
                        sk.append(r2)
                elif r < 0.9:
                    r2 = fresh()
                    h.append("anotb %d %d %d %d %d%s" % (rng.choice(sk), rng.choice(sk), r2, rng.randrange(2), seed, " mv" if rng.random() < 0.3 else ""))
                    if rng.random() < 0.5:
                        sk.append(r2)
                elif r < 0.96:
                    h.append("jac %d %d %d" % (rng.choice(sk), rng.choice(sk), seed))
                else:
                    a = rng.choice(sk)
                    h.append("jeq %d %d %d" % (a, a if rng.random() < 0.2 else rng.choice(sk), seed))
            if rng.random() < 0.4:
                # reset and REUSE of a union whose own table has rebuilt (theta lowered below the inputs' thetas), in every table
                # configuration incl. the ones that start at full size (resize factor X1; lg_k 5 with X4/X8; lg_k 6 with X8), where
                # reset() does not reallocate: afterwards the union must behave like a fresh one
                lgu = rng.choice([5, 5, 6, 7])
                rf = rng.choice([0, 0, 1, 2, 3])
                u = fresh()
                h.append("unew %d %d %d 3f800000 %d" % (u, lgu, rf, seed))
                base = rng.randrange(universe * 8)
                big = []
                for part in range(2):
                    i = fresh()
                    h.append("new %d %d %d 3f800000 %d" % (i, rng.choice([8, 9]), rng.randrange(4), seed))
                    for x in range((1 << lgu) * 2 + rng.randrange(20)):
                        h.append("upd %d u64 %d" % (i, base + part * 100000 + x))
                    big.append(i)
                    h.append("uupd %d %d" % (u, i))
                h.append("ures %d %d %d" % (u, fresh(), rng.randrange(2)))
                h.append("ureset %d" % u)
                h.append("ures %d %d %d" % (u, fresh(), rng.randrange(2)))
                sm = fresh()
                h.append("new %d %d %d 3f800000 %d" % (sm, 8, rng.randrange(4), seed))
                for x in range(rng.choice([1, 5, 13, (1 << lgu) - 1])):
                    h.append("upd %d u64 %d" % (sm, base + 500000 + x))
                h.append("uupd %d %d" % (u, sm))
                h.append("ures %d %d %d" % (u, fresh(), rng.randrange(2)))
                h.append("ureset %d" % u)
                h.append("uupd %d %d" % (u, big[0]))
                h.append("ures %d %d %d" % (u, fresh(), rng.randrange(2)))
            if rng.random() < 0.5:
                # the SAME stream in sketches of different size: the small one is in estimation mode and its theta is the hash of an
                # item it discarded, which the large (exact / larger-k) one still retains: a hash EQUAL to the result theta must not
                # survive in a union / intersection / difference result, whichever operand comes first
                n = rng.choice([100, 300, 1000])
                base = rng.randrange(universe * 4)
                small, large = fresh(), fresh()
                h.append("new %d %d %d 3f800000 %d" % (small, 5, rng.randrange(4), seed))
                h.append("new %d %d %d 3f800000 %d" % (large, rng.choice([8, 10, 12]), rng.randrange(4), seed))
                for x in range(n):
                    h.append("upd %d u64 %d" % (small, base + x))
                    h.append("upd %d u64 %d" % (large, base + x))
                forms = {}
                for sid in (small, large):
                    c = fresh()
                    h.append("compact %d %d %d" % (sid, c, rng.randrange(2)))
                    forms[sid] = rng.choice([sid, c])
                for order in ((large, small), (small, large)):
                    u = fresh()
                    h.append("unew %d %d %d 3f800000 %d" % (u, rng.choice([10, 12]), rng.randrange(4), seed))
                    for sid in order:
                        h.append("uupd %d %d" % (u, forms[sid]))
                    h.append("ures %d %d %d" % (u, fresh(), rng.randrange(2)))
                    it = fresh()
                    h.append("inew %d %d" % (it, seed))
                    for sid in order:
                        h.append("iupd %d %d" % (it, forms[sid]))
                    h.append("ires %d %d %d" % (it, fresh(), rng.randrange(2)))
                    h.append("anotb %d %d %d %d %d" % (forms[order[0]], forms[order[1]], fresh(), rng.randrange(2), seed))
            if rng.random() < 0.5:
                # Jaccard / exactly_equal on subset-superset, identical and disjoint pairs with EQUAL theta (exact mode, or the same
                # sampling probability and no rebuild), in both argument orders and several physical forms: the "identical sets" shortcut
                # compares theta and retained counts, and is only right if it looks at both operands
                lgk = rng.choice([7, 8])
                p = rng.choice(["3f800000", "3f800000", "3f000000"])
                base = rng.randrange(universe)
                big = [base + x for x in range(rng.choice([2, 10, 40, 60]))]
                sub = rng.sample(big, rng.randrange(1, len(big))) if len(big) > 1 else big
                other = [base + 1000 + x for x in range(rng.choice([1, 5, 30]))]
                ids = []
                for items in (big, sub, list(big), other):
                    i = fresh()
                    h.append("new %d %d %d %s %d" % (i, lgk, rng.randrange(4), p, seed))
                    for x in items:
                        h.append("upd %d u64 %d" % (i, x))
                    if rng.random() < 0.5:
                        c = fresh()
                        h.append("compact %d %d %d" % (i, c, rng.randrange(2)))
                        i = c
                    ids.append(i)
                A, B, A2, D = ids
                for x, y in ((A, B), (B, A), (A, A2), (A2, A), (A, D), (D, B), (B, B)):
                    h.append("jac %d %d %d" % (x, y, seed))
                    h.append("jeq %d %d %d" % (x, y, seed))
            if rng.random() < 0.5:
                # small unions fed ONE exact operand much larger than their table, in UNORDERED physical forms: the union's own table
                # rebuilds (lowering its theta) in the middle of the input, possibly near its end, and every later entry has to be
                # screened against the theta of that moment; many input sizes, since where the last rebuild falls depends on the data
                base = rng.randrange(universe * 16)
                for _r in range(8 if tier == "quick" else 16):
                    lgu = rng.choice([5, 5, 5, 6])
                    n = rng.randrange((1 << lgu) * 2 - 8, (1 << lgu) * 14)
                    i = fresh()
                    h.append("new %d %d %d 3f800000 %d" % (i, rng.choice([9, 10]), rng.randrange(4), seed))
                    for x in range(n):
                        h.append("upd %d u64 %d" % (i, base + x))
                    base += rng.randrange(1, n)
                    src = i
                    r = rng.random()
                    if r < 0.5:
                        src = fresh()
                        h.append("compact %d %d 0" % (i, src))
                        if r < 0.25:
                            d = fresh()
                            h.append("ser %d %d %s %d" % (src, d, rng.choice(["deser", "wrap", "deserc", "wrapc"]), seed))
                            src = d
                    u = fresh()
                    h.append("unew %d %d %d 3f800000 %d" % (u, lgu, rng.randrange(4), seed))
                    h.append("uupd %d %d" % (u, src))
                    h.append("ures %d %d %d" % (u, fresh(), rng.randrange(2)))
            hs.append(h)
        return hs

    # ------------------------------------------------------------------ oracle: set algebra over the operands' observed content
    def oracle(self, hist, impl_out):
        bad = []
        obs = {}        # sketch id -> parsed observation (latest)
        uni = {}        # union id -> dict(lgk, theta0, seedhash_seed, inputs=[obs...])
        inter = {}      # inter id -> dict(seed, inputs=[obs...], dead=False)
        seeds = sorted(set(int(l.split()[5]) for l in hist if l.split()[0] in ("new", "unew", "anotb")) |
                       set(int(l.split()[2]) for l in hist if l.split()[0] == "inew"))
        so, soc, _ = core.run_model("dsmodel_theta", "hash", ["seedhash %d" % x for x in seeds])
        seedhash = {x: int(o.split()[1]) for x, o in zip(seeds, so) if o.startswith("S ")}   # seed -> seed hash (Lean Murmur)
        for i, l in enumerate(hist):
            if i >= len(impl_out):
                break
            w = l.split()
            out = impl_out[i].strip()
            op = w[0]
            o = parse_T(out) if out.startswith("T ") else None
            if op == "new":
                if o:
                    obs[int(w[1])] = o
                    seedhash[int(w[5])] = o["seedhash"]
            elif op in ("upd", "trim", "reset"):
                if o:
                    obs[int(w[1])] = o
            elif op in ("copy", "compact", "ser"):
                if o:
                    src = obs.get(int(w[1]))
                    if src is not None and op == "ser":
                        if (o["theta"], o["empty"], sorted(o["ents"] or [])) != (src["theta"], src["empty"], sorted(src["ents"] or [])):
                            bad.append(("serialized-form-differs", out[:80], i))
                    obs[int(w[2])] = o
            elif op == "unew":
                uni[int(w[1])] = dict(lgk=int(w[2]), theta0=gen.theta0_of_p(w[4]), seed=int(w[5]), inputs=[])
            elif op == "uupd":
                u = uni.get(int(w[1])); s = obs.get(int(w[2]))
                if u is None or s is None or s["ents"] is None:
                    continue
                mismatch = (not s["empty"]) and u["seed"] in seedhash and s["seedhash"] != seedhash[u["seed"]]
                if mismatch:
                    if out != "throw":
                        bad.append(("union-accepts-seed-mismatch", out[:60], i))
                    continue
                if out != "ok":
                    if out == "throw":
                        bad.append(("union-update-throws", l, i))
                    continue
                u["inputs"].append(s)
            elif op == "ureset":
                if int(w[1]) in uni:
                    uni[int(w[1])]["inputs"] = []
            elif op == "ures":
                u = uni.get(int(w[1]))
                if o is None:
                    if out != "bad-op":
                        bad.append(("union-result-missing", out[:60], i))
                    continue
                obs[int(w[2])] = o
                if u is None or o["ents"] is None:
                    continue
                ne = [s for s in u["inputs"] if not s["empty"]]
                if not ne:
                    if not o["empty"] or o["n"] != 0:
                        bad.append(("union-of-empties-not-empty", out[:80], i))
                    continue
                k = 2 ** u["lgk"]
                tstar = min([u["theta0"]] + [s["theta"] for s in ne])
                C = sorted(set(x for s in ne for x in s["ents"] if x < tstar))
                if len(C) > k:
                    want_theta, want = C[k], C[:k]
                else:
                    want_theta, want = tstar, C
                if o["empty"]:
                    bad.append(("union-result-empty-with-nonempty-input", out[:80], i))
                if o["theta"] != want_theta or sorted(o["ents"]) != want:
                    missing = [x for x in want if x not in o["ents"]][:3]
                    extra = [x for x in o["ents"] if x not in want][:3]
                    bad.append(("union-result-not-spec", "theta=%d want=%d missing=%s extra=%s" % (o["theta"], want_theta, missing, extra), i))
                if w[3] == "1" and o["ents"] != sorted(o["ents"]):
                    bad.append(("ordered-result-not-sorted", out[:60], i))
                if w[3] == "1" and not o["ordered"]:
                    bad.append(("ordered-flag-missing", out[:60], i))
            elif op == "inew":
                inter[int(w[1])] = dict(seed=int(w[2]), inputs=[])
            elif op == "ihas":
                it = inter.get(int(w[1]))
                if it is not None and out != "has %d" % (1 if it["inputs"] else 0):
                    bad.append(("has-result-wrong", out, i))
            elif op == "iupd":
                it = inter.get(int(w[1])); s = obs.get(int(w[2]))
                if it is None or s is None or s["ents"] is None:
                    continue
                # once the intersection is empty every further input is ignored (even mismatching ones)
                dead = bool(it["inputs"]) and self._inter_expected(it["inputs"])[1]
                mismatch = (not s["empty"]) and it["seed"] in seedhash and s["seedhash"] != seedhash[it["seed"]]
                if mismatch and not dead:
                    if out != "throw":
                        bad.append(("intersection-accepts-seed-mismatch", out[:60], i))
                    continue
                if out != "ok":
                    if out == "throw" and not mismatch:
                        bad.append(("intersection-update-throws", l, i))
                    continue
                if not mismatch:
                    it["inputs"].append(s)
            elif op == "ires":
                it = inter.get(int(w[1]))
                if it is None:
                    continue
                if not it["inputs"]:
                    if out != "throw":
                        bad.append(("intersection-result-before-update", out[:60], i))
                    continue
                if o is None:
                    if out != "bad-op":
                        bad.append(("intersection-result-missing", out[:60], i))
                    continue
                obs[int(w[2])] = o
                if o["ents"] is None:
                    continue
                (wt, wempty, wents) = self._inter_expected(it["inputs"])
                if (o["theta"], o["empty"], sorted(o["ents"])) != (wt, wempty, wents):
                    bad.append(("intersection-result-not-spec", "got theta=%d empty=%s n=%d want theta=%d empty=%s n=%d" %
                                (o["theta"], o["empty"], o["n"], wt, wempty, len(wents)), i))
                if w[3] == "1" and o["ents"] != sorted(o["ents"]):
                    bad.append(("ordered-result-not-sorted", out[:60], i))
            elif op == "anotb":
                a = obs.get(int(w[1])); b = obs.get(int(w[2]))
                if a is None or b is None or a["ents"] is None or b["ents"] is None:
                    if o:
                        obs[int(w[3])] = o
                    continue
                seed = int(w[5])
                shortcut = a["empty"] or (a["n"] > 0 and b["empty"])
                mismatch = (not shortcut) and seed in seedhash and (a["seedhash"] != seedhash[seed] or b["seedhash"] != seedhash[seed])
                if mismatch:
                    if out != "throw":
                        bad.append(("anotb-accepts-seed-mismatch", out[:60], i))
                    continue
                if o is None:
                    if out != "bad-op":
                        bad.append(("anotb-throws", out[:60], i))
                    continue
                obs[int(w[3])] = o
                if shortcut:      # documented short-circuits: the result is A itself
                    theta, want, wempty = a["theta"], sorted(a["ents"]), a["empty"]
                else:
                    theta = min(a["theta"], b["theta"])     # "minimum input theta": the thetas the operands report
                    bs = set(b["ents"])
                    want = sorted(x for x in a["ents"] if x < theta and x not in bs)
                    wempty = (not want and theta == MAXT)
                if (o["theta"], o["empty"], sorted(o["ents"])) != (theta, wempty, want):
                    bad.append(("anotb-result-not-spec", "got theta=%d empty=%s n=%d want theta=%d empty=%s n=%d" %
                                (o["theta"], o["empty"], o["n"], theta, wempty, len(want)), i))
                if o["ordered"] != (a["ordered"] or w[4] == "1" or o["n"] <= 1):
                    bad.append(("anotb-ordered-flag", out[:60], i))
                if o["ordered"] and o["ents"] != sorted(o["ents"]):
                    bad.append(("ordered-result-not-sorted", out[:60], i))
            elif op == "jeq":
                a = obs.get(int(w[1])); b = obs.get(int(w[2]))
                if a is None or b is None or a["ents"] is None or b["ents"] is None or out == "throw":
                    continue
                if not a["est_mode"] and not b["est_mode"] and a["seedhash"] == b["seedhash"]:
                    want = (w[1] == w[2]) or (a["empty"] and b["empty"]) or \
                           (not a["empty"] and not b["empty"] and set(a["ents"]) == set(b["ents"]))
                    if out != "E %d" % (1 if want else 0):
                        bad.append(("exactly-equal-wrong-in-exact-mode", "%s want %s" % (out, want), i))
            elif op == "jac":
                a = obs.get(int(w[1])); b = obs.get(int(w[2]))
                if a is None or b is None or a["ents"] is None or b["ents"] is None or out == "throw":
                    continue
                ws = out.split()
                if w[1] == w[2] or (a["empty"] and b["empty"]):
                    want = [f64hex(1.0)] * 3
                elif a["empty"] or b["empty"]:
                    want = [f64hex(0.0)] * 3
                elif not a["est_mode"] and not b["est_mode"] and a["seedhash"] == b["seedhash"]:
                    un = len(set(a["ents"]) | set(b["ents"]))
                    it = len(set(a["ents"]) & set(b["ents"]))
                    if un == 0:
                        continue
                    want = [f64hex(it / un)] * 3
                else:
                    continue
                if ws[0] != "J" or ws[1:4] != want:
                    bad.append(("jaccard-not-exact-ratio", "%s want %s" % (out, want), i))
        return bad

    @staticmethod
    def _inter_expected(inputs):
        """Sequential semantics: an exactly-empty intersection is final (the empty set is exact); otherwise
        theta = min of the thetas and entries = common hashes below it."""
        st = None
        for s in inputs:
            if st is not None and st[1]:
                continue
            if s["empty"]:
                st = (MAXT, True, set())
                continue
            if st is None:
                st = (s["theta"], False, set(s["ents"]))
                continue
            theta = min(st[0], s["theta"])
            ents = set(x for x in st[2] & set(s["ents"]) if x < theta)
            empty = bool(st[2]) and bool(s["ents"]) and not ents and theta == MAXT
            st = (theta, empty, ents)
        return (st[0], st[1], sorted(st[2]))

    def nontrivial_key(self, hist, impl_out):
        res = []
        est = False
        for l, o in zip(hist, impl_out):
            w = l.split()
            if w[0] in ("ures", "ires", "anotb") and o.startswith("T "):
                d = parse_T(o)
                res.append((w[0], d["theta"], d["n"]))
                if d["est_mode"] and d["n"] > 0:
                    est = True
        if not res or not est:
            return None
        return tuple(res)


SPEC = C02()

CLAIM = dict(
    text=("Kernel-checked theorems about an executable Lean model of theta union / intersection / A-not-B over ALL sequences of well-formed "
          "operands: the union result is characterised uniquely (theta = min input theta lowered to the (k+1)-th smallest surviving hash when "
          "more than k survive; entries = exactly the hashes of the inputs below that theta) and is therefore independent of the order of "
          "presentation and of interleaved get_result calls; intersection and A-not-B return the exact set expression with the documented "
          "empty-set rules; plus a differential tie of the model to the real headers on generated histories over every physical operand form "
          "(update, compact ordered/unordered, deserialized, wrapped, compressed) with reuse of union/intersection objects, and the set-algebra "
          "oracle (incl. exact-mode Jaccard = true ratio) on every implementation trace."),
    note=("Modelled, not verified: hash-table layout; corrupt operands; Jaccard bounds in estimation mode (C06)."),
    technique="Lean 4 invariant + uniqueness proof over operand sequences + differential correspondence + set-algebra trace oracle",
    design="DESIGN.md §3 C02")

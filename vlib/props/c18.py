"""C18 — EBPPS: bookkeeping exact, c = min(k, cumWt/wtMax), sample size floor(c)/ceil(c) (DESIGN.md 3 C18).

Line protocol: lean/DSModel/Ebpps/Driver.lean.  Every random draw of the library is on the op line
(`u <hex>*` = next_double values, `i <nat>*` = raw index draws) and reaches both sides.
The oracle below is the PROPERTY on the implementation's trace: it knows only the history (exact rational
arithmetic with `fractions`) and the public observations, not the Lean step functions.
"""
import struct
from fractions import Fraction
from .. import core
from ..runner import Spec, Part

ZERO_HEX = ("0000000000000000", "8000000000000000")


def fhex(x):
    return "%016x" % struct.unpack("<Q", struct.pack("<d", float(x)))[0]


def hexf(h):
    return struct.unpack("<d", struct.pack("<Q", int(h, 16)))[0]


def frac_of_hex(h):
    x = hexf(h)
    if x != x or x in (float("inf"), float("-inf")):
        return None
    return Fraction(x)


def split_draws(w, pos):
    """-> (unit hex list, index list) of an op line whose draw section starts at w[pos]."""
    if pos >= len(w) or w[pos] != "u":
        return [], []
    rest = w[pos + 1:]
    if "i" in rest:
        j = rest.index("i")
        return rest[:j], [int(x) for x in rest[j + 1:]]
    return rest, []


# ----------------------------------------------------------------------------- shadow of one sketch (history only)

class Shadow:
    """What the HISTORY says about one sketch: exact n, cumulative weight, maximum weight, the k the property
    demands (min over merges), the multiset of items offered — plus, only to name known findings, an emulation
    of the `wt_max_` field (not refreshed by internal_merge) and taints."""

    def __init__(self, k):
        self.k = k              # demanded k
        self.n = 0
        self.W = Fraction(0)
        self.M = Fraction(0)    # true maximum weight
        self.fld = Fraction(0)  # value the code's wt_max_ field holds
        self.items = {}         # item -> multiplicity offered
        self.taints = set()
        self.equal_w = None     # the single weight if the lineage is updates only with one weight, else False
        self.pure = True        # updates only (no merge since creation/reset)

    def clone(self):
        s = Shadow(self.k)
        s.__dict__.update(self.__dict__)
        s.items = dict(self.items)
        s.taints = set(self.taints)
        return s

    def reset(self):
        k, keep = self.k, self.taints & {"empty-k"}     # reset() does not touch k_
        self.__init__(k)
        self.taints = set(keep)

    def update(self, item, w):
        self.n += 1
        self.W += w
        self.M = max(self.M, w)
        self.fld = max(self.fld, w)
        self.items[item] = self.items.get(item, 0) + 1
        if self.pure and self.equal_w is None:
            self.equal_w = w
        elif self.equal_w != w:
            self.equal_w = False

    def cstar(self):
        if self.n == 0:
            return Fraction(0)
        return min(Fraction(self.k), self.W / self.M)

    def effective_source_is_stale(self, src):
        """would `self.merge(src)` replay a sketch whose wt_max_ field is stale (model and code leave the
        domain where the sample structure is guaranteed; generators avoid it)?"""
        if src.W == 0:
            return False
        eff_src = self if src.W > self.W else src
        return bool(eff_src.taints & {"stale", "stale-source"})

    def merge(self, src):
        """self.merge(src) as the property reads it; taints as the pinned code behaves."""
        kd, ks = self.k, src.k
        if src.W == 0:
            if ks < kd:
                self.taints.add("empty-k")          # code returns early: k not lowered
            fld = self.fld
        elif src.W > self.W:
            fld = src.fld
            if self.W == 0 and kd < ks:
                self.taints.add("empty-k")          # k lowered, sample not brought down
        else:
            fld = self.fld
        if self.effective_source_is_stale(src):
            self.taints.add("stale-source")
        self.taints |= src.taints
        self.k = min(kd, ks)
        self.n += src.n
        self.W += src.W
        self.M = max(self.M, src.M)
        self.fld = fld
        if self.fld < self.M:
            self.taints.add("stale")
        for it, m in src.items.items():
            self.items[it] = self.items.get(it, 0) + m
        if src.n:
            self.pure = False
            self.equal_w = False


STRUCTURAL = ("sample-size-not-floor-or-ceil-c", "serde-throws", "serde-changes-state", "c-not-closed-form", "item-duplicated")


_FLAGS = None


def source_flags():
    """source-shape flags regenerated from the headers by tools/trules/ebpps.py at the start of this run"""
    global _FLAGS
    if _FLAGS is None:
        import os, re
        try:
            txt = open(os.path.join(core.LEAN, "DSGen", "Ebpps.lean")).read()
            _FLAGS = {k: v == "true" for k, v in re.findall(r"def ebpps_(\w+) : Bool := (true|false)", txt)}
        except Exception:
            _FLAGS = {}
    return _FLAGS


def keyed(base, sh):
    """known-finding signature: the root cause when the sketch's history contains a known defect trigger.
    A trigger whose defect is repaired in the source (flag read from the headers) is not a root cause any more."""
    t = set(sh.taints) if sh is not None else set()
    fl = source_flags()
    if fl.get("geDraw"):
        t.discard("zero-draw")
    if fl.get("mergeSetsWtMax"):
        t.discard("stale-source"); t.discard("stale")
    if fl.get("clampTheta"):
        t.discard("theta-above-one")
    if fl.get("vanishFix"):
        t.discard("vanishing-partial")
    if fl.get("mergeEmptyShrinks"):
        t.discard("empty-k")
    if "zero-draw" in t:
        return "unit-draw-zero"
    if "stale-source" in t:
        return "wt-max-stale-after-merge"
    if base in STRUCTURAL and "theta-above-one" in t:
        return "merge-theta-above-one-by-rounding"
    if base in STRUCTURAL and "vanishing-partial" in t:
        return "merge-vanishing-partial-kept-as-full-item"
    if base == "c-not-closed-form" and "stale" in t:
        return "wt-max-stale-after-merge"
    if base in ("k-not-min", "c-not-closed-form") and "empty-k" in t:
        return "merge-empty-operand-k"
    return base


import math


class Emu:
    """GENERATOR-ONLY steering aid (never used for a verdict): the draw-independent binary64 bookkeeping of one sketch
    (cumulative_wt_, wt_max_, rho_, c_) replayed with Python floats in the code's operation order, to notice when a
    merge leaves the domain in which the sample structure is guaranteed (theta > 1 or a vanishing theta absorbed by an
    integral c_: findings `merge-theta-above-one-by-rounding`, `merge-vanishing-partial-kept-as-full-item`,
    `wt-max-stale-after-merge`).  Such a sketch is `fragile`: later downsampling may index past `data_`, so the
    generator only reads it from then on."""

    def __init__(self, k):
        self.k, self.n, self.cum, self.wtmax, self.rho, self.c, self.fragile = k, 0, 0.0, 0.0, 1.0, 0.0, False
        self.danger = False     # a downsample ran after the structure guarantee was lost (may index past data_)

    def clone(self):
        e = Emu(self.k)
        e.__dict__.update(self.__dict__)
        return e

    def reset(self):
        self.__init__(self.k)

    def absorb(self, incr, theta_of, new_wt_max):
        new_cum = self.cum + incr
        a, b = 1.0 / new_wt_max, self.k / new_cum
        nr = b if b < a else a
        if self.cum > 0.0:
            th = nr / self.rho
            if not (th >= 1.0):
                self.c = th * self.c
                if self.fragile:
                    self.danger = True
        theta = theta_of(nr)
        cf, of = self.c - math.floor(self.c), theta - math.floor(theta)
        newc = self.c + theta
        if theta > 1.0:
            self.fragile = True
        if not (cf == 0.0 and of == 0.0) and cf + of != 1.0 and newc == math.floor(newc) and cf + of < 0.5:
            self.fragile = True
        self.c = newc
        self.cum, self.rho = new_cum, nr

    def update(self, w):
        nm = w if self.wtmax < w else self.wtmax
        self.absorb(w, lambda r: r * w, nm)
        self.wtmax = nm
        self.n += 1

    def merge(self, src):
        """self.merge(src) as the PINNED code does it."""
        if src.cum == 0.0:
            return
        if src.cum > self.cum:
            a, b = src.clone(), self.clone()
        else:
            a, b = self, src
        final = a.cum + b.cum
        nm = b.wtmax if a.wtmax < b.wtmax else a.wtmax
        k = min(a.k, b.k)
        n = a.n + b.n
        fragile = a.fragile or b.fragile
        if b.cum > 0.0 and b.c > 0.0:
            avg = b.cum / b.c
            a.k = k
            ci = math.floor(b.c)
            fr = b.c - ci
            for _ in range(int(ci)):
                a.absorb(avg, lambda r: r * avg, nm)
            if fr != 0.0:
                a.absorb(fr * avg, lambda r: r * fr * avg, nm)
        self.__dict__.update(a.__dict__)
        self.k, self.n, self.cum = k, n, final
        self.fragile = self.fragile or fragile
        self.danger = self.danger or a.danger or b.danger


REL_TOL = Fraction(1, 10**9)


class Main(Part):
    name = "main"
    harness = "ebpps_h"
    harness_args = ("u64",)
    model_exe = "dsmodel_ebpps"
    family = "ebpps"
    timeout = 120
    strings = False

    # ------------------------------------------------------------------ generator
    def gen_units(self, rng, n):
        us = []
        for _ in range(n):
            m = rng.choice([1, 2, 3, 4, 6, 10, 20, 30])
            j = rng.randrange(1, 2 ** m)
            us.append(fhex(Fraction(j, 2 ** m)))
        return us

    def draws(self, rng, nu, ni):
        if rng.random() < 0.05:
            return ""            # exhausted source: defaults 0.5 / index 0
        return " u " + " ".join(self.gen_units(rng, nu)) + " i " + " ".join(str(rng.randrange(2 ** 32)) for _ in range(ni))

    def weight(self, rng, regime):
        if regime == "ones":
            return Fraction(1)
        if regime == "pow2":
            return Fraction(2) ** rng.randrange(-3, 4)
        if regime == "ints":
            return Fraction(rng.randrange(1, 11))
        if regime == "dyadic":
            return Fraction(rng.randrange(1, 65), 8)
        if regime == "skew":
            return Fraction(rng.choice([1, 1, 1, 2, 50, 1000]))
        return regime            # a fixed Fraction: equal weights

    def steering(self):
        """the fragile-state steering is only needed while the source has the rounding / stale-maximum defects
        (flags regenerated from the headers by tools/trules/ebpps.py at the start of this run)."""
        try:
            import os, re
            txt = open(os.path.join(core.LEAN, "DSGen", "Ebpps.lean")).read()
            fl = dict(re.findall(r"def ebpps_(\w+) : Bool := (true|false)", txt))
            return not all(fl.get(k) == "true" for k in ("mergeSetsWtMax", "clampTheta", "vanishFix"))
        except Exception:
            return True

    def one_history(self, rng, tier, nxt_item):
        steer = self.steering()
        h = []
        sh = {}      # id -> Shadow (exact, history only)
        em = {}      # id -> Emu (binary64 bookkeeping; steering only)
        big = tier != "quick"
        ks = [1, 2, 2, 3, 3, 4, 5, 6, 8, 11, 16]
        nsk = rng.choice([1, 2, 2, 3])
        regime = rng.choice(["ones", "pow2", "ints", "ints", "dyadic", "dyadic", "skew",
                             Fraction(1), Fraction(3), Fraction(1, 2), Fraction(7), Fraction(4), Fraction(5, 8)])
        for s in range(nsk):
            k = rng.choice(ks)
            h.append("new %d %d" % (s, k))
            sh[s] = Shadow(k); em[s] = Emu(k)
        free = nsk
        nops = rng.choice([8, 20, 40, 80]) if not big else rng.choice([20, 60, 150, 300])
        p_merge = rng.choice([0.0, 0.04, 0.1])

        def upd(s, w=None):
            w = self.weight(rng, regime) if w is None else w
            it = nxt_item[0]
            nxt_item[0] += 1
            h.append("upd %d %d %s%s" % (s, it, fhex(w), self.draws(rng, 3, sh[s].k + 3)))
            sh[s].update(it, w); em[s].update(float(w))

        def merge(d, s, mode):
            ni = min(400, (sh[s].k + 2) * (sh[d].k + sh[s].k + 3))
            h.append("merge %d %d %s%s" % (d, s, mode, self.draws(rng, 2 * (min(sh[s].k, sh[d].k) + 18), ni)))
            sh[d].merge(sh[s]); em[d].merge(em[s])
            if mode == "rv":
                del sh[s]; del em[s]

        def read(s):
            r = rng.random()
            if r < 0.6:
                h.append("res %d%s" % (s, self.draws(rng, 1, 0)))
            elif r < 0.85:
                h.append("iter %d%s" % (s, self.draws(rng, 1, 0)))
            else:
                # (bytes image of a copied sketch with no full item: serde<T>::serialize passes data() == nullptr with
                #  num 0 to memcpy, a UBSan nonnull report outside this property; use the stream form there)
                h.append("serde %d %s" % (s, "stream" if 0 < em[s].c < 1.000001 else rng.choice(["bytes", "stream"])))

        for _ in range(nops):
            live = sorted(sh)
            if not live:
                break
            s = rng.choice(live)
            r = rng.random()
            if steer and em[s].fragile:
                # outside the domain where the structure is guaranteed (open findings): observe only
                read(s)
                continue
            sound = [x for x in live if not (steer and em[x].fragile)]
            if r < p_merge and len(sound) >= 2:
                d, s2 = rng.sample(sound, 2)
                t1, t2 = em[d].clone(), em[s2].clone()
                t1.merge(em[s2]); t2.merge(em[d])
                if steer and (t1.danger or t2.danger):
                    # this merge would down-sample AFTER one of the rounding defects struck inside it: the real code then
                    # indexes past data_ (heap overflow / SEGV under ASan; see proposed_fixes/C18-merge-rounding.md)
                    upd(d)
                    continue
                if rng.random() < 0.4 and free + 2 < 40:
                    # both directions from the same two states
                    d2, s3 = free, free + 1
                    free += 2
                    h.append("copy %d %d" % (d, d2)); sh[d2] = sh[d].clone(); em[d2] = em[d].clone()
                    h.append("copy %d %d" % (s2, s3)); sh[s3] = sh[s2].clone(); em[s3] = em[s2].clone()
                    merge(d, s2, "lv")
                    merge(s3, d2, rng.choice(["lv", "rv"]))
                    h.append("res %d%s" % (s3, self.draws(rng, 1, 0)))
                else:
                    merge(d, s2, rng.choice(["lv", "rv", "lv"]))
                h.append("res %d%s" % (d, self.draws(rng, 1, 0)))
            elif r < p_merge + 0.20:
                read(s)
            elif r < p_merge + 0.22 and free < 40:
                h.append("copy %d %d" % (s, free)); sh[free] = sh[s].clone(); em[free] = em[s].clone(); free += 1
            elif r < p_merge + 0.23:
                h.append("reset %d" % s); sh[s].reset(); em[s].reset()
            elif r < p_merge + 0.24 and free < 40:
                k = rng.choice(ks)
                h.append("new %d %d" % (free, k)); sh[free] = Shadow(k); em[free] = Emu(k); free += 1
            elif r < p_merge + 0.26:
                # malformed weight: must throw (or be ignored for +-0) and leave the sketch as it was
                bad = rng.choice(["bff0000000000000", "7ff8000000000000", "7ff0000000000000", "fff0000000000000",
                                  "0000000000000000", "8000000000000000", "fff8000000000000", "8000000000000001"])
                h.append("upd %d %d %s" % (s, 10**6 + nxt_item[0], bad))
                nxt_item[0] += 1
            else:
                upd(s)
        for s in sorted(sh):
            h.append("res %d%s" % (s, self.draws(rng, 1, 0)))
            if rng.random() < 0.5:
                h.append("iter %d%s" % (s, self.draws(rng, 1, 0)))
        return h

    def generate(self, rng, tier):
        nh = 160 if tier == "quick" else 1600
        if self.strings:
            nh //= 4
        nxt = [1]
        hs = [self.one_history(rng, tier, nxt) for _ in range(nh)]
        # constructor argument check
        hs.append(["new 0 0", "new 0 2147483647", "new 1 4294967295", "new 2 1", "res 2"])
        return hs

    # ------------------------------------------------------------------ the property on one implementation trace
    def oracle(self, hist, impl_out):
        bad = []
        sh = {}        # id -> Shadow
        last = {}      # id -> (k, n, cum_hex, c_hex) last observed

        def flag(base, s, what, i):
            bad.append((keyed(base, s), "%s: %s" % (base, what), i))

        def check_state(sid, o, i):
            s = sh[sid]
            w = o.split()
            if len(w) != 5 or w[0] != "S":
                flag("bad-observation", s, o[:80], i)
                return
            k, n, cum, c = int(w[1]), int(w[2]), frac_of_hex(w[3]), frac_of_hex(w[4])
            last[sid] = (k, n, w[3], w[4])
            if n != s.n:
                flag("n-not-exact", s, "n=%d, history says %d" % (n, s.n), i)
            if cum is None or cum != s.W:
                flag("cum-weight-not-exact", s, "cumulative weight %s, history says %s" % (cum, s.W), i)
            if k != s.k:
                flag("k-not-min", s, "k=%d, the smallest k merged so far is %d" % (k, s.k), i)
            cs = s.cstar()
            if c is None or abs(c - cs) > REL_TOL * max(cs, 1):
                what = "c=%s but min(k, cumWt/wtMax)=min(%d, %s/%s)=%s" % (None if c is None else float(c), s.k, s.W, s.M, float(cs))
                if "empty-k" in s.taints and c is not None and (k != s.k or c > k):
                    # the observed k is not the demanded one / c exceeds k: the empty-operand defect, whatever else happened
                    bad.append((keyed("c-not-closed-form", s), "c-not-closed-form: " + what, i))
                else:
                    flag("c-not-closed-form", s, what, i)
            if c is not None and s.pure and s.equal_w and s.n <= s.k:
                ew = s.equal_w
                pow2 = (ew.numerator & (ew.numerator - 1)) == 0 and (ew.denominator & (ew.denominator - 1)) == 0 and (ew.numerator == 1 or ew.denominator == 1)
                if pow2 and c != s.n:
                    flag("equal-weights-c-not-n", s, "c=%s n=%d (equal weights %s, n <= k)" % (float(c), s.n, ew), i)

        def check_result(sid, o, i, tag):
            s = sh[sid]
            w = o.split()
            if not w or w[0] != tag:
                flag("bad-observation", s, o[:80], i)
                return
            if w[1:] == ["ub"]:
                flag("iterator-dereferences-empty-data", s, "begin() != end() with no full item and the partial item not selected", i)
                return
            got = [int(x) for x in w[1:]]
            if sid in last:
                c = frac_of_hex(last[sid][3])
                if c is not None:
                    lo = c.numerator // c.denominator
                    hi = lo if c == lo else lo + 1
                    if len(got) not in (lo, hi):
                        flag("sample-size-not-floor-or-ceil-c", s, "%d items returned, c=%s" % (len(got), float(c)), i)
            cnt = {}
            for x in got:
                cnt[x] = cnt.get(x, 0) + 1
            for x, m in cnt.items():
                if x not in s.items:
                    flag("item-not-from-input", s, "item %d was never offered to this sketch" % x, i)
                elif m > s.items[x]:
                    flag("item-duplicated", s, "item %d returned %d times, offered %d times" % (x, m, s.items[x]), i)
            if s.pure and s.equal_w and s.n <= s.k and s.n > 0:
                if sorted(got) != sorted(s.items):
                    flag("equal-weights-item-dropped", s, "equal weights %s, n=%d <= k=%d, returned %d of them" %
                         (s.equal_w, s.n, s.k, len(got)), i)

        for i, l in enumerate(hist):
            if i >= len(impl_out):
                break
            w = l.split()
            o = impl_out[i].strip()
            op = w[0]
            if o in ("bad-op", "no-object"):
                bad.append(("bad-observation", "%s for %r" % (o, l[:60]), i))
                continue
            if op == "new":
                k = int(w[2])
                sid = int(w[1])
                valid = 1 <= k <= 2 ** 31 - 2
                if o == "throw":
                    if valid:
                        bad.append(("unexpected-throw", "new k=%d" % k, i))
                    continue
                if not valid:
                    bad.append(("bad-k-accepted", "new k=%d" % k, i))
                sh[sid] = Shadow(k)
                check_state(sid, o, i)
            elif op == "upd":
                sid = int(w[1])
                if sid not in sh:
                    continue
                s = sh[sid]
                wt = hexf(w[3])
                us, _ = split_draws(w, 4)
                if wt != wt or wt < 0 or wt in (float("inf"),):
                    if o != "throw":
                        flag("bad-weight-accepted", s, "weight %r" % wt, i)
                    continue
                if o == "throw":
                    flag("unexpected-throw", s, "update with weight %r" % wt, i)
                    continue
                if wt != 0:
                    if any(u in ZERO_HEX for u in us):
                        s.taints.add("zero-draw")
                    s.update(int(w[2]), Fraction(wt))
                check_state(sid, o, i)
            elif op == "merge":
                d, sr = int(w[1]), int(w[2])
                if d not in sh or sr not in sh:
                    continue
                us, _ = split_draws(w, 4)
                if any(u in ZERO_HEX for u in us):
                    sh[d].taints.add("zero-draw")
                src = sh[sr]
                # binary64 triggers of the two rounding findings, read off the OBSERVED c of the sketch that is replayed
                if src.W > 0 and d != sr:
                    eff = d if src.W > sh[d].W else sr
                    eo = last.get(eff)
                    if eo is not None:
                        ce = hexf(eo[3])
                        if ce > 0:
                            # theta of the first replayed item, in the code's operation order
                            avg = float(sh[eff].W) / ce
                            newmax = float(max(sh[d].fld, src.fld))
                            tgt = sr if eff == d else d
                            kk = min(last[d][0] if d in last else sh[d].k, eo[0] if eff == sr else last.get(sr, (src.k,))[0])
                            nr = min(1.0 / newmax, kk / (float(sh[tgt].W) + avg))
                            if nr * avg > 1.0:
                                sh[d].taints.add("theta-above-one")
                            if 0 < ce - math.floor(ce) < 1e-9:
                                sh[d].taints.add("vanishing-partial")
                sh[d].merge(src)
                if w[3] == "rv" and sr != d:
                    del sh[sr]
                    last.pop(sr, None)
                if o == "throw":
                    flag("unexpected-throw", sh[d], "merge", i)
                    continue
                check_state(d, o, i)
            elif op in ("res", "iter"):
                sid = int(w[1])
                if sid not in sh:
                    continue
                if o == "throw":
                    flag("unexpected-throw", sh[sid], op, i)
                    continue
                check_result(sid, o, i, "R" if op == "res" else "I")
            elif op == "serde":
                sid = int(w[1])
                if sid not in sh:
                    continue
                if o == "throw":
                    flag("serde-throws", sh[sid], "serialize -> deserialize of a sketch built by updates/merges throws", i)
                    continue
                before = last.get(sid)
                check_state(sid, o, i)
                if before is not None and last[sid] != before:
                    flag("serde-changes-state", sh[sid], "%s -> %s" % (before, last[sid]), i)
            elif op == "reset":
                sid = int(w[1])
                if sid not in sh:
                    continue
                sh[sid].reset()
                check_state(sid, o, i)
            elif op == "copy":
                a, b = int(w[1]), int(w[2])
                if a not in sh:
                    continue
                sh[b] = sh[a].clone()
                before = last.get(a)
                check_state(b, o, i)
                if before is not None and last[b] != before:
                    flag("copy-differs", sh[b], "%s -> %s" % (before, last[b]), i)
        return bad

    def nontrivial_key(self, hist, impl_out):
        """non-trivial: some sketch saw more than k items (so it down-sampled) or took part in a merge, and at
        least one sample was read back."""
        ks, ns, merged = {}, {}, False
        for l in hist:
            w = l.split()
            if w[0] == "new":
                ks[w[1]] = int(w[2]); ns[w[1]] = 0
            elif w[0] == "upd" and w[1] in ns:
                ns[w[1]] += 1
            elif w[0] == "merge":
                merged = True
        if not any(l.startswith(("res", "iter")) for l in hist):
            return None
        if not (merged or any(ns[s] > ks[s] for s in ks)):
            return None
        fin = tuple(o for l, o in zip(hist, impl_out) if l.startswith(("upd", "merge")))[-3:]
        return (tuple(sorted(ks.items())), fin)


class Strings(Main):
    name = "str"
    harness_args = ("str",)
    strings = True


class C18(Spec, Main):
    pid = "C18"
    props_modules = ["DSProofs.Props.C18"]
    tfamilies = ["ebpps"]
    rule = ("histories over 1-3 (+copies) live EBPPS sketches, k in {1,2,3,4,5,6,8,11,16}, 8-80 ops (20-300 thorough): weighted updates "
            "(regimes: all 1, powers of two 1/8..8, integers 1..10, dyadic j/8, skewed {1,2,50,1000}, one fixed weight) with the unit/index "
            "draws on the op line (dyadic j/2^m, m<=30, never 0; 5% of the lines leave the source exhausted), merges lvalue/rvalue incl. the same "
            "two states merged in both directions, get_result, iterator, serialize->deserialize (bytes/stream), copy, reset, malformed weights; "
            "run for uint64_t items and (a quarter as many) std::string items; a history is non-trivial when some sketch saw more than k items or was "
            "merged and a sample was read back; distinct = distinct (k configuration, last three state observations)")
    trusted_base = ["Lean 4.33 kernel", "axioms: propext, Quot.sound, Classical.choice",
                    "theorems are about the Rat instance of DSModel/Ebpps/*.lean; binary64 rounding is not modelled in the theorems (the Float "
                    "instance of the same definitions is compared bit for bit with the C++ on generated histories)",
                    "correspondence harness harness/ebpps_h.cpp + generators (sampled histories; public-API observations; draws supplied through the DATASKETCHES_VERIF hook)",
                    "tools/trules/ebpps.py (MAX_K and three source-shape flags selecting the model variant)"]
    assumptions = ["weights positive and finite; binary64 range effects (denormal weights whose reciprocal overflows, cumulative weight overflow) are outside the statement",
                   "draws are values of next_double() in [0,1) and of uniform_int_distribution; the theorems quantify over all of them",
                   "global 'inclusion probability proportional to weight over all draws' is NOT formalised (DESIGN.md section 5); only the one-step identities are"]

    def parts(self):
        return [self, Strings()]


SPEC = C18()

CLAIM = dict(
    text=("Kernel-checked theorems (exact rational arithmetic; every k, every positive weight stream, every draw sequence) about an executable "
          "Lean model of ebpps_sketch/ebpps_sample written once over an ops-only numeric class: n and cumulative weight exact (eb_counts), "
          "c = rho*cumWt = min(k, cumWt/wtMax) after every update (eb_c_closed_form), |data| = floor(c), partial item present iff frac(c) > 0, every "
          "stored item an input item, hence every get_result has floor(c) or ceil(c) items (eb_structure), equal weights with n <= k keep every item "
          "for any draws (eb_equal_weights_keep_all), the same invariants after a merge in both directions (eb_merge), for EVERY merge tree once "
          "the proposed repairs are in (eb_all_histories_repaired), and the one-step PPS identities with exact region lengths and uniform index "
          "draws: downsample scales every resident item's inclusion by rho'/rho, the merge adds the new item with probability rho'*w "
          "(eb_one_step_pps_downsample / _new_item / _merge); plus a bit-for-bit differential tie of the Float instance of the SAME definitions to the "
          "real headers with all draws supplied through the DATASKETCHES_VERIF hook, plus the property oracle (closed form and sample-size law "
          "recomputed from the history with exact fractions) on every implementation trace."),
    note=("NOT formalised: the global statement 'over the sampling randomness each item's inclusion probability is proportional to its weight' "
          "(a statement about the joint distribution of all draws of a whole history; DESIGN.md section 5) - only the one-step identities are "
          "proved. Binary64 rounding is not modelled in the theorems (the Float instance is only executed and compared). Five genuine defects of the "
          "pinned code were found by this check, each with a Lean witness (`..._full_false`) or a bit-exact model reproduction and a replayed regress "
          "history; four are repaired in /repo by `fix:` commits (stale wt_max after merge f33144e; a draw of exactly 0.0 losing the partial item "
          "e2a7605; theta one ulp above 1 stored as a partial item -> out-of-bounds subsample a254b8d; a vanishing fraction promoted to a full item "
          "1c51200 - known_findings.json: fixed; the translator reads the repaired source shapes, the model follows, and the oracle keys follow the "
          "flags). One stays OPEN as a known finding: merging an EMPTY sketch ignores its smaller k (and the other direction lowers k without "
          "shrinking the sample) - the Java reference returns early in the same way, so the repair is a semantic decision for the maintainers "
          "(proposed_fixes/C18-merge-empty-k.patch; eb_merge_full_false keeps the witness)."),
    technique="Lean 4 invariant proofs over Rat (generic model, Float instance executed) + differential correspondence with hook-supplied draws + trace oracle",
    design="DESIGN.md §3 C18")

"""C20 — Density sketch keeps exact counts and is exact before its first compaction (DESIGN.md 3 C20)."""
import math, struct
from fractions import Fraction
from .. import core
from ..runner import Spec


# ----------------------------------------------------------------------------- scalar emulation (oracle side)

def f64hex(x):
    return "%016x" % struct.unpack("<Q", struct.pack("<d", x))[0]


def r32(x):
    """round a Python float (binary64) to binary32 (round-to-nearest-even; overflow -> inf)."""
    try:
        return struct.unpack("<f", struct.pack("<f", x))[0]
    except OverflowError:
        return math.copysign(math.inf, x)


def f32hex(x):
    return "%08x" % struct.unpack("<I", struct.pack("<f", r32(x)))[0]


def unhex(ty, s):
    if ty == "f32":
        return struct.unpack("<f", struct.pack("<I", int(s, 16) & 0xFFFFFFFF))[0]
    return struct.unpack("<d", struct.pack("<Q", int(s, 16) & 0xFFFFFFFFFFFFFFFF))[0]


def kernel_value(ty, ker, p, q):
    """the kernel as the C++ computes it, in T arithmetic (each basic operation correctly rounded to T)."""
    rnd = r32 if ty == "f32" else (lambda v: v)
    s = 0.0
    for a, b in zip(p, q):
        d = rnd(a - b)
        s = rnd(s + rnd(d * d))
    if ker == 0:
        try:
            return rnd(math.exp(-s))
        except OverflowError:
            return math.inf
    if ker == 1:
        return rnd(1.0 / rnd(1.0 + s))
    return 1.0 if s <= 1.0 else 0.0


EPS = {"f32": 2.0 ** -24, "f64": 2.0 ** -53}
TINY = {"f32": 2.0 ** -149, "f64": 2.0 ** -1074}


def parse_S(line):
    w = line.split()
    if len(w) < 10 or w[0] != "S":
        return None
    try:
        d = dict(n=int(w[1]), r=int(w[2]), em=w[3] == "1", emp=w[4] == "1")
        kv = dict(t.split("=", 1) for t in w[5:])
        d["L"] = None if kv["L"] == "-" else int(kv["L"])
        d["sz"] = None if kv["sz"] == "-" else [int(x) for x in kv["sz"].split(",")]
        d["it"] = [] if kv["it"] == "-" else [tuple(int(y) for y in x.split("x")) for x in kv["it"].split(",")]
        d["pf"] = kv["pf"]
        return d
    except Exception:
        return None


def est_tokens_close(p, q):
    """`E <hex>` tokens: re-association of the estimate sum is not an alarm (relative 2^-40 for double, 2^-18 for float)."""
    if len(p) != len(q) or len(p) not in (8, 16):
        return False
    try:
        ty = "f32" if len(p) == 8 else "f64"
        x, y = unhex(ty, p), unhex(ty, q)
    except ValueError:
        return False
    if math.isnan(x) or math.isnan(y) or math.isinf(x) or math.isinf(y):
        return False
    tol = 2.0 ** -18 if ty == "f32" else 2.0 ** -40
    return abs(x - y) <= tol * max(abs(x), abs(y))


def line_cmp(x, y):
    """x = implementation line, y = model line.  `L=- sz=-` (level sizes unavailable: empty sketch or serialize threw) is a wildcard."""
    xs, ys = x.split(), y.split()
    if len(xs) != len(ys):
        return False
    if xs and xs[0] == "E" and ys[0] == "E" and len(xs) == 2:
        return est_tokens_close(xs[1], ys[1])
    for p, q in zip(xs, ys):
        if p == q:
            continue
        if p in ("L=-", "sz=-") and q.split("=")[0] == p.split("=")[0]:
            continue
        return False
    return True


class C20(Spec):
    pid = "C20"
    props_modules = ["DSProofs.Props.C20"]
    harness = "density_h"
    model_exe = "dsmodel_density"
    family = "density"
    tfamilies = ["density"]
    timeout = 90
    cmp = staticmethod(line_cmp)
    rule = ("histories over 1-3 live density sketches (T in {float,double}, library gaussian_kernel / user kernel 1/(1+d^2) / user indicator kernel, "
            "k 2..16, dim 1..4) with updates (clustered, spread and boundary coordinates; lvalue and rvalue overloads), wrong-dimension updates, "
            "queries (also of wrong dimension), merges by const& and by rvalue (also of other dimension / other k), copies and dumps; the random bit and "
            "the Fisher-Yates draws of every compaction are supplied to both sides (LCG seeded by `rnd`, explicit `coins`/`draws` lines, and an exhaustive "
            "enumeration of all first bits x all draws for tiny cases; a family of far-apart points with supplied coins where compactions promote "
            "nothing: empty top level / level count shrinking); a history is non-trivial when some sketch compacted (>= 2 levels) or merged a "
            "non-empty sketch; distinct = distinct (T, kernel, k, dim, final n, retained, level sizes) signature")
    trusted_base = ["Lean 4.33 kernel", "axioms: propext, Quot.sound, Classical.choice",
                    "tools/trules/density.py (MIN_K and the shapes of the loop guard / is_empty / level selection are re-read from the header every run)",
                    "correspondence harness harness/density_h.cpp + generators (sampled histories; public-API observations; level sizes are read from "
                    "the public serialized image)",
                    "Float/Float32 instances of the model are executed only; the estimate theorems are over Rat (exact arithmetic)",
                    "Lean Float.exp == glibc exp (observed bit for bit on every generated history)"]
    assumptions = ["theorems are about DSModel/Density/Sketch.lean; the tie to density_sketch_impl.hpp is differential (sampled histories, bit-exact)",
                   "n_ (uint64) and num_retained_ (uint32) are modelled as unbounded naturals",
                   "finite coordinates only (a NaN/inf coordinate makes the Gaussian kernel NaN; not generated)",
                   "self-merge (a.merge(a)) is not exercised: it is a use-after-free in std::copy/back_inserter, reported separately (aliasing is C19's subject)",
                   "floating-point rounding is not modelled in the theorems; exact-mode estimates are compared with the exact rational mean of the "
                   "kernel values within (n+2)*4 ulp-relative, and bit-exactly with the Float model"]

    def extra_stages(self, rep, tier, rng, broken):
        # measured oracle figures go into the evidence (coverage.oracle_checks / coverage.transitions_hit)
        self._stats = {}
        rep.cov["oracle_checks"] = self._stats

    def _count(self, key, by=1):
        st = getattr(self, "_stats", None)
        if st is not None:
            st[key] = st.get(key, 0) + by

    # ------------------------------------------------------------------------- generator
    def _coord(self, rng, ty, mode):
        if rng.random() < 0.06:
            v = rng.choice([0.0, -0.0, 1.0, -1.0, 0.5, 2.0 ** -30, 1e30 if ty == "f64" else 1e18, 40.0, -40.0, 11.0, 3.0])
        elif mode == "cluster":
            v = rng.gauss(0.0, 0.7)
        elif mode == "grid":
            v = rng.randrange(-4, 5) * 0.5
        elif mode == "spread":
            v = rng.gauss(0.0, 30.0)
        else:  # far: pairwise kernel values underflow to 0
            v = rng.randrange(-20, 20) * 45.0
        return f32hex(v) if ty == "f32" else f64hex(v)

    def _point(self, rng, ty, dim, mode):
        return " ".join(self._coord(rng, ty, mode) for _ in range(dim))

    def _history(self, rng, tier):
        ty = rng.choice(["f32", "f64"])
        ker = rng.choice([0, 0, 1, 2])
        dim = rng.choice([1, 1, 2, 3, 4])
        kmax = 8 if tier == "quick" else 16
        mode = rng.choice(["cluster", "cluster", "grid", "spread", "far"])
        h = ["rnd %d" % rng.randrange(2 ** 64)]
        nsk = rng.choice([1, 2, 2, 3])
        dims = {}
        for s in range(nsk):
            k = rng.choice([2, 2, 3, 4, rng.randrange(2, kmax + 1)])
            d = dim if rng.random() < 0.93 else rng.choice([1, 2, 3, 4])
            kk = ker if rng.random() < 0.95 else rng.choice([1, 2])
            h.append("new %d %s %d %d %d" % (s, ty, kk, k, d))
            dims[s] = d
        live = list(range(nsk))
        nb = {x: 0 for x in live}     # upper bound of n per sketch: sketches that feed each other double n at every merge; keep n <= 2^20
        nxt = nsk                     # (levels stay far below 31, where get_estimate's `1 << height` overflows: separate corpus witness w4)
        nops = rng.choice([15, 40, 90, 200]) if tier == "quick" else rng.choice([40, 150, 400, 900])
        for _ in range(nops):
            r = rng.random()
            s = rng.choice(live)
            d = dims[s]
            if r < 0.74:
                h.append("upd %d %s" % (s, self._point(rng, ty, d, mode)))
                nb[s] += 1
            elif r < 0.765:
                wd = rng.choice([x for x in (0, 1, 2, 3, 4, 5) if x != d])
                h.append(("upd %d %s" % (s, self._point(rng, ty, wd, mode))).rstrip())
            elif r < 0.86:
                h.append("q %d %s" % (s, self._point(rng, ty, d, mode)))
            elif r < 0.868:
                # wrong-dimension query: only LONGER ones here (a shorter one reads out of bounds in the Gaussian kernel; see proposed_fixes)
                h.append("q %d %s" % (s, self._point(rng, ty, d + rng.choice([1, 2]), mode)))
            elif r < 0.91 and len(live) > 1:
                o = rng.choice([x for x in live if x != s])
                if nb[s] + nb[o] > 2 ** 20:
                    continue
                nb[s] += nb[o]
                if rng.random() < 0.2 and len(live) > 2:
                    h.append("mergemv %d %d" % (s, o))
                    live.remove(o)
                else:
                    h.append("merge %d %d" % (s, o))
                    if rng.random() < 0.6:
                        # the source of a merge by reference is still a sketch of its own: look at it, query it
                        h.append("dump %d" % o)
                        h.append("q %d %s" % (o, self._point(rng, ty, dims[o], mode)))
            elif r < 0.935 and nxt < 6:
                h.append("copy %d %d" % (s, nxt))
                nb[nxt] = nb[s]
                dims[nxt] = d
                live.append(nxt)
                nxt += 1
            elif r < 0.95 and nxt < 6:
                k = rng.randrange(2, kmax + 1)
                h.append("new %d %s %d %d %d" % (nxt, ty, ker, k, d))
                nb[nxt] = 0
                dims[nxt] = d
                live.append(nxt)
                nxt += 1
            elif r < 0.965:
                h.append("coins %s" % "".join(rng.choice("01") for _ in range(rng.randrange(1, 4))))
            elif r < 0.975:
                h.append("draws %s" % " ".join(str(rng.randrange(2 ** 32)) for _ in range(rng.randrange(1, 9))))
            else:
                h.append("dump %d" % s)
        for s in live:
            h.append("dump %d" % s)
            h.append("q %d %s" % (s, self._point(rng, ty, dims[s], mode)))
        return h

    def _emptytop(self, rng):
        """pairwise far-apart points (every kernel value underflows to exactly 0): a compaction keeps its first shuffled point iff the
        coin is 1 and nothing at all iff it is 0.  Coins are supplied explicitly so that upper levels get populated (1) and then a
        compaction of the TOP level promotes nothing (0): pinned compact() leaves an empty top level, the repaired one drops the
        empty levels from the top (possibly several; possibly back to one level)."""
        ty = rng.choice(["f32", "f64"])
        ker = rng.choice([0, 0, 2])
        step = 100.0 if ty == "f64" else 45.0
        hx = f64hex if ty == "f64" else f32hex
        nsk = rng.choice([1, 2])
        h = ["rnd %d" % rng.randrange(2 ** 64)]
        for s in range(nsk):
            h.append("new %d %s %d %d 1" % (s, ty, ker, rng.choice([2, 2, 3, 4])))
        pos = list(range(-60, 60))
        rng.shuffle(pos)
        p1 = rng.choice([0.0, 0.3, 0.6, 0.9])
        for i in range(rng.choice([12, 30, 60, 100])):
            s = rng.randrange(nsk)
            if i % 5 == 0:
                h.append("coins %s" % "".join("1" if rng.random() < p1 else "0" for _ in range(12)))
            r = rng.random()
            if r < 0.8 and pos:
                h.append("upd %d %s" % (s, hx(pos.pop() * step)))
            elif r < 0.9:
                h.append("q %d %s" % (s, hx(rng.randrange(-60, 60) * step)))
            elif r < 0.95 and nsk > 1:
                h.append("merge %d %d" % (s, 1 - s))
            else:
                h.append("dump %d" % s)
        for s in range(nsk):
            h += ["dump %d" % s, "q %d %s" % (s, hx(0.0))]
        return h

    def _malformed(self, rng):
        ty = rng.choice(["f32", "f64"])
        h = ["rnd 7", "new 0 %s 0 0 1" % ty, "new 0 %s 1 1 2" % ty, "new 0 %s 0 2 2" % ty, "q 0 %s" % self._point(rng, ty, 2, "grid"),
             "new 1 %s 0 3 3" % ty, "merge 0 1", "upd 1 %s" % self._point(rng, ty, 3, "grid"), "merge 0 1", "merge 1 0",
             "upd 0", "upd 0 %s" % self._point(rng, ty, 2, "grid"), "merge 1 0", "mergemv 0 1", "q 1 %s" % self._point(rng, ty, 3, "grid"),
             "new 2 %s 2 65535 1" % ty, "upd 2 %s" % self._point(rng, ty, 1, "grid"), "dump 2", "dump 9",
             # sketches that check_k must refuse (if it does not: k = 0 makes the compaction loop spin / index an empty level)
             "new 5 %s 0 0 1" % ty, "upd 5 %s" % self._point(rng, ty, 1, "grid"), "upd 5 %s" % self._point(rng, ty, 1, "grid"),
             "new 6 %s 0 1 1" % ty, "upd 6 %s" % self._point(rng, ty, 1, "grid"), "upd 6 %s" % self._point(rng, ty, 1, "grid"),
             "upd 6 %s" % self._point(rng, ty, 1, "grid"), "q 6 %s" % self._point(rng, ty, 1, "grid"), "dump 6"]
        return h

    def _exhaustive(self, rng):
        """all first bits x all Fisher-Yates draws for one compaction of a level of m = 2..4 points (every outcome of compact_level's randomness)."""
        hs = []
        for ty in ("f64", "f32"):
            for ker in (0, 1, 2):
                m = rng.choice([2, 3, 3, 4])
                pts = [self._point(rng, ty, 2, rng.choice(["cluster", "grid", "far"])) for _ in range(m + 1)]
                import itertools
                for bit in "01":
                    for ds in itertools.product(*[range(i) for i in range(m, 1, -1)]):
                        h = ["rnd 1", "coins %s" % bit, "draws %s" % " ".join(map(str, ds)), "new 0 %s %d %d 2" % (ty, ker, m)]
                        h += ["upd 0 %s" % p for p in pts]
                        h += ["dump 0", "q 0 %s" % pts[0]]
                        hs.append(h)
        return hs

    def generate(self, rng, tier):
        nh = 300 if tier == "quick" else 3000
        hs = [self._history(rng, tier) for _ in range(nh)]
        hs += [self._malformed(rng) for _ in range(2 if tier == "quick" else 6)]
        hs += [self._emptytop(rng) for _ in range(40 if tier == "quick" else 300)]
        ex = self._exhaustive(rng)
        hs += ex if tier != "quick" else ex[::3]
        return hs

    class Inputs:
        """accepted points of one sketch: multiset keyed by the coordinate bit patterns (merges that feed each other double n, so the
        multiset holds counts, not copies) + the ordered list while it is short (only needed in exact mode, i.e. <= k points)."""
        MAXLIST = 4096

        def __init__(self, pool=None, lst=None, total=0):
            self.pool = dict(pool or {})
            self.lst = list(lst) if lst is not None else None
            self.total = total

        @staticmethod
        def key(p):
            return tuple(struct.pack("<d", x) for x in p)

        def add(self, p):
            k = self.key(p)
            self.pool[k] = self.pool.get(k, 0) + 1
            self.total += 1
            if self.lst is not None:
                self.lst.append(p)
                if len(self.lst) > self.MAXLIST:
                    self.lst = None

        def merged(self, other):
            r = C20.Inputs(self.pool, None, self.total + other.total)
            for k, c in other.pool.items():
                r.pool[k] = r.pool.get(k, 0) + c
            if self.lst is not None and other.lst is not None and len(self.lst) + len(other.lst) <= self.MAXLIST:
                r.lst = self.lst + other.lst
            return r

        def copy(self):
            return C20.Inputs(self.pool, self.lst, self.total)

    # ------------------------------------------------------------------------- the property statement on one implementation trace
    def oracle(self, hist, impl_out):
        bad = []
        cfg = {}        # id -> dict(ty, ker, k, dim)
        exp_n = {}      # id -> number of points the sketch was legitimately given (updates + merged n)
        inputs = {}     # id -> Inputs: the accepted points as a multiset (always) and in order (while short)
        last = {}       # id -> last S observation
        lossy = set()   # ids whose n already disagreed (known finding): exact-mode mean is not checked on them any more

        def check_state(sid, o, i):
            c = cfg[sid]
            self._count("state_checks")
            if o["L"] is not None:
                self._count("bound_checks_with_level_count")
                st = getattr(self, "_stats", None)
                if st is not None:
                    st["max_levels_seen"] = max(st.get("max_levels_seen", 0), o["L"])
            if o["r"] == 0 and o["n"] > 0:
                self._count("emptied_states_seen")
            if o["sz"] and len(o["sz"]) > 1 and o["sz"][-1] == 0:
                self._count("empty_top_level_seen")
            pl = last.get(sid)
            if pl is not None and pl["L"] is not None and o["L"] is not None and o["L"] < pl["L"]:
                self._count("level_count_decreased")
            if o["L"] == 1 and o["r"] < o["n"]:
                self._count("one_level_after_lossy_compaction")
            if o["n"] != exp_n[sid]:
                bad.append(("n-not-exact", "get_n=%d expected=%d" % (o["n"], exp_n[sid]), i))
                exp_n[sid] = o["n"]
                lossy.add(sid)
            cnt = sum(cn for _, cn in o["it"])
            if o["r"] != cnt:
                bad.append(("retained-ne-iterated", "get_num_retained=%d iterated=%d" % (o["r"], cnt), i))
            ws = [w for w, _ in o["it"]]
            if any(w <= 0 or (w & (w - 1)) for w in ws) or any(a >= b for a, b in zip(ws, ws[1:])):
                bad.append(("iterator-weight-not-2^level", "weights=%s" % ws, i))
            if o["emp"] != (o["r"] == 0):
                bad.append(("is-empty-ne-no-retained", "empty=%s retained=%d" % (o["emp"], o["r"]), i))
            if o["r"] > o["n"]:
                bad.append(("retained-exceeds-n", "retained=%d n=%d" % (o["r"], o["n"]), i))
            if o["L"] is not None:
                if o["r"] > c["k"] * o["L"]:
                    bad.append(("retained-exceeds-k-levels", "retained=%d k=%d levels=%d" % (o["r"], c["k"], o["L"]), i))
                if o["em"] != (o["L"] > 1):
                    bad.append(("estimation-mode-ne-levels>1", "est_mode=%s levels=%d" % (o["em"], o["L"]), i))
                want = [(2 ** hgt, sz) for hgt, sz in enumerate(o["sz"]) if sz > 0]
                if want != o["it"]:
                    bad.append(("iterator-weight-ne-2^level", "level sizes=%s iterator runs=%s" % (o["sz"], o["it"]), i))

        for i, l in enumerate(hist):
            if i >= len(impl_out):
                break
            w = l.split()
            out = impl_out[i].strip()
            op = w[0]
            if out == "hang":
                bad.append(("loop-does-not-terminate", "no return from `%s` within the CPU budget" % l[:60], i))
                break
            if op in ("rnd", "coins", "draws"):
                continue
            if op == "new":
                sid, ty, ker, k, dim = int(w[1]), w[2], int(w[3]), int(w[4]), int(w[5])
                if out == "throw":     # check_k refused (the bound itself is DSGen.density_MIN_K; the theorems need only MIN_K >= 1)
                    if k >= 2:
                        bad.append(("valid-k-refused", "k=%d" % k, i))
                    continue
                o = parse_S(out)
                if o is None:
                    bad.append(("bad-observation", out[:80], i))
                    continue
                cfg[sid] = dict(ty=ty, ker=ker, k=k, dim=dim)
                exp_n[sid] = 0
                inputs[sid] = C20.Inputs(lst=[])
                lossy.discard(sid)
                if o["n"] != 0 or o["r"] != 0 or o["em"] or not o["emp"]:
                    bad.append(("new-sketch-not-empty", out[:80], i))
                last[sid] = o
                continue
            if op == "upd":
                sid = int(w[1])
                if sid not in cfg:
                    continue
                c = cfg[sid]
                pt = tuple(unhex(c["ty"], x) for x in w[2:])
                if len(pt) != c["dim"]:
                    if out != "throw":
                        bad.append(("wrong-dim-update-not-refused", "dim=%d point has %d coordinates" % (c["dim"], len(pt)), i))
                        o = parse_S(out)
                        if o:
                            exp_n[sid] = o["n"]
                            last[sid] = o
                    continue
                o = parse_S(out)
                if o is None:
                    bad.append(("bad-observation" if out != "throw" else "valid-update-refused", out[:80], i))
                    continue
                exp_n[sid] += 1
                inputs[sid].add(pt)
                check_state(sid, o, i)
                last[sid] = o
                continue
            if op in ("merge", "mergemv"):
                a, b = int(w[1]), int(w[2])
                if a not in cfg or b not in cfg or a == b:
                    continue
                ca, cb = cfg[a], cfg[b]
                if ca["ty"] != cb["ty"] or (ca["ker"] == 0) != (cb["ker"] == 0):
                    continue   # different C++ types: the harness refuses
                lb = last.get(b)
                nb = exp_n[b]
                if out == "throw":
                    if not (ca["dim"] != cb["dim"] and nb > 0):
                        bad.append(("valid-merge-refused", "dims %d/%d other n=%d" % (ca["dim"], cb["dim"], nb), i))
                    continue
                o = parse_S(out)
                if o is None:
                    bad.append(("bad-observation", out[:80], i))
                    continue
                if ca["dim"] != cb["dim"]:
                    if nb > 0 and lb is not None and lb["r"] > 0:
                        bad.append(("wrong-dim-merge-not-refused", "dims %d/%d" % (ca["dim"], cb["dim"]), i))
                    # an (apparently) empty operand of another dimension is accepted silently and must change nothing
                    check_state(a, o, i)
                else:
                    want = exp_n[a] + nb
                    if o["n"] != want and o["n"] == exp_n[a] and nb > 0 and lb is not None and lb["r"] == 0:
                        bad.append(("merge-loses-n-of-emptied-operand",
                                    "other has n=%d but num_retained=0 (is_empty()): merge returned early, get_n=%d expected=%d" % (nb, o["n"], want), i))
                        lossy.add(a)
                    else:
                        exp_n[a] = want
                        inputs[a] = inputs[a].merged(inputs[b])
                        if b in lossy:
                            lossy.add(a)
                    check_state(a, o, i)
                last[a] = o
                if op == "mergemv":
                    for dct in (cfg, exp_n, inputs, last):
                        dct.pop(b, None)
                    lossy.discard(b)
                continue
            if op == "copy":
                a, b = int(w[1]), int(w[2])
                if a not in cfg:
                    continue
                o = parse_S(out)
                if o is None:
                    bad.append(("bad-observation", out[:80], i))
                    continue
                cfg[b] = dict(cfg[a]); exp_n[b] = exp_n[a]; inputs[b] = inputs[a].copy()
                if a in lossy:
                    lossy.add(b)
                else:
                    lossy.discard(b)
                la = last.get(a)
                if la is not None and any(o[f] != la[f] for f in ("n", "r", "em", "emp", "L", "sz", "it", "pf")):
                    bad.append(("copy-differs", out[:80], i))
                check_state(b, o, i)
                last[b] = o
                continue
            if op == "q":
                sid = int(w[1])
                if sid not in cfg:
                    continue
                c = cfg[sid]
                ls = last.get(sid)
                q = tuple(unhex(c["ty"], x) for x in w[2:])
                if out == "throw":
                    if ls is not None and ls["r"] > 0 and len(q) == c["dim"]:
                        bad.append(("valid-query-refused", "retained=%d" % ls["r"], i))
                    continue
                if not out.startswith("E "):
                    bad.append(("bad-observation", out[:80], i))
                    continue
                if ls is not None and ls["n"] == 0:
                    bad.append(("query-allowed-with-n=0", out[:40], i))
                if len(q) != c["dim"]:
                    bad.append(("query-wrong-dim-not-refused", "dim=%d query has %d coordinates, get_estimate returned %s" % (c["dim"], len(q), out[2:]), i))
                    continue
                tok = out.split()[1]
                if tok == "nan":
                    bad.append(("estimate-negative-or-not-finite", "NaN", i))
                    continue
                e = unhex(c["ty"], tok)
                self._count("estimates_checked_nonneg_finite")
                if e < 0.0 and ls is not None and ls["L"] is not None and ls["L"] >= 32:
                    bad.append(("estimate-negative-level31-weight-overflow",
                                "estimate=%r with %d levels: get_estimate weights level 31 by (int)(1 << 31) = -2^31" % (e, ls["L"]), i))
                    continue
                if math.isinf(e) or e < 0.0:
                    bad.append(("estimate-negative-or-not-finite", repr(e), i))
                    continue
                il = inputs[sid].lst
                # "before the first (lossy) compaction" = one level and nothing dropped (with the repaired compact() a sketch can be back
                # at one level after a compaction that kept nothing; on the pinned shape one level implies retained == n)
                if ls is not None and ls["L"] == 1 and ls["r"] == ls["n"] and sid not in lossy and il and len(il) == ls["n"]:
                    vals = [kernel_value(c["ty"], c["ker"], p, q) for p in il]
                    n = len(vals)
                    self._count("exact_mode_mean_checks")
                    mean = sum(Fraction(v) for v in vals) / n
                    tol = Fraction(4 * (n + 2) * EPS[c["ty"]]) * mean + n * Fraction(TINY[c["ty"]])
                    if abs(Fraction(e) - mean) > tol:
                        bad.append(("exact-mode-estimate-ne-kernel-mean", "estimate=%r exact mean=%r n=%d" % (e, float(mean), n), i))
                continue
            if op == "dump":
                sid = int(w[1])
                if sid not in cfg or not out.startswith("D"):
                    continue
                c = cfg[sid]
                ls = last.get(sid)
                toks = [t for t in out.split()[1:] if t != "-"]
                pts = []
                for t in toks:
                    wt, cs = t.split(":", 1)
                    pts.append((int(wt), tuple(unhex(c["ty"], x) for x in cs.split(",")) if cs != "-" else ()))
                self._count("dumps_checked_against_inputs")
                if ls is not None and len(pts) != ls["r"]:
                    bad.append(("retained-ne-iterated", "get_num_retained=%d dumped=%d" % (ls["r"], len(pts)), i))
                if sid not in lossy:
                    used = {}
                    for wt, p in pts:
                        key = C20.Inputs.key(p)
                        used[key] = used.get(key, 0) + 1
                        if used[key] > inputs[sid].pool.get(key, 0):
                            bad.append(("retained-point-not-an-input", "point %s weight %d" % (list(p), wt), i))
                            break
                    il = inputs[sid].lst
                    if ls is not None and ls["L"] == 1 and ls["r"] == ls["n"] and il is not None:
                        if [C20.Inputs.key(p) for _, p in pts] != [C20.Inputs.key(p) for p in il]:
                            bad.append(("exact-mode-points-ne-inputs", "retained=%d inputs=%d" % (len(pts), len(il)), i))
                continue
        return bad

    def nontrivial_key(self, hist, impl_out):
        if not impl_out:
            return None
        news = [l.split() for l in hist if l.startswith("new ")]
        if not news:
            return None
        comp = False
        merged = False
        fin = {}
        for l, o in zip(hist, impl_out):
            w = l.split()
            if w[0] in ("upd", "merge", "mergemv"):
                d = parse_S(o)
                if d:
                    fin[w[1]] = (d["n"], d["r"], tuple(d["sz"] or ()))
                    if d["em"]:
                        comp = True
                    if w[0] != "upd" and d["n"] > 1:
                        merged = True
        if not (comp or merged):
            return None
        return tuple(tuple(w[2:6]) for w in news[:3]) + tuple(sorted(fin.items()))


SPEC = C20()

CLAIM = dict(
    text=("Kernel-checked theorems over ALL point streams, k, dimensions, merge trees and kept-subset choices of an executable Lean model of "
          "density_sketch: the compaction loop terminates for every choice (measure proof); num_retained = iterated points = sum of level sizes with "
          "weights 2^level; num_retained <= k*levels after every operation; wrong-dimension updates/merges refused; n exact for every history without an "
          "emptied merge operand; in exact arithmetic the estimate is the exact kernel mean while one level exists and is >= 0 for a non-negative kernel "
          "while there are <= 31 levels; every theorem holds for both shapes of compact() (pinned / repaired: empty levels dropped from the top "
          "after compact_level, flag density_COMPACT_POPS_EMPTY_TOP), and for the repaired shape the top level of a sketch with more than one "
          "level is never empty (the WF hypothesis of the wire round trip, C09). The model (with the code's own random-bit/shuffle/discrepancy-sign choice, in Float and Float32) is tied "
          "bit-exactly to the real headers on generated histories, and the property statement is checked on every implementation trace. Three statements "
          "are FALSE of the current code and kept as *_full_false with witnesses replayed every run (open known findings, proposed_fixes/C20-*.patch): "
          "merge drops n of an operand whose compaction kept nothing; get_estimate does not check the query dimension; get_estimate weights level 31 "
          "by (int)(1<<31) (negative estimates at n ~ k*2^31, undefined behaviour beyond)."),
    note=("Float rounding is not modelled in the theorems (Rat instance); counters are unbounded naturals; the tie is differential (sampled). "
          "A change of which subset compact_level keeps (e.g. no shuffle) preserves the property but breaks the bit-exact concrete correspondence and is "
          "reported as `no-failing-input-found`; the same holds for a change of the estimate in estimation mode that stays finite and non-negative. "
          "Self-merge (use-after-free) and non-finite coordinates are outside the check."),
    technique="Lean 4 invariant + measure proofs over histories and all choice functions; differential correspondence with supplied randomness; trace oracle",
    design="DESIGN.md §3 C20")

"""C12 — Frequent-items bounds always bracket the true frequency (DESIGN.md 3 C12)."""
import struct
from fractions import Fraction
from .. import core
from ..runner import Spec, Part

M64 = 2**64 - 1
C1, C2 = 0xff51afd7ed558ccd, 0xc4ceb9fe1a85ec53
C1I, C2I = pow(C1, -1, 2**64), pow(C2, -1, 2**64)


def fmix64(k):
    k ^= k >> 33; k = (k * C1) & M64; k ^= k >> 33; k = (k * C2) & M64; k ^= k >> 33
    return k


def fmix64_inv(h):
    h ^= h >> 33; h = (h * C2I) & M64; h ^= h >> 33; h = (h * C1I) & M64; h ^= h >> 33
    return h


def f64hex(x):
    return "%016x" % struct.unpack("<Q", struct.pack("<d", float(x)))[0]


def hexf64(s):
    return struct.unpack("<d", struct.pack("<Q", int(s, 16)))[0]


class W:
    """weight formats of the three sketch instantiations"""

    def __init__(self, ty):
        self.ty = ty

    def lit(self, v):
        """literal of a real value (generator)"""
        return f64hex(v) if self.ty == "f64" else str(int(v))

    def fmt(self, u):
        """literal of a value in oracle units (see `val`)"""
        return f64hex(float(Fraction(u) / 4)) if self.ty == "f64" else str(int(u))

    def parse(self, s):
        """-> exact value, or None when the code must reject it (negative / NaN / inf).
        Values are Python ints (uint64/int64) or quarter-unit ints (double: weights are multiples of 0.5, so every
        quantity the sketch reports is an integer number of quarters; anything else becomes an exact Fraction)."""
        if self.ty == "f64":
            x = hexf64(s)
            if x != x or x in (float("inf"), float("-inf")) or x < 0:
                return None
            return self.val(s)
        v = int(s)
        return None if v < 0 else v

    def val(self, s):
        if self.ty == "f64":
            x = hexf64(s) * 4.0
            if x != x or x in (float("inf"), float("-inf")):
                return Fraction(0)
            return int(x) if x == int(x) and abs(x) < 2.0**62 else Fraction(hexf64(s)) * 4
        return int(s)

    def show(self, v):
        return str(Fraction(v) / 4) if self.ty == "f64" else str(v)


def cap_of(lg):
    return (2 ** lg * 3) // 4


# ----------------------------------------------------------------------------------------------- generator

def gen_history(rng, tier, ity, big=False):
    """One history over 1-4 live sketches of one (weight type, item type)."""
    wty = rng.choice(["u64", "u64", "f64", "i64"])
    w = W(wty)
    lgs = [3, 3, 4, 4, 5, 6] if tier == "quick" else [3, 4, 5, 6, 7, 8]
    h = []
    nsk = rng.choice([1, 2, 2, 3, 4])
    lgmax = {}
    same = rng.random() < 0.6
    lg0 = rng.choice(lgs)
    for s in range(nsk):
        lm = lg0 if same else rng.choice(lgs)
        if big:
            lm = 11
        ls = rng.choice([3, lm, rng.randrange(3, lm + 1)])
        if rng.random() < 0.05:
            lm, ls = rng.choice([(2, 1), (0, 0), (3, 2), (2, 2)])
        h.append("new %d %s %s %d %d" % (s, wty, ity, lm, ls))
        lgmax[s] = max(lm, 3)
    if rng.random() < 0.03:
        h.append("new 9 %s %s 3 4" % (wty, ity))          # start > max: must throw
    maxcap = max(cap_of(l) for l in lgmax.values())
    # item universe
    nuni = rng.choice([maxcap // 2 + 1, maxcap + 1, maxcap + 3, 2 * maxcap, 3 * maxcap])
    nuni = max(4, min(nuni, 160 if not big else 4000))
    if ity == "int":
        style = rng.choice(["small", "rand64", "cluster", "wrap", "small"])
        items = []
        seen = set()
        while len(items) < nuni:
            if style == "small":
                k = len(items) + 1
            elif style == "rand64":
                k = rng.randrange(2**64)
            elif style == "cluster":       # all keys hash to a handful of positions (long probe chains, deep back-shifts)
                k = fmix64_inv((rng.randrange(2**50) << 12) | rng.choice([5, 6, 7]))
            else:                           # clusters that wrap around the end of every table size in play
                k = fmix64_inv((rng.randrange(2**50) << 12) | rng.choice([0xfff, 0xffe, 0xffd, 0x000, 0x001, 0xff7, 0x7ff]))
            if k not in seen:
                seen.add(k); items.append(str(k))
    else:
        items = ["s%d_%s" % (i, "x" * (i % 4)) for i in range(nuni)]
    strangers = ([str(2**64 - 1 - i) for i in range(2)] if ity == "int" else ["never_seen", "z"])

    def rw(kind):
        if kind == "one":
            v = 1
        elif kind == "small":
            v = rng.randrange(1, 6)
        elif kind == "heavy":
            v = 2 ** rng.randrange(0, 12) if rng.random() < 0.3 else rng.randrange(1, 4)
        elif kind == "big":       # totals stay exact: < 2^53 quarter units in double, < 2^64 in uint64 (merges at most double them 12 times)
            v = rng.randrange(1, 2**26 if wty == "f64" else 2**40)
        else:
            v = rng.randrange(0, 4)
        if wty == "f64":
            return f64hex(v / 2.0 if rng.random() < 0.5 else float(v))
        return str(v)

    nops = rng.choice([20, 60, 120, 250]) if tier == "quick" else rng.choice([40, 150, 400, 800])
    if big:
        nops = 5200
    order = rng.choice(["uniform", "skewed", "distinct-ones", "heavy-first", "heavy-late", "ascending", "mixed"])
    wkind = {"uniform": "small", "skewed": "heavy", "distinct-ones": "one", "heavy-first": "small", "heavy-late": "small",
             "ascending": "small", "mixed": rng.choice(["small", "heavy", "big", "zeroish"])}[order]
    live = list(range(nsk))
    nxt = nsk
    qevery = (rng.choice([1, 3, 7, 1000]) if nops < 300 else rng.choice([10, 40, 1000])) if not big else 1000
    zipf = [1.0 / (i + 1) ** 1.2 for i in range(len(items))]
    cursor = 0
    heavy = rng.sample(items, min(3, len(items)))
    nmerge = [0]

    def qlines(s):
        ql = []
        sub = items if len(items) <= 200 else rng.sample(items, 150) + heavy
        ql.append("q %d %s" % (s, " ".join(sub + strangers)))
        if rng.random() < 0.4:
            for et in ("nfn", "nfp"):
                for t in ("t0", "thalf", "toff", "t2off", "tdef"):
                    if rng.random() < 0.5:
                        ql.append("fi %d %s %s" % (s, et, t))
            if rng.random() < 0.3:
                ql.append("fi %d %s %s" % (s, rng.choice(["nfn", "nfp"]), rw("small")))
        return ql

    for j in range(nops):
        r = rng.random()
        s = rng.choice(live)
        if r < (0.88 if not big else 0.999):
            if order == "uniform" or order == "mixed":
                it = rng.choice(items)
            elif order == "skewed":
                it = rng.choices(items, zipf)[0]
            elif order == "distinct-ones":
                it = items[cursor % len(items)]; cursor += 1
            elif order == "heavy-first":
                it = rng.choice(heavy) if j < nops // 4 else items[cursor % len(items)]; cursor += 1
            elif order == "heavy-late":
                it = rng.choice(heavy) if j > (3 * nops) // 4 else items[cursor % len(items)]; cursor += 1
            else:
                it = items[cursor % len(items)]; cursor += 1
            wt = rw(wkind)
            if order == "ascending":
                wt = w.lit(1 + j // 3)
            if order in ("heavy-first", "heavy-late") and it in heavy:
                wt = w.lit(rng.randrange(5, 50))
            if rng.random() < 0.04:
                wt = w.lit(0)
            if rng.random() < 0.02 and wty != "u64":
                wt = rng.choice(["-1", "-5"]) if wty == "i64" else rng.choice(["bff0000000000000", "7ff8000000000000", "7ff0000000000000"])
            h.append("%s %d %s %s" % ("updmv" if rng.random() < 0.25 else "upd", s, it, wt))
        elif r < 0.95 and len(live) > 1 and nmerge[0] < 9:
            nmerge[0] += 1
            d = rng.choice(live)
            src = rng.choice(live) if rng.random() < 0.1 else rng.choice([x for x in live if x != d])
            h.append("%s %d %d" % ("mergemv" if rng.random() < 0.3 else "merge", d, src))
            h += qlines(d)
        elif r < 0.98 and nxt < 9:
            h.append("ser %d %d %s" % (s, nxt, rng.choice(["bytes", "stream"])))
            h += qlines(nxt)
            live.append(nxt); nxt += 1
        elif r < 0.99 and len(live) > 1:
            # ASSIGN one live sketch into another (same types; the harness alternates copy / move assignment): the target's former
            # content must be gone entirely - tables of equal size are the interesting case - then both go on
            d = rng.choice([x for x in live if x != s])
            h.append("copy %d %d" % (s, d))
            h += qlines(d)
        elif r < 0.993:
            h.append("apriori %d %d" % (rng.randrange(3, 25), rng.randrange(0, 2**45)))
        else:
            h += qlines(s)
        if (j + 1) % qevery == 0:
            h += qlines(s)
    # closing: merge everything into sketch 0 (a merge tree), round trip, query all
    if len(live) > 1 and rng.random() < 0.7:
        for s in live[1:]:
            h.append("merge %d %d" % (live[0], s))
            h += qlines(live[0])
    if rng.random() < 0.5 and nxt < 12:
        h.append("ser %d %d %s" % (live[0], nxt, rng.choice(["bytes", "stream"])))
        h += qlines(nxt)
    for s in live[:2]:
        h += qlines(s)
    return h


def canon_op(w):
    """rvalue overloads are the same operation for oracle and hints"""
    return {"updmv": "upd", "mergemv": "merge"}.get(w[0], w[0]) if w else ""


def strip_hint(line):
    w = line.split()
    if canon_op(w) == "upd":
        return " ".join(w[:4])
    if canon_op(w) == "merge":
        return " ".join(w[:3])
    return line


def annotate(hist, impl_out, stop_at_opaque_merge=False):
    """Append to every `upd`/`merge` line the offset delta observed on the real code (the implementation's free
    choice of purge amounts, DESIGN 2.2 'free choices'); the harness ignores the extra token.
    With stop_at_opaque_merge the history is cut before the first merge that purged (L1 cannot know the replay order)."""
    off, wt, nact, tot = {}, {}, {}, {}
    res = []
    for i, l in enumerate(hist):
        l = strip_hint(l)
        if i >= len(impl_out):
            res.append(l); continue
        w = l.split()
        o = impl_out[i].split()
        if w[0] == "new" and o and o[0] == "S":
            sid = int(w[1]); wt[sid] = W(w[2]); off[sid] = 0; nact[sid] = 0; tot[sid] = 0
        elif canon_op(w) in ("upd", "merge") and o and o[0] == "S" and int(w[1]) in wt:
            sid = int(w[1]); ww = wt[sid]
            new = ww.val(o[2])
            d = new - off[sid]
            if canon_op(w) == "merge" and stop_at_opaque_merge:
                src = int(w[2])
                if src in off and nact.get(src, 0) > 0 and d != off[src]:
                    break
            if d > 0:
                l = l + " " + ww.fmt(d)
                if canon_op(w) == "merge":
                    # the individual purge amounts inside a merge are not observable: also pass num_active and, when the
                    # next line queries every active item, the sum of all lower bounds (model: sum of its counters)
                    l += " " + o[3]
                    if i + 1 < len(hist) and i + 1 < len(impl_out):
                        nw, no = hist[i + 1].split(), impl_out[i + 1].split()
                        if nw[:2] == ["q", w[1]] and no and no[0] == "Q" and len(no) == len(nw) + 3:
                            lbs = [ww.val(c.split(":")[1]) for c in no[5:]]
                            if sum(1 for x in lbs if x > 0) == int(o[3]):
                                l += " " + ww.fmt(sum(lbs))
            off[sid] = new; nact[sid] = int(o[3]); tot[sid] = ww.val(o[1])
        elif w[0] in ("ser", "copy") and o and o[0] == "S" and int(w[1]) in wt:
            nid = int(w[2]); wt[nid] = wt[int(w[1])]
            off[nid] = wt[nid].val(o[2]); nact[nid] = int(o[3]); tot[nid] = wt[nid].val(o[1])
        res.append(l)
    return res


def with_hints(hists, stop_at_opaque_merge=False):
    ok, exe, _ = core.compile_harness("fi_h")
    if not ok:
        return hists

    def one(h):
        io, ioc, _ = core.run_impl(exe, h, timeout=120)
        return annotate(h, io, stop_at_opaque_merge)
    return core.pmap(one, hists)


# ----------------------------------------------------------------------------------------------- oracle

def oracle(hist, impl_out):
    """The property statement itself on one implementation trace; true weights are exact counts from the history."""
    bad = []
    sk = {}          # id -> dict(w=W, truth={item: Fraction}, N=Fraction, lgmax, eps_ok, last=(total, offset, nact))

    def chk_eps(i, s, total, offset, eps):
        if s["eps_ok"] and s["lgmax"] <= 10 and offset > eps * total:
            sh = s["w"].show
            bad.append(("max-error-exceeds-epsilon", "offset=%s total=%s eps=%s" % (sh(offset), sh(total), float(eps)), i))

    def parseS(s, o):
        ww = s["w"]
        return ww.val(o[1]), ww.val(o[2]), int(o[3]), o[4] == "1", Fraction(hexf64(o[5]))

    cur = [W("u64")]

    def sh(v):
        return cur[0].show(v)

    for i, l in enumerate(hist):
        if i >= len(impl_out):
            break
        w = l.split()
        out = impl_out[i]
        o = out.split()
        op = canon_op(w)
        if op != "new" and op != "apriori" and len(w) > 1 and w[1].isdigit() and int(w[1]) in sk:
            cur[0] = sk[int(w[1])]["w"]
        if op == "new":
            if out.strip() == "throw":
                if int(w[5]) <= int(w[4]):
                    bad.append(("unexpected-throw", l, i))
                continue
            if not o or o[0] != "S":
                bad.append(("bad-observation", out[:80], i)); continue
            s = dict(w=W(w[2]), truth={}, N=0, lgmax=max(int(w[4]), 3), eps_ok=True)
            sk[int(w[1])] = s
            s["last"] = parseS(s, o)[:3]
            if s["last"] != (0, 0, 0):
                bad.append(("new-sketch-not-empty", out[:80], i))
            continue
        if op == "apriori":
            continue
        sid = int(w[1])
        if sid not in sk and op != "ser":
            continue
        if op == "upd":
            s = sk[sid]
            wt = s["w"].parse(w[3])
            if out.strip() == "throw":
                if wt is not None:
                    if s["lgmax"] >= 11:
                        # a probe distance >= DRIFT_LIMIT (1024) needs a table of >= 2048 slots: internal_adjust_or_insert threw
                        # after update() had already added the weight to total_weight
                        bad.append(("update-throws-at-drift-limit",
                                    "update(item, valid weight) threw in a sketch with lg_max_map_size=%d (probe distance >= DRIFT_LIMIT); "
                                    "total_weight keeps the rejected weight" % s["lgmax"], i))
                        s["N"] += wt
                    else:
                        bad.append(("unexpected-throw", l, i))
                continue
            if wt is None:
                bad.append(("invalid-weight-accepted", l, i)); continue
            if not o or o[0] != "S":
                bad.append(("bad-observation", out[:80], i)); continue
            if wt > 0:
                s["truth"][w[2]] = s["truth"].get(w[2], 0) + wt
                s["N"] += wt
            total, offset, nact, empty, eps = parseS(s, o)
            if total != s["N"]:
                bad.append(("total-weight-not-exact", "reported=%s true=%s" % (sh(total), sh(s["N"])), i))
                s["N"] = total
            if offset < s["last"][1]:
                bad.append(("max-error-decreased", "%s -> %s" % (sh(s["last"][1]), sh(offset)), i))
            chk_eps(i, s, total, offset, eps)
            s["last"] = (total, offset, nact)
        elif op == "merge":
            src = int(w[2])
            if src not in sk:
                continue
            s, t = sk[sid], sk[src]
            if out.strip() == "throw" and s["lgmax"] >= 11:
                bad.append(("update-throws-at-drift-limit", "merge threw half way in a sketch with lg_max_map_size=%d "
                            "(probe distance >= DRIFT_LIMIT); the target keeps a partial merge" % s["lgmax"], i))
                del sk[sid]          # its true content is no longer defined
                continue
            if not o or o[0] != "S":
                bad.append(("bad-observation", out[:80], i)); continue
            total, offset, nact, empty, eps = parseS(s, o)
            before = (dict(s["truth"]), s["N"])
            tt = dict(t["truth"]); tN = t["N"]
            for k, v in tt.items():
                s["truth"][k] = s["truth"].get(k, 0) + v
            s["N"] += tN
            if t["lgmax"] < s["lgmax"] or not t["eps_ok"]:
                s["eps_ok"] = False
            if total != s["N"]:
                if t["last"][2] == 0 and t["last"][0] != 0 and total == before[1]:
                    # operand has no active item but a non-zero total weight / offset: the code returns early
                    bad.append(("merge-ignores-fully-purged-operand",
                                "merge(other) with other.num_active=0, other.total=%s, other.max_error=%s left total=%s (true %s)"
                                % (sh(t["last"][0]), sh(t["last"][1]), sh(total), sh(s["N"])), i))
                    s["truth"], s["N"] = before      # continue relative to what the sketch has really seen
                else:
                    bad.append(("total-weight-not-exact", "after merge reported=%s true=%s" % (sh(total), sh(s["N"])), i))
                    s["N"] = total
            chk_eps(i, s, total, offset, eps)
            s["last"] = (total, offset, nact)
        elif op == "copy":
            # copy construction / assignment into a live sketch: the target IS the source afterwards, whatever it held before
            if sid not in sk:
                continue
            t = sk[sid]
            if not o or o[0] != "S":
                bad.append(("bad-observation", out[:80], i)); continue
            s = dict(w=t["w"], truth=dict(t["truth"]), N=t["N"], lgmax=t["lgmax"], eps_ok=t["eps_ok"])
            sk[int(w[2])] = s
            total, offset, nact, empty, eps = parseS(s, o)
            if (total, offset, nact) != t["last"]:
                bad.append(("copy-changes-state", "source=%s copy=%s" % ((sh(t["last"][0]), sh(t["last"][1]), t["last"][2]), (sh(total), sh(offset), nact)), i))
                s["N"] = total
            s["last"] = (total, offset, nact)
        elif op == "ser":
            if sid not in sk:
                continue
            t = sk[sid]
            if out.strip() == "throw" and t["lgmax"] >= 11:
                bad.append(("update-throws-at-drift-limit", "deserialize threw re-inserting the items of a sketch with "
                            "lg_max_map_size=%d (probe distance >= DRIFT_LIMIT)" % t["lgmax"], i))
                sk.pop(int(w[2]), None)
                continue
            if not o or o[0] != "S":
                bad.append(("bad-observation", out[:80], i)); continue
            s = dict(w=t["w"], truth=dict(t["truth"]), N=t["N"], lgmax=t["lgmax"], eps_ok=t["eps_ok"])
            sk[int(w[2])] = s
            total, offset, nact, empty, eps = parseS(s, o)
            if (total, offset, nact) != t["last"]:
                if t["last"][2] == 0 and t["last"][0] != 0 and (total, offset, nact) == (0, 0, 0):
                    bad.append(("roundtrip-drops-fully-purged-sketch",
                                "serialize/deserialize of a sketch with num_active=0, total=%s, max_error=%s gives total=0 max_error=0"
                                % (sh(t["last"][0]), sh(t["last"][1])), i))
                    s["truth"], s["N"] = {}, 0
                else:
                    bad.append(("roundtrip-changes-state", "before=%s after=%s" % ((sh(t["last"][0]), sh(t["last"][1]), t["last"][2]), (sh(total), sh(offset), nact)), i))
                    s["N"] = total
            s["last"] = (total, offset, nact)
        elif op == "q":
            s = sk[sid]
            if not o or o[0] != "Q":
                bad.append(("bad-observation", out[:80], i)); continue
            ww = s["w"]
            total, offset, nact = ww.val(o[1]), ww.val(o[2]), int(o[3])
            cells = o[5:]
            if len(cells) != len(w) - 2:
                bad.append(("bad-observation", out[:80], i)); continue
            if total != s["N"]:
                bad.append(("total-weight-not-exact", "reported=%s true=%s" % (sh(total), sh(s["N"])), i))
            for it, c in zip(w[2:], cells):
                est, lb, ub = [ww.val(x) for x in c.split(":")]
                f = s["truth"].get(it, 0)
                if lb > f:
                    bad.append(("lb-above-true-weight", "item=%s lb=%s true=%s" % (it, sh(lb), sh(f)), i))
                if ub < f:
                    bad.append(("ub-below-true-weight", "item=%s ub=%s true=%s offset=%s" % (it, sh(ub), sh(f), sh(offset)), i))
                if not (lb <= est <= ub):
                    bad.append(("estimate-outside-bounds", "item=%s est=%s lb=%s ub=%s" % (it, sh(est), sh(lb), sh(ub)), i))
                if ub - lb != offset:
                    bad.append(("ub-minus-lb-not-maximum-error", "item=%s ub=%s lb=%s max_error=%s" % (it, sh(ub), sh(lb), sh(offset)), i))
                if lb == 0 and est != 0:
                    bad.append(("untracked-estimate-nonzero", "item=%s est=%s" % (it, sh(est)), i))
            s["last"] = (total, offset, nact)
        elif op == "fi":
            s = sk[sid]
            if not o or o[0] != "F":
                bad.append(("bad-observation", out[:80], i)); continue
            ww = s["w"]
            parts = out.split("|")
            if len(parts) != 3:
                bad.append(("bad-observation", out[:80], i)); continue
            thr, n = ww.val(o[1]), int(o[2])
            seq = [ww.val(x) for x in parts[1].split()]
            rows = []
            for c in parts[2].split():
                it, est, lb, ub = c.rsplit(":", 3)
                rows.append((it, ww.val(est), ww.val(lb), ww.val(ub)))
            offset = s["last"][1]
            if len(seq) != n or sorted(seq) != sorted(r[1] for r in rows):
                bad.append(("bad-observation", out[:80], i)); continue
            if any(seq[j] < seq[j + 1] for j in range(len(seq) - 1)):
                bad.append(("frequent-items-not-in-descending-estimate-order", " ".join(map(sh, seq))[:120], i))
            got = set(r[0] for r in rows)
            if len(got) != len(rows):
                bad.append(("frequent-items-duplicate-row", out[:80], i))
            if w[2] == "nfn":
                miss = [(k, v) for k, v in s["truth"].items() if v > thr and k not in got]
                if miss:
                    key = "nfn-threshold-below-max-error" if thr < offset else "nfn-omits-item-above-threshold"
                    bad.append((key, "NO_FALSE_NEGATIVES threshold=%s max_error=%s omits item %s of true weight %s"
                                % (sh(thr), sh(offset), miss[0][0], sh(miss[0][1])), i))
            else:
                extra = [(r[0], s["truth"].get(r[0], 0)) for r in rows if not s["truth"].get(r[0], 0) > thr]
                if extra:
                    bad.append(("nfp-includes-item-not-above-threshold", "NO_FALSE_POSITIVES threshold=%s returns item %s of true weight %s"
                                % (sh(thr), extra[0][0], sh(extra[0][1])), i))
            for it, est, lb, ub in rows:
                f = s["truth"].get(it, 0)
                if not (lb <= f <= ub) or not (lb <= est <= ub) or ub - lb != offset:
                    bad.append(("frequent-items-row-bounds", "item=%s est=%s lb=%s ub=%s true=%s max_error=%s" % (it, sh(est), sh(lb), sh(ub), sh(f), sh(offset)), i))
    return bad


def nontrivial(hist, impl_out):
    """non-trivial = some sketch purged (max error > 0); signature = configuration + final (total, offset, nact) per sketch"""
    news = tuple(tuple(l.split()[2:6]) for l in hist if l.startswith("new "))
    fin = {}
    purged = False
    for l, o in zip(hist, impl_out):
        w, ow = l.split(), o.split()
        if ow and ow[0] == "S" and canon_op(w) in ("new", "upd", "merge"):
            fin[w[1]] = tuple(ow[1:4])
            if ow[2] not in ("0", "0000000000000000"):
                purged = True
    if not purged:
        return None
    return news + tuple(sorted(fin.items()))


class FiPart(Part):
    harness = "fi_h"
    model_exe = "dsmodel_fi"
    family = "fi"
    timeout = 300

    def oracle(self, hist, impl_out):
        return oracle(hist, impl_out)

    def nontrivial_key(self, hist, impl_out):
        return nontrivial(hist, impl_out)


class IntPart(FiPart):
    """integer items + identity hash functor: L2 resolves every free choice, L1 observations compared everywhere"""
    name = "main"

    def generate(self, rng, tier):
        n = 140 if tier == "quick" else 1500
        hs = [gen_history(rng, tier, "int") for _ in range(n)]
        if tier != "quick":
            hs += [gen_history(rng, tier, "int", big=True) for _ in range(4)]
        return with_hints(hs)


class StrPart(FiPart):
    """string items + default hash: L1 only, purge amount of every update read from the observed offset delta;
    cut before the first merge that purged (replay order of the other table is unknown at L1)"""
    name = "str"

    def generate(self, rng, tier):
        n = 60 if tier == "quick" else 600
        return with_hints([gen_history(rng, tier, "str") for _ in range(n)], stop_at_opaque_merge=True)


class StrOraclePart(FiPart):
    """string items, full histories incl. merges that purge: property oracle only"""
    name = "str-oracle"
    compare_model = False

    def generate(self, rng, tier):
        n = 40 if tier == "quick" else 400
        return [gen_history(rng, tier, "str") for _ in range(n)]


class C12(Spec):
    pid = "C12"
    props_modules = ["DSProofs.Props.C12", "DSProofs.Props.C12Gen", "DSProofs.Props.C12_Repaired"]
    harness = "fi_h"
    model_exe = "dsmodel_fi"
    family = "fi"
    tfamilies = ["fi"]
    rule = ("histories over 1-4 live frequent_items_sketch objects of one instantiation (uint64/int64/double weights; uint64 items with an "
            "explicit identity hash functor, or std::string items with the default hash), lg_max 3-6 quick / 3-8 (+11) thorough, start "
            "sizes 3..lg_max, stream orders uniform/skewed/distinct-ones/heavy-first/heavy-late/ascending/mixed incl. zero and invalid "
            "weights, colliding and table-end-wrapping keys, merges (incl. self merge, different lg_max), serialize->deserialize; a "
            "history is non-trivial when some sketch purged (maximum error > 0); distinct = distinct (configurations, final "
            "(total, max error, num active) per sketch) signature")
    trusted_base = ["Lean 4.33 kernel", "axioms: propext, Quot.sound, Classical.choice",
                    "tools/trules/fi.py (LOAD_FACTOR, MAX_SAMPLE_SIZE, EPSILON_FACTOR, LG_MIN_MAP_SIZE, GOLDEN_RATIO_RECIPROCAL from the headers)",
                    "correspondence harness harness/fi_h.cpp + generators (sampled histories; public-API observations; ASan+UBSan)",
                    "L2 table model (DSModel/Fi/Table.lean) is tied to the code by correspondence only; it resolves L1's free choices",
                    "DSModel/Murmur3.lean fmix64 = the code's fmix64 (tied by the correspondence of probe positions)"]
    assumptions = ["theorems are about DSModel/Fi/Abstract.lean over natural-number weights (double weights: exact dyadic arithmetic, "
                   "floating-point rounding and uint64 wrap-around are not modelled)",
                   "the DRIFT_LIMIT exception of reverse_purge_hash_map (probe distance >= 1024, tables >= 2048 slots) is outside the L1 model "
                   "and the theorems (open known finding update-throws-at-drift-limit; the L2 model reproduces it for insertions, not inside hash_delete/resize)",
                   "fi_epsilon assumes every purge amount <= the median of ALL counters: true of the code when capacity+1 <= MAX_SAMPLE_SIZE (lg_max <= 10)"]

    def parts(self):
        return [IntPart(), StrPart(), StrOraclePart()]


SPEC = C12()

CLAIM = dict(
    text=("Kernel-checked theorems over ALL weighted streams, map sizes (lg_max >= 3), merge trees, round trips and ALL choices of the "
          "purge amount, about an executable Lean model of frequent_items_sketch: for every item (tracked or not) lower bound <= true "
          "weight <= upper bound, lb <= estimate <= ub, ub - lb = maximum error, total weight exact; NO_FALSE_POSITIVES returns only "
          "items above the threshold (all thresholds), NO_FALSE_NEGATIVES all such items when threshold >= maximum error, rows in "
          "descending estimate order; maximum error <= EPSILON_FACTOR/2^lg_max * total when purge amounts are at most the true median "
          "(side condition EPSILON_FACTOR*LOAD_FACTOR >= 2 discharged on the generated constants); num_active <= capacity always "
          "(the code's internal logic_errors are unreachable). "
          "The model is tied to the real headers differentially (L1 observations for every item of the universe; free choices resolved "
          "by an L2 model of reverse_purge_hash_map) and the property oracle (exact counts) runs on every implementation trace."),
    note=("Found by this check and repaired in /repo (fix: b11a99c, with 993b0e0 for the zero-length memcpy it exposed; known_findings.json: "
          "fixed): merge() and serialize() treated a fully purged sketch (no active item, non-zero total weight and maximum error) as empty "
          "and dropped its total weight and error - the translator reads the shape of is_empty() from the header, the executed model follows "
          "(mergeF/roundtripF) and Props/C12_Repaired.lean proves bracketing + exact total for ALL histories of the repaired shape "
          "(fi_bracket_all_histories), while Props/C12.lean keeps the pinned-code witnesses. OPEN known findings (proved false of the code, "
          "witnesses replayed every run): NO_FALSE_NEGATIVES with threshold < maximum error omits purged items (inherent to the algorithm; the "
          "property's 'all thresholds' cannot be met without changing semantics); update() throws at DRIFT_LIMIT (>= 1023 colliding keys in a "
          "table of >= 2048 slots) after adding the weight to total_weight (outside the theorems). Of the L2 refinement only "
          "fi_l2_purge_amount (sample = all counters, median order-independent) is proved; probe chains / hash_delete / scan order "
          "of the table model are tied by correspondence only. Floating-point rounding and uint64 overflow are not modelled."),
    technique="Lean 4 invariant proofs over an inductive reachability relation with universally quantified free choices + differential correspondence (L1 via L2) + trace oracle",
    design="DESIGN.md §3 C12")

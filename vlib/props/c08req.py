"""C08 (REQ part) — REQ rank estimates are unbiased over the coin flips; flips depend on shapes only (DESIGN.md 3 C08).

`PART`      whole-coin-tree enumeration of short histories (multisets of leaves, implementation vs model; unbiasedness oracle)
`PART_LONG` long histories with recorded random coin sequences fed to both sides (coin-independent observables + flip counts)
`SPEC`      runs both: `./check c08req`.
"""
from .. import core
from ..runner import Spec, Part
from . import c07req


def parse_leaf(line):
    """'L <flips> ; id:view ; id:view' -> (flips, {id: [(item, cum)]})"""
    parts = line.split(" ; ")
    flips = int(parts[0].split()[1])
    views = {}
    for p in parts[1:]:
        p = p.strip()
        if not p:
            continue
        sid, body = p.split(":", 1)
        views[int(sid)] = c07req.parse_view(body)
    return flips, views


def weight_below(view, y, inclusive):
    cum = 0
    for it, c in view:
        if (it <= y) if inclusive else (it < y):
            cum = c
        else:
            break
    return cum


def accepted_ops(hist):
    """the op lines the enumeration executes, in order (same filter as harness and model)"""
    ops = []
    for l in hist:
        w = l.split()
        if not w or w[0] == "maxflips":
            continue
        if w[0] == "upd" and w[2] == "nan":
            continue
        if w[0] in ("new", "upd", "merge", "mergemv", "copy"):
            ops.append(w)
    return ops


def truth_of(ops):
    truth, hra = {}, {}
    for w in ops:
        if w[0] == "new":
            truth[int(w[1])] = []; hra[int(w[1])] = w[3]
        elif w[0] == "upd" and int(w[1]) in truth:
            truth[int(w[1])].append(int(w[2]))
        elif w[0] in ("merge", "mergemv"):
            a, b = int(w[1]), int(w[2])
            if a in truth and b in truth and a != b and hra[a] == hra[b]:
                truth[a] = truth[a] + truth[b]
        elif w[0] == "copy" and int(w[1]) in truth:
            truth[int(w[2])] = list(truth[int(w[1])]); hra[int(w[2])] = hra[int(w[1])]
    return truth


def model_classify(hist):
    """ghost classification by the Lean model (used ONLY to name a bias finding, never to decide pass/fail):
    does the history execute an odd-state compaction whose coin derives from no draw?"""
    try:
        out, oc, err = core.run_model("dsmodel_req", "classify", hist)
        return out and "oddconst=1" in out[0]
    except Exception:
        return False


class ReqC08Enum(Part):
    name = "req"
    harness = "req_h"
    harness_args = ("enum",)
    model_exe = "dsmodel_req"
    family = "enum"
    timeout = 600

    def gen_one(self, rng, tier, maxflips):
        h = ["maxflips %d" % maxflips]
        shape = rng.choice(["single", "single", "merge", "merge", "tree", "adopt"])
        hra = rng.randrange(2)
        ks = [4, 4, 4, 6, 8]
        scale = maxflips / 5.0      # longer streams for larger coin trees (the prefix with <= maxflips coins is used)
        def ups(sid, m, lo=0, hi=60):
            m = int(m * scale)
            style = rng.choice(["random", "sorted", "reversed", "dups"])
            if style == "random":
                xs = [rng.randrange(lo, hi) for _ in range(m)]
            elif style == "sorted":
                xs = list(range(lo, lo + m))
            elif style == "reversed":
                xs = list(range(lo + m, lo, -1))
            else:
                xs = [rng.choice([lo, lo + 1, hi]) for _ in range(m)]
            return ["upd %d %d" % (sid, x) for x in xs]
        if shape == "single":
            h.append("new 0 %d %d" % (rng.choice(ks), hra))
            h += ups(0, rng.choice([30, 60, 100, 160]))
        elif shape == "merge":
            h.append("new 0 %d %d" % (rng.choice(ks), hra))
            h.append("new 1 %d %d" % (rng.choice(ks), hra))
            h += ups(0, rng.choice([10, 30, 50, 70]))
            h += ups(1, rng.choice([0, 10, 30, 50, 70]), 20, 90)
            h.append("%s 0 1" % rng.choice(["merge", "mergemv"]))
            h += ups(0, rng.choice([0, 20, 40]))
            if rng.random() < 0.4:
                h.append("merge 1 0")
                h += ups(1, rng.choice([0, 20]))
        elif shape == "adopt":
            # a fresh / barely used sketch absorbs one that has compacted, then keeps being updated
            k = rng.choice([4, 4, 6])
            h.append("new 0 %d %d" % (k, hra))
            h.append("new 1 %d %d" % (k, hra))
            h += ups(1, rng.choice([24, 25, 30, 40, 45]) if k == 4 else rng.choice([36, 40, 50]))
            h += ups(0, rng.choice([0, 1, 5]))
            h.append("merge 0 1")
            h += ups(0, rng.choice([20, 30, 50]))
        else:
            n = rng.choice([3, 4])
            for s in range(n):
                h.append("new %d %d %d" % (s, rng.choice(ks), hra))
            for s in range(n):
                h += ups(s, rng.choice([5, 20, 30, 45]), 10 * s, 10 * s + 50)
            order = list(range(1, n))
            rng.shuffle(order)
            for s in order:
                a, b = (0, s) if rng.random() < 0.7 else (s, 0)
                h.append("%s %d %d" % (rng.choice(["merge", "mergemv"]), a, b))
                if rng.random() < 0.3:
                    h.append("copy %d %d" % (a, 5))
                h += ups(a, rng.choice([0, 10, 25]))
        return h

    def generate(self, rng, tier):
        if tier == "quick":
            plan = [(8, 26), (10, 10), (12, 4)]
        else:
            plan = [(8, 100), (10, 40), (12, 12), (14, 2)]      # ~150k leaves per side (kept in memory by the runner)
        hs = []
        for mf, cnt in plan:
            for _ in range(cnt):
                hs.append(self.gen_one(rng, tier, mf))
        return hs

    def oracle(self, hist, impl_out):
        bad = []
        if not impl_out or not impl_out[0].startswith("H "):
            return [("bad-observation", (impl_out[0] if impl_out else "")[:80], 0)]
        hd = dict(x.split("=") for x in impl_out[0].split()[1:])
        nops = int(hd["ops"])
        ops = accepted_ops(hist)[:nops]
        truth = truth_of(ops)
        leaves = []
        for l in impl_out[1:]:
            if l.startswith("L overflow"):
                return [("coin-tree-overflow", "more leaves than 2^(maxflips+1)", len(hist) - 1)]
            if l.startswith("L "):
                leaves.append(parse_leaf(l))
        if not leaves:
            return [("bad-observation", "no leaves", 0)]
        fl = set(f for f, _ in leaves)
        last = len(hist) - 1
        if len(fl) != 1:
            return [("flips-depend-on-coin-values", "flip counts across leaves: %s" % sorted(fl)[:6], last)]
        F = leaves[0][0]
        if len(leaves) != 2 ** F:
            bad.append(("leaf-count-ne-2^flips", "%d leaves, %d flips" % (len(leaves), F), last))
            return bad
        for sid, t in truth.items():
            if any(sid not in v for _, v in leaves):
                bad.append(("sketch-missing-in-leaf", str(sid), last))
                continue
            ys = sorted(set(t))
            ys = ys + [ys[-1] + 1] if ys else []
            # one pass per leaf: weight below every y, both criteria (two-pointer walk over the sorted view)
            tot_inc = [0] * len(ys)
            tot_exc = [0] * len(ys)
            for _, v in leaves:
                view = v[sid]
                i = 0          # entries with item <  y consumed
                j = 0          # entries with item <= y consumed
                cum_lt = cum_le = 0
                nv = len(view)
                for k, y in enumerate(ys):
                    while i < nv and view[i][0] < y:
                        cum_lt = view[i][1]; i += 1
                    if j < i:
                        j = i; cum_le = cum_lt
                    while j < nv and view[j][0] <= y:
                        cum_le = view[j][1]; j += 1
                    tot_exc[k] += cum_lt
                    tot_inc[k] += cum_le
            st = sorted(t)
            import bisect
            for k, y in enumerate(ys):
                for inc, tot in ((True, tot_inc[k]), (False, tot_exc[k])):
                    tc = bisect.bisect_right(st, y) if inc else bisect.bisect_left(st, y)
                    if tot != (2 ** F) * tc:
                        key = "req-biased"
                        if model_classify(hist):
                            key = "req-merge-adopts-odd-state"
                        bad.append((key, "sketch %d y=%d %s: sum over %d leaves of weightBelow = %d, 2^F * true count = %d"
                                    % (sid, y, "incl" if inc else "excl", len(leaves), tot, (2 ** F) * tc), last))
                        break
                if bad:
                    break
            if bad:
                break
        return bad

    def nontrivial_key(self, hist, impl_out):
        if not impl_out or not impl_out[0].startswith("H "):
            return None
        hd = dict(x.split("=") for x in impl_out[0].split()[1:])
        if int(hd["flips0"]) < 1:
            return None
        return (hd["ops"], hd["flips0"], tuple(l for l in hist if l.startswith(("new", "merge", "copy"))), hash(tuple(hist)) & 0xffff)


class ReqC08Long(c07req.ReqC07Part):
    """long histories, recorded coins on both sides: flips consumed and every coin-independent observable equal the model's"""
    name = "req-long"
    sizes = dict(quick=(12, [600, 1500]), thorough=(24, [2000, 6000, 12000]))
    C08_KEYS = ("flips-decreased", "rank-bounds-do-not-bracket", "rank-outside-unit-interval", "unexpected-throw", "bad-observation")

    def oracle(self, hist, impl_out):
        # the C07 statements are C07's business; here only what C08 states for single leaves
        return [b for b in super().oracle(hist, impl_out) if b[0] in self.C08_KEYS]


PART = ReqC08Enum()
PART_LONG = ReqC08Long()
PARTS = [PART, PART_LONG]      # (vlib/combine.py takes PARTS when present: without it the combined C08 ran the enumeration part only)

CLAIM_TEXT = ("REQ: kernel-checked theorems about the Lean model of req_compactor/req_sketch over ALL histories (any number of live sketches, "
              "updates, merges, copies, queries), every k and both modes, for BOTH shapes of the compactor constructor (constant initial coin "
              "/ initial coin drawn; the shape is re-read from the headers on every run and the executed model follows it: one coin per "
              "compactor creation in the repaired shape): the number of coins drawn, the level of every draw and every shape are independent "
              "of the coin values (req_flips_shape_only); the sum over all 2^F coin vectors of the weight of the retained items satisfying ANY "
              "predicate (in particular <= y and < y, i.e. the rank numerator) equals 2^F times the true count -- for the repaired shape for "
              "EVERY history and merge tree with no further hypothesis (req_unbiased_repaired, req_unbiased_current over the generated flag), "
              "for the pinned shape for every history in which no odd-state compaction flips a coin that derives from no draw "
              "(req_unbiased_partial; always true without merges: req_unbiased_streams). For the pinned shape the unrestricted statement is "
              "FALSE (req_unbiased_full_false: req_compactor::merge adopts an odd state but keeps the constant initial coin; 53-op witness "
              "evaluated by the kernel over all coin vectors, replayed on the real code by whole-coin-tree enumeration; the same witness is "
              "unbiased over its 32 coin vectors in the repaired shape). Tie: for short histories the multisets of leaves over EVERY coin "
              "vector (implementation vs model) are equal and the implementation's leaves satisfy the integer identity and have equal flip "
              "counts; long histories run with recorded coins on both sides. While the headers have the pinned shape the finding "
              "`req-merge-adopts-odd-state` is reported as an open known finding; on a tree with the repair a bias is a plain violation.")


class C08Req(Spec):
    pid = "C08"
    props_modules = ["DSProofs.Props.C08_Req", "DSProofs.Props.C08_Req_Repaired"]
    tfamilies = ["req"]
    rule = ("REQ part: short histories (1-4 sketches, k 4-8, both modes, single stream / two-way merge / adopt-after-compaction / merge "
            "trees with copies) truncated to <= maxflips coins (8/10/12 quick, up to 14 thorough), EVERY coin vector enumerated on "
            "implementation and model, leaves compared as sorted multisets; plus long histories with 600 recorded coins; non-trivial = at "
            "least one flip; distinct = (ops, flips, structure, content hash)")
    trusted_base = c07req.C07Req.trusted_base
    assumptions = ["theorems are about DSModel/Req/*.lean; tie by whole-coin-tree enumeration on short histories + sampled long histories",
                   "published error bounds (get_rank_lower_bound/upper_bound at the claimed confidence) are empirical constants: not decided; "
                   "only lb <= rank <= ub and the formula's transcription are checked"]

    def parts(self):
        return [PART, PART_LONG]


SPEC = C08Req()

CLAIM = dict(text=CLAIM_TEXT,
             note="REQ part only. The confidence of the published rank bounds is not decided.",
             technique="Lean 4 proof (shape non-interference + level-wise coin-complement involution) + exhaustive coin-tree enumeration on the real code",
             design="DESIGN.md §3 C08")

"""C11 (KLL / REQ / classic quantiles) — truncated or corrupted images are rejected safely (DESIGN.md 3 C11, docs/WIRE_GUIDE.md)."""
import re
from .. import core
from ..runner import Spec
from . import quant_wire as qw


STR_COR_STAGES = ("n1", "n3", "est")


COR_STAGES = ("empty", "n1", "n2", "n5", "est", "merge", "merge-empty-level0", "rand")


def pfx_cor_op(s, sid):
    # every prefix length at every stage; corruption runs (hundreds of forked crash cases per image) at the stages that differ in layout.
    # string items: corruption is expensive on the stream path (see quant_wire.structural_offsets), so only at some stages
    if s.ty == "str":
        cor = s.stage in STR_COR_STAGES or (s.stage == "rand" and s.rng.random() < 0.25)
    elif s.fam == "req" and s.hra.get(sid) == 1 and s.stage != "rand":
        cor = s.stage in ("n2", "est")          # the rank-accuracy mode is one flag bit: the layout classes are covered with hra = 0
    else:
        cor = s.stage in COR_STAGES
    return ["pfx %d" % sid, "cor %d" % sid] if cor else ["pfx %d" % sid]


def parse_codes(line):
    """PFX/COR kind hex | [ofs=..] bytes=<codes> stream=<codes> | details -> dict"""
    parts = line.split(" | ")
    w = parts[0].split()
    if len(w) != 3 or w[0] not in ("PFX", "COR") or len(parts) < 2:
        return None
    m = re.search(r"bytes=(\S*) stream=(\S*)", parts[1])
    if not m:
        return None
    mo = re.search(r"ofs=(\S+)", parts[1])
    ofs = [int(x) for x in mo.group(1).split(",")] if mo and mo.group(1) != "-" else []
    details = {}
    for d in re.findall(r"\[case (\d+) (\S) ([^\]]*)\]", line):
        details[int(d[0])] = d[2].strip()
    return dict(op=w[0], kind=w[1], fam=w[1].split(".")[0], hex=w[2], size=(0 if w[2] == "-" else len(w[2]) // 2),
                bytes=m.group(1), stream=m.group(2), details=details, ofs=ofs)


class C11Part(qw.WirePart):
    def generate(self, rng, tier):
        return qw.add_cor_offsets(qw.split_checks(qw.generate_for(self.fam, pfx_cor_op, rng, tier, nrand=(6 if tier == "quick" else 100))))

    def pfx_lines(self, impl_out):
        return [g for g in (parse_codes(l) for l in impl_out if l.startswith("PFX ")) if g]

    def model_lines(self, hist, impl_out):
        return ["PFX %s %s" % (g["kind"], g["hex"]) for g in self.pfx_lines(impl_out)]

    def expected_model_out(self, hist, impl_out):
        # the specification reader rejects every strict prefix (no padding in these layouts); where the implementation
        # accepted one, the model would have to accept it with the same content
        out = []
        for g in self.pfx_lines(impl_out):
            acc = sorted(set(i for p in ("bytes", "stream") for i, c in enumerate(g[p]) if c in "ade"))
            out.append("PFX size=%d accepts=%s" % (g["size"], "none" if not acc else ";".join("%d:<accepted-by-implementation>" % i for i in acc)))
        return out

    def allowed_prefixes(self, g):
        """prefix lengths that the SPECIFICATION reader accepts with the full image's content (none for images this tree writes)"""
        return ()

    def field(self, g, off):
        try:
            f = qw.model_query(["FIELDS %s %s" % (g["kind"], g["hex"])])[0]
            return qw.field_at(f, off) if f.startswith("FIELDS") else "undecodable-image"
        except Exception:
            return "undecodable-image"

    def oracle(self, hist, impl_out):
        bad = []
        for i, l in enumerate(hist):
            if i >= len(impl_out):
                break
            w = l.split()
            o = impl_out[i]
            if w[0] not in ("pfx", "cor", "pfximg", "corimg"):
                if o.strip() == "throw":
                    bad.append(("%s/%s-threw" % (self.fam, w[0]), l[:80], i))
                continue
            g = parse_codes(o)
            if g is None:
                bad.append(("%s/%s-%s" % (self.fam, w[0], "threw" if o.strip().startswith("throw") else "bad-observation"), o[:120], i))
                continue
            seen = set()
            allowed = self.allowed_prefixes(g) if w[0].startswith("pfx") else ()
            for pi, path in enumerate(("bytes", "stream")):
                codes = g[path]
                if w[0].startswith("pfx"):
                    if len(codes) != g["size"]:
                        bad.append(("%s/pfx-incomplete" % self.fam, "%d of %d prefixes ran" % (len(codes), g["size"]), i))
                    for n, c in enumerate(codes):
                        if c == "t" or (c == "a" and n in allowed):
                            continue
                        if c in "ade":
                            key = "%s/%s/prefix-accepted@%s" % (self.fam, path, qw.field_region(self.field(g, n)))
                            what = "prefix of length %d of a %d-byte image accepted (%s)" % (n, g["size"], {"a": "same content", "d": "other content", "e": "getter threw"}[c])
                        else:
                            key = "%s/%s/prefix/%s@%s" % (self.fam, path, qw.SAFETY.get(c, c), qw.field_region(self.field(g, n)))
                            what = "prefix length %d of %d: %s %s" % (n, g["size"], qw.SAFETY.get(c, c), g["details"].get(pi * g["size"] + n, ""))
                        if key not in seen:
                            seen.add(key)
                            bad.append((key, "%s image=%s" % (what, g["hex"][:120]), i))
                else:
                    nofs = len(codes) // 8
                    for n, c in enumerate(codes):
                        if c not in qw.SAFETY:
                            continue
                        off, j = (g["ofs"][n // 8] if n // 8 < len(g["ofs"]) else -1), n % 8
                        fld = self.field(g, off)
                        key = "%s/%s/corrupt/%s@%s" % (self.fam, path, qw.OUTCOME_CLASS[qw.SAFETY[c]], qw.field_group(fld))
                        if key not in seen:
                            seen.add(key)
                            bad.append((key, "byte %d (field %s) replacement #%d: %s %s image=%s" % (off, fld, j, qw.SAFETY[c], g["details"].get(pi * nofs * 8 + n, ""), g["hex"][:120]), i))
        return bad

    def nontrivial_key(self, hist, impl_out):
        # called once per history by the runner: also the place where the measured figures are accumulated
        sig = set()
        for l in impl_out:
            g = parse_codes(l) if l[:4] in ("PFX ", "COR ") else None
            if not g:
                continue
            both = g["bytes"] + g["stream"]
            if g["op"] == "PFX":
                self.count("images_all_prefixes_run")          # exhaustive: every length 0..size-1 on both paths
                self.count("prefix_cases", len(both))
                self.count("prefix_rejected_by_throw", both.count("t"))
                self.count("prefix_safety_events", sum(1 for c in both if c in qw.SAFETY))
                self.count("prefix_accepted", sum(1 for c in both if c in "ade"))
            else:
                self.count("images_corrupted")
                self.count("corrupt_cases", len(both) - both.count("s"))
                self.count("corrupt_rejected_by_throw", both.count("t"))
                self.count("corrupt_accepted_usable", sum(1 for c in both if c in "ade"))
                self.count("corrupt_safety_events", sum(1 for c in both if c in qw.SAFETY))
            if g["size"] > 8:
                sig.add((g["kind"], min(g["size"] // 64, 8)))
        return tuple(sorted(sig)) if sig else None


class StoredImages(C11Part):
    """the same sweeps over images this tree does not write: the shipped .sk reference files (older serial versions, written by
    other versions / languages) and legacy images made by the Lean legacy encoders (KLL v1 single item, quantiles v1 / v2).
    The older formats have fields of their own (the unused long of quantiles v1, unused base-buffer slots of non-compact images),
    each read by code no current image reaches.  Where the documented reader itself needs only a prefix (trailing slack of a
    non-compact image), accepting that prefix with the same content is right: the allowed lengths come from the Lean reader."""

    def __init__(self, fam):
        super().__init__(fam)
        self.name = fam + "-stored"
        self._allowed = {}

    def generate(self, rng, tier):
        from . import c10_quant
        imgs = [(k, hx) for k, hx, _c, src in c10_quant.corpus_lines(self.fam) if src == "shipped" and hx != "-" and len(hx) <= 2 * 1200]
        imgs += [(k, hx) for k, hx, _c, _s in c10_quant.legacy_lines(self.fam, rng, 10 if tier == "quick" else 80) if len(hx) <= 2 * 1200]
        imgs = list(dict.fromkeys(imgs))
        hs = []
        try:
            flds = qw.model_query(["FIELDS %s %s" % im for im in imgs]) if imgs else []
        except Exception:
            flds = [""] * len(imgs)
        for (k, hx), f in zip(imgs, flds):
            ofs = qw.structural_offsets(f) if f.startswith("FIELDS") else []
            h = ["pfximg %s %s" % (k, hx)]
            if ofs:
                h.append("corimg %s %s %s" % (k, hx, ",".join(map(str, ofs))))
            hs.append(h)
        return hs

    def allowed_prefixes(self, g):
        key = (g["kind"], g["hex"])
        if key not in self._allowed:
            try:
                self._allowed[key] = self._model_accepts(qw.model_query(["PFX %s %s" % key])[0])
            except Exception:
                self._allowed[key] = set()
        return self._allowed[key]

    @staticmethod
    def _model_accepts(line):
        m = re.match(r"^PFX size=\d+ accepts=(.*)$", line.strip())
        if not m or m.group(1) == "none":
            return set()
        return set(int(t.split(":", 1)[0]) for t in m.group(1).split(";") if t.split(":", 1)[0].isdigit())

    def expected_model_out(self, hist, impl_out):
        out = []
        for g in self.pfx_lines(impl_out):
            acc = sorted(set(i for p in ("bytes", "stream") for i, c in enumerate(g[p]) if c in "ade"))
            out.append("PFX size=%d accepts=%s" % (g["size"], ",".join(map(str, acc)) or "none"))
        return out

    def diff(self, hist, impl_out, model_out):
        # verdict per prefix length: the implementation accepts exactly the lengths the documented reader accepts
        exp = self.expected_model_out(hist, impl_out)
        mo = []
        for l in model_out:
            m = re.match(r"^PFX size=(\d+) accepts=", l)
            mo.append("PFX size=%s accepts=%s" % (m.group(1), ",".join(map(str, sorted(self._model_accepts(l)))) or "none") if m else l)
        return core.first_diff(exp, mo, None)


PARTS = [C11Part(f) for f in qw.FAMS_ON] + [StoredImages(f) for f in qw.FAMS_ON if f in ("kll", "quant")]

CLAIM_TEXT = ("KLL, REQ and classic-quantiles readers: the specification readers are built only from bounds-checked combinators; kernel-checked "
              "prefix safety (`decode_PS`), rejection of EVERY strict prefix of every well-formed image (`prefix_rejected`) and "
              "`decode_bounded` (element counts <= input length).  The real deserializers (bytes and stream) are run on every prefix "
              "length of every generated image and on every byte < 512 x 8 replacement values from exact-size heap blocks under "
              "ASan/UBSan with an allocation cap and a live-allocation balance; reject <-> throw is compared with the Lean verdict.")


class C11Quant(Spec):
    pid = "C11"
    props_modules = ["DSProofs.Props.C11_" + qw.LEAN_NAME[f] for f in qw.FAMS_ON]
    tfamilies = ["wire_quant"]
    level = "proof"
    rule = ("same state classes as C09 (anchors at every seed + seeded random histories); per image: ALL prefix lengths 0..size-1 on the "
            "bytes and stream paths and every byte offset < 512 x {00,01,7F,80,FF,b^1,b^80,b+1} on both paths; non-trivial = image "
            "beyond the 8-byte preamble; distinct = distinct set of (kind, size bucket)")
    trusted_base = ["Lean 4.33 kernel", "axioms: propext, Quot.sound, Classical.choice",
                    "tools/trules/wire_quant.py", "harness/wire_quant_h.cpp (fork per image, exact-size heap blocks, ASan/UBSan, operator-new cap 256 MiB, live-allocation balance)",
                    "memory safety of the C++ readers is observed at run time on sampled images (exhaustive per image), not proved"]
    assumptions = ["theorems are about the specification readers DSModel/Wire/*.lean",
                   "corruption: only safety outcomes are violations; verdict differences are recorded"]

    def parts(self):
        return PARTS

    def extra_stages(self, rep, tier, rng, broken):
        for p in PARTS:
            p._rep, p.stats = rep, {}
        rep.cov["exhaustive_prefixes_per_image"] = True


SPEC = C11Quant()

"""C07 (REQ part) — REQ sketch conserves weight, keeps exact extremes, answers coherently (DESIGN.md 3 C07).

`PART` is the REQ part of C07 (the integrator combines it with the KLL and classic-quantiles parts);
`SPEC` runs this part alone: `./check c07req`.
"""
import math, struct
from .. import core
from ..runner import Spec, Part

INIT_SECTIONS = 3


def f64hex(x):
    return "%016x" % struct.unpack("<Q", struct.pack("<d", x))[0]


def hexf64(s):
    return struct.unpack("<d", struct.pack("<Q", int(s, 16)))[0]


def eff_k(k):
    """k as the constructor keeps it (std::max<uint8_t>(k & -2, MIN_K): reduced mod 256 as coded)."""
    return max((k - k % 2) % 256, 4)


def parse_S(line):
    w = line.split()
    if not w or w[0] != "S":
        return None
    d = {}
    bar = w.index("|")
    for t in w[1:bar]:
        k, v = t.split("=", 1)
        d[k] = v
    hi = w[bar + 1] if len(w) > bar + 1 else "-"
    o = dict(n=int(d["n"]), min=None if d["min"] == "-" else int(d["min"]), max=None if d["max"] == "-" else int(d["max"]),
             ret=int(d["ret"]), est=d["est"] == "1", f=int(d["f"]), atend=d["atend"] == "1")
    o["rle"] = [] if d["w"] == "-" else [tuple(int(x) for x in t.split("x")) for t in d["w"].split(",")]
    o["l0"] = [] if d["l0"] == "-" else [int(x) for x in d["l0"].split(",")]
    o["hi"] = [] if hi == "-" else [x for x in hi.split(",")]
    return o


def parse_view(s):
    if s == "-":
        return []
    return [tuple(int(x) for x in e.split(":")) for e in s.split(",")]


def true_rank(items, x, inclusive):
    c = sum(1 for y in items if (y <= x if inclusive else y < x))
    return c / len(items)


def view_rank(view, total, x, inclusive):
    """rank as defined by a sorted view with cumulative weights"""
    cum = 0
    for it, c in view:
        if (it <= x) if inclusive else (it < x):
            cum = c
        else:
            break
    return cum / total


def true_quantile(items, r, inclusive):
    s = sorted(items)
    n = len(s)
    if inclusive:
        wgt = math.ceil(r * n)
        for i, x in enumerate(s):
            if i + 1 >= wgt:
                return x
    else:
        wgt = int(r * n)
        for i, x in enumerate(s):
            if i + 1 > wgt:
                return x
    return s[-1]


def level_cap_bound(k, n_lineage):
    """independent upper bound of one compactor's nominal capacity: 2 * numSections * sectionSize with numSections = 3*2^j,
    sectionSize <= k / sqrt(2)^j + 1, and j doublings need state >= 2^(numSections-1) where state < 2 * (items ever fed)."""
    best = 0
    ns = INIT_SECTIONS
    j = 0
    while True:
        best = max(best, 2 * ns * (k / (math.sqrt(2) ** j) + 1))
        if 2 * n_lineage < 2 ** (ns - 1) or ns > 64:
            break
        ns *= 2
        j += 1
    return best


class ReqC07Part(Part):
    name = "req"
    harness = "req_h"
    model_exe = "dsmodel_req"
    family = "req"
    timeout = 300

    # only the coin-independent part (before " | ") of an observation must equal the model's; the coin-dependent rest is
    # validated by the property oracle here and, as multisets over the whole coin tree, by C08 (DESIGN 2.11)
    @staticmethod
    def cmp(x, y):
        return x.split(" | ")[0] == y.split(" | ")[0]

    sizes = dict(quick=(60, [30, 80, 200, 400]), thorough=(500, [50, 200, 600, 2000]))
    maxn = 20000

    def gen_items(self, rng, m):
        style = rng.choice(["random", "random", "sorted", "reversed", "constant", "dups", "narrow"])
        if style == "random":
            return [rng.randrange(-1000, 1000) for _ in range(m)]
        if style == "sorted":
            return list(range(m))
        if style == "reversed":
            return list(range(m, 0, -1))
        if style == "constant":
            return [7] * m
        if style == "dups":
            return [rng.choice([1, 2, 3, 50]) for _ in range(m)]
        return [rng.randrange(0, 12) for _ in range(m)]

    def queries(self, rng, sid, items):
        q = []
        if rng.random() < 0.5:
            q.append("view %d" % sid)
        base = sorted(set(items)) if items else [0]
        xs = sorted(set([rng.choice(base) + rng.choice([-1, 0, 0, 1]) for _ in range(rng.choice([1, 3, 5]))]))
        for x in xs:
            q.append("rank %d %d 0" % (sid, x))
            q.append("rank %d %d 1" % (sid, x))
        rs = sorted(rng.choice([0.0, 1.0, 0.5, rng.random(), rng.random(), 0.25, 0.999]) for _ in range(rng.choice([1, 2, 4])))
        inc = rng.randrange(2)
        for r in rs:
            q.append("quant %d %s %d" % (sid, f64hex(r), inc))
        u = rng.random()
        if u < 0.08:
            q.append("quant %d %s %d" % (sid, f64hex(rng.choice([-0.25, 1.5, -1e-300, 1.0000000000000002])), inc))
        elif u < 0.12:
            q.append("quant %d 7ff8000000000000 %d" % (sid, inc))
        if rng.random() < 0.5:
            q.append("view %d" % sid)
            pts = sorted(set(rng.choice(base) for _ in range(rng.choice([1, 2, 4]))))
            v = rng.random()
            if v < 0.08 and len(pts) >= 2:
                pts = [pts[1], pts[0]] + pts[2:]
            elif v < 0.12:
                pts = pts + [pts[-1]]
            elif v < 0.16:
                pts = [str(p) for p in pts] + ["nan"]
            q.append("cdf %d %d %s" % (sid, rng.randrange(2), " ".join(str(p) for p in pts)))
        if rng.random() < 0.3:
            q.append("bounds %d %s %d" % (sid, f64hex(rng.random()), rng.randrange(1, 4)))
        if items and rng.random() < 0.5:
            # the published bounds have a zero-width region at the accurate end (the items level 0 never compacts: 3k of them, whatever
            # level 0 has grown to since): bounds on both sides of that threshold, and across the multiples of k beyond it
            n = len(items)
            for k in (4, 6, 8, 10, 12, 20):
                for j in (3 * k - 1, 3 * k, 3 * k + 1, 4 * k, 5 * k, 6 * k + 1):
                    if j < n and rng.random() < 0.35:
                        for r in (1.0 - j / n, j / n):
                            q.append("bounds %d %s %d" % (sid, f64hex(r), rng.randrange(1, 4)))
        return q

    def generate(self, rng, tier):
        nh, lens = self.sizes["quick" if tier == "quick" else "thorough"]
        hs = []
        for i in range(nh):
            h = ["coins " + "".join(rng.choice("01") for _ in range(600))]
            if i % 7 == 3:
                # query -> merge that triggers no compaction -> query again, with no update in between (the queries cache the sorted
                # view inside the sketch; every state change must drop it): small sketches, queries after every step
                hra = rng.randrange(2)
                k = rng.choice([4, 6, 12, 20])
                ids = list(range(rng.choice([2, 3, 4])))
                tr = {}
                for s_ in ids:
                    h.append("new %d %d %d" % (s_, k, hra))
                    tr[s_] = [rng.randrange(-50, 200) for _ in range(rng.choice([1, 2, 3, 5, 8]))]
                    for x in tr[s_]:
                        h.append("upd %d %d" % (s_, x))
                h += self.queries(rng, 0, tr[0])
                for s_ in ids[1:]:
                    h.append("%s 0 %d" % (rng.choice(["merge", "mergemv"]), s_))
                    tr[0] = tr[0] + tr[s_]
                    h += self.queries(rng, 0, tr[0])
                    h.append("quant 0 %s 1" % f64hex(1.0))
                    h.append("quant 0 %s 0" % f64hex(0.0))
                x = rng.randrange(-50, 200)
                h.append("upd 0 %d" % x)
                tr[0].append(x)
                h += self.queries(rng, 0, tr[0])
                hs.append(h)
                continue
            if i % 7 == 5:
                # merges that land EXACTLY on (and one item either side of) the nominal capacity of an exact-mode sketch (6k items for a
                # fresh sketch), followed by a long run of updates: the compaction trigger of merge and the one of update must agree on
                # the boundary, or the sketch never compacts again and retains every item
                hra = rng.randrange(2)
                k = rng.choice([4, 6, 12, 20])
                cap = 6 * k
                tr = {}
                sid = 0
                for delta in rng.sample([0, 0, -1, 1], 3):
                    a = rng.randrange(1, cap - 1)
                    b = max(1, cap + delta - a)
                    for m in (a, b):
                        h.append("new %d %d %d" % (sid, k, hra))
                        tr[sid] = self.gen_items(rng, m)
                        for x in tr[sid]:
                            h.append("upd %d %d" % (sid, x))
                        sid += 1
                    h.append("%s %d %d" % (rng.choice(["merge", "mergemv"]), sid - 2, sid - 1))
                    tr[sid - 2] = tr[sid - 2] + tr[sid - 1]
                    more = self.gen_items(rng, rng.choice([40 * k, 80 * k]))
                    for x in more:
                        h.append("upd %d %d" % (sid - 2, x))
                    tr[sid - 2] = tr[sid - 2] + more
                    h += self.queries(rng, sid - 2, tr[sid - 2])
                hs.append(h)
                continue
            nsk = rng.choice([1, 2, 3, 4])
            hra_all = rng.randrange(2)
            ks = [4, 4, 6, 8, 10, 12] if tier == "quick" else [4, 5, 6, 8, 12, 16, 20, 50, 300]
            live = []
            truth = {}
            for s in range(nsk):
                k = rng.choice(ks)
                hra = hra_all if rng.random() < 0.93 else 1 - hra_all
                h.append("new %d %d %d" % (s, k, hra))
                live.append(s)
                truth[s] = []
                if rng.random() < 0.3:
                    h += self.queries(rng, s, [])       # queries on an empty sketch
            nxt = nsk
            total = rng.choice(lens)
            done = 0
            while done < total:
                r = rng.random()
                s = rng.choice(live)
                if r < 0.70:
                    m = rng.choice([1, 3, 10, 30, 60])
                    for x in self.gen_items(rng, m):
                        h.append("upd %d %d" % (s, x))
                        truth[s].append(x)
                    done += m
                    if rng.random() < 0.05:
                        h.append("upd %d nan" % s)
                elif r < 0.82 and len(live) > 1 and len(truth[s]) < self.maxn:
                    # (merge trees grow like Fibonacci numbers: only operands that keep n below maxn)
                    cands = [x for x in live if x != s and len(truth[s]) + len(truth[x]) <= self.maxn]
                    if not cands:
                        continue
                    t = rng.choice(cands)
                    h.append("%s %d %d" % (rng.choice(["merge", "merge", "mergemv"]), s, t))
                    truth[s] = truth[s] + truth[t]
                    done += 1
                elif r < 0.86 and nxt < 7:
                    h.append("copy %d %d" % (s, nxt))
                    truth[nxt] = list(truth[s])
                    live.append(nxt)
                    nxt += 1
                    done += 1
                elif r < 0.88 and nxt < 7:
                    h.append("new %d %d %d" % (nxt, rng.choice(ks), hra_all))
                    truth[nxt] = []
                    live.append(nxt)
                    nxt += 1
                else:
                    h += self.queries(rng, s, truth[s])
                    done += 1
            for s in live:
                h += self.queries(rng, s, truth[s])
            hs.append(h)
        return hs

    # ---------------------------------------------------------------- the property statement on one implementation trace
    def oracle(self, hist, impl_out):
        bad = []
        truth, cfg = {}, {}
        last_rank = {}     # sid -> (x, incl) -> rank since last state change
        last_q = {}        # sid -> list of (r, incl, q)
        last_view = {}     # sid -> (view, total) since last state change
        last_S = {}
        fprev = 0

        def changed(sid):
            last_rank.pop(sid, None); last_q.pop(sid, None); last_view.pop(sid, None)

        for i, l in enumerate(hist):
            if i >= len(impl_out):
                break
            w = l.split()
            o = impl_out[i].strip()
            op = w[0]
            if op == "coins":
                continue
            if op == "new":
                sid = int(w[1]); truth[sid] = []; cfg[sid] = dict(k=eff_k(int(w[2])), hra=w[3] == "1"); changed(sid)
                tgt = sid
            elif op == "upd":
                sid = int(w[1])
                if sid not in truth:
                    continue
                if w[2] != "nan":
                    truth[sid] = truth[sid] + [int(w[2])]
                    changed(sid)
                tgt = sid
            elif op in ("merge", "mergemv"):
                a, b = int(w[1]), int(w[2])
                if a not in truth or b not in truth or a == b:
                    continue
                if cfg[a]["hra"] != cfg[b]["hra"]:
                    if o != "throw":
                        bad.append(("hra-lra-merge-accepted", o[:80], i))
                    continue
                truth[a] = truth[a] + truth[b]
                changed(a)
                tgt = a
            elif op == "copy":
                a, b = int(w[1]), int(w[2])
                if a not in truth:
                    continue
                truth[b] = list(truth[a]); cfg[b] = dict(cfg[a]); changed(b)
                tgt = a
            else:
                tgt = None
            if tgt is not None:
                S = parse_S(o)
                if S is None:
                    bad.append(("unexpected-throw" if o == "throw" else "bad-observation", "%s -> %s" % (l, o[:80]), i))
                    continue
                t = truth[tgt]
                if S["n"] != len(t):
                    bad.append(("n-not-exact", "n=%d accepted=%d after `%s`" % (S["n"], len(t), l), i))
                if t and (S["min"] != min(t) or S["max"] != max(t)):
                    bad.append(("minmax-not-exact", "min=%s max=%s true=%d..%d" % (S["min"], S["max"], min(t), max(t)), i))
                if not t and (S["min"] is not None or S["max"] is not None):
                    bad.append(("minmax-on-empty", o[:80], i))
                if not S["atend"]:
                    bad.append(("iter-begin-ne-end-on-empty" if S["n"] == 0 else "iterator-does-not-reach-end",
                                "after %d = num_retained steps the iterator is not end() (n=%d)" % (S["ret"], S["n"]), i))
                else:
                    cnt = sum(c for _, c in S["rle"])
                    wsum = sum(wt * c for wt, c in S["rle"])
                    if cnt != S["ret"]:
                        bad.append(("iterator-count-ne-retained", "pairs=%d num_retained=%d" % (cnt, S["ret"]), i))
                    if wsum != S["n"]:
                        bad.append(("weight-not-conserved", "sum of weights=%d n=%d" % (wsum, S["n"]), i))
                    wts = [wt for wt, _ in S["rle"]]
                    if wts != [2 ** j for j in range(len(wts))]:
                        bad.append(("level-weights-not-powers-of-two-in-order", str(wts), i))
                    if S["est"] != (len(wts) > 1):
                        bad.append(("estimation-mode-flag", "est=%s levels=%d" % (S["est"], len(wts)), i))
                    # levels above 0 sorted
                    pos = 0
                    his = S["hi"]
                    for wt, c in S["rle"][1:]:
                        seg = his[pos:pos + c]; pos += c
                        if "?" in seg:
                            bad.append(("iterator-invalid-read", "level weight %d" % wt, i))
                        else:
                            seg = [int(x) for x in seg]
                            if seg != sorted(seg):
                                bad.append(("level-not-sorted", "weight %d: %s" % (wt, seg[:12]), i))
                    # space bound
                    k = cfg[tgt]["k"]
                    capb = level_cap_bound(k, max(1, len(t)))
                    if S["ret"] >= len(S["rle"]) * capb and S["ret"] > 0:
                        bad.append(("retained-above-bound", "%d items retained in %d levels, k=%d" % (S["ret"], len(S["rle"]), k), i))
                    if not S["est"] and sorted(S["l0"]) != sorted(t):
                        bad.append(("exact-mode-items-differ", "", i))
                if S["f"] < fprev:
                    bad.append(("flips-decreased", "", i))
                fprev = S["f"]
                last_S[tgt] = S
                continue
            # ---- queries
            sid = int(w[1])
            if sid not in truth:
                continue
            t = truth[sid]
            exact = last_S.get(sid) is not None and not last_S[sid]["est"]
            if op == "view":
                if not o.startswith("V "):
                    bad.append(("unexpected-throw", l, i)); continue
                head, body = o.split(" | ")
                hd = dict(x.split("=") for x in head.split()[1:])
                v = parse_view(body.strip())
                tot, sz = int(hd["tot"]), int(hd["sz"])
                if [e[0] for e in v] != sorted(e[0] for e in v):
                    bad.append(("view-not-sorted", "", i))
                if any(v[j][1] >= v[j + 1][1] for j in range(len(v) - 1)) or (v and v[0][1] <= 0):
                    bad.append(("view-cumulative-weights-not-increasing", "", i))
                if tot != len(t) or (v and v[-1][1] != len(t)):
                    bad.append(("view-total-ne-n", "total=%d n=%d" % (tot, len(t)), i))
                if last_S.get(sid) is not None and sz != last_S[sid]["ret"]:
                    bad.append(("view-size-ne-retained", "", i))
                if exact and [e[0] for e in v] != sorted(t):
                    bad.append(("exact-mode-view-differs", "", i))
                last_view[sid] = (v, tot)
            elif op == "rank":
                if not t:
                    if o != "throw":
                        bad.append(("empty-query-answered", l, i))
                    continue
                if not o.startswith("R "):
                    bad.append(("unexpected-throw", l, i)); continue
                a, b = o.split(" | ")[1].split()
                x, inc = int(w[2]), w[3] == "1"
                if a != b:
                    bad.append(("direct-rank-ne-view-rank", "%s vs %s at x=%d" % (a, b, x), i))
                r = hexf64(a)
                if not (0.0 <= r <= 1.0):
                    bad.append(("rank-outside-unit-interval", str(r), i))
                lr = last_rank.setdefault(sid, {})
                for (x2, inc2), r2 in lr.items():
                    if inc2 == inc and ((x2 <= x and r2 > r) or (x2 >= x and r2 < r)):
                        bad.append(("rank-not-monotone", "rank(%d)=%r rank(%d)=%r" % (x2, r2, x, r), i))
                    if x2 == x and inc2 != inc and ((inc and r < r2) or (not inc and r > r2)):
                        bad.append(("inclusive-rank-below-exclusive", "x=%d" % x, i))
                lr[(x, inc)] = r
                if exact and f64hex(true_rank(t, x, inc)) != a:
                    bad.append(("exact-mode-rank-not-true-rank", "x=%d got %r true %r" % (x, r, true_rank(t, x, inc)), i))
                if sid in last_view and last_view[sid][1] > 0 and f64hex(view_rank(last_view[sid][0], last_view[sid][1], x, inc)) != a:
                    bad.append(("rank-inconsistent-with-view", "x=%d" % x, i))
            elif op == "quant":
                rk = hexf64(w[2])
                if not t:
                    if o != "throw":
                        bad.append(("empty-query-answered", l, i))
                    continue
                if rk != rk:
                    if o != "throw":
                        bad.append(("nan-rank-answered", "get_quantile(NaN) returned %s" % o[:40], i))
                    continue
                if rk < 0.0 or rk > 1.0:
                    if o != "throw":
                        bad.append(("rank-out-of-range-answered", "%r -> %s" % (rk, o[:40]), i))
                    continue
                if not o.startswith("Q "):
                    bad.append(("unexpected-throw", l, i)); continue
                q = int(o.split(" | ")[1])
                inc = w[3] == "1"
                lq = last_q.setdefault(sid, [])
                for r2, inc2, q2 in lq:
                    if inc2 == inc and ((r2 <= rk and q2 > q) or (r2 >= rk and q2 < q)):
                        bad.append(("quantile-not-monotone", "q(%r)=%d q(%r)=%d" % (r2, q2, rk, q), i))
                lq.append((rk, inc, q))
                if not (min(t) <= q <= max(t)):
                    bad.append(("quantile-outside-min-max", str(q), i))
                if exact and q != true_quantile(t, rk, inc):
                    bad.append(("exact-mode-quantile-not-true-quantile", "r=%r got %d true %d" % (rk, q, true_quantile(t, rk, inc)), i))
            elif op == "cdf":
                pts = w[3:]
                inc = w[2] == "1"
                if not t:
                    if o != "throw":
                        bad.append(("empty-query-answered", l, i))
                    continue
                invalid = "nan" in pts or any(int(pts[j]) >= int(pts[j + 1]) for j in range(len(pts) - 1) if "nan" not in pts)
                if invalid:
                    if o != "throw":
                        bad.append(("bad-split-points-answered", l[:80], i))
                    continue
                if not o.startswith("D "):
                    bad.append(("unexpected-throw", l, i)); continue
                cs, ps = o.split(" | ")[1].split(" ; ")
                cdf = [hexf64(x) for x in cs.split()]
                pmf = [hexf64(x) for x in ps.split()]
                if len(cdf) != len(pts) + 1 or len(pmf) != len(pts) + 1:
                    bad.append(("cdf-pmf-length", "", i)); continue
                if cdf[-1] != 1.0:
                    bad.append(("cdf-last-not-one", str(cdf[-1]), i))
                if any(cdf[j] > cdf[j + 1] for j in range(len(cdf) - 1)):
                    bad.append(("cdf-not-monotone", "", i))
                if abs(sum(pmf) - 1.0) > 1e-9 or any(p < 0 for p in pmf):
                    bad.append(("pmf-does-not-sum-to-one", str(sum(pmf)), i))
                if any(abs(pmf[j] - (cdf[j] - (cdf[j - 1] if j else 0.0))) > 1e-12 for j in range(len(pmf))):
                    bad.append(("pmf-inconsistent-with-cdf", "", i))
                if sid in last_view and last_view[sid][1] > 0:
                    v, tot = last_view[sid]
                    for j, p in enumerate(pts):
                        if f64hex(view_rank(v, tot, int(p), inc)) != f64hex(cdf[j]):
                            bad.append(("cdf-ne-rank", "split %s" % p, i))
                            break
                if exact and any(f64hex(true_rank(t, int(p), inc)) != f64hex(cdf[j]) for j, p in enumerate(pts)):
                    bad.append(("exact-mode-cdf-not-true-rank", "", i))
            elif op == "bounds":
                if not o.startswith("B "):
                    continue
                ww = o.split()
                rk = hexf64(w[2])
                lb, ub = hexf64(ww[2]), hexf64(ww[3])
                if not (lb <= rk <= ub):
                    bad.append(("rank-bounds-do-not-bracket", "%r %r %r" % (lb, rk, ub), i))
        return bad

    def nontrivial_key(self, hist, impl_out):
        fin = {}
        merged = False
        for l, o in zip(hist, impl_out):
            S = parse_S(o) if o.startswith("S ") else None
            w = l.split()
            if S is not None and w[0] in ("new", "upd", "merge", "mergemv"):
                fin[int(w[1])] = (S["n"], len(S["rle"]), S["f"])
            if w[0] in ("merge", "mergemv") and S is not None:
                merged = True
        if not any(v[1] > 1 for v in fin.values()):
            return None
        return (merged, tuple(l for l in hist if l.startswith("new ")), tuple(sorted(fin.items())))


PART = ReqC07Part()

CLAIM_TEXT = ("REQ: kernel-checked theorems over ALL histories of new/update/merge/copy/query operations on any number of live "
              "sketches, every k, both accuracy modes and every coin sequence, about an executable Lean model of req_compactor + req_sketch: "
              "n exact and min/max exact w.r.t. the specification `inputOf` (items fed through updates, merges, copies); the code never "
              "throws 'compaction range error'; iterating begin()..end() yields exactly num_retained pairs with weights 2^lg_weight summing "
              "to n for EVERY sketch incl. the empty one (req_weight_conserved_repaired, for the iterator shape the current headers have: "
              "it skips empty compactors; the shape is re-read from the source on every run and the executed model follows it; the pinned "
              "iterator that started inside compactor 0 is kept as req_weight_conserved_full_false / _partial); get_quantile answers only a "
              "non-empty sketch and a rank with rank >= 0 && rank <= 1, so NaN is rejected (req_invalid_rank_rejected_repaired); "
              "num_retained / max_nom_size bookkeeping exact, no empty compactor in a non-empty sketch; num_retained < max_nom_size after "
              "every operation (non-lazy compression; capacity-monotone section schedule = hypothesis SecOK, checked by execution for the "
              "float code); all levels above 0 sorted, lg_weight = level; direct get_rank = the sorted view's rank = weight below, view total "
              "= n; while one level the sorted view is the ascending input with unit weights. Tied to the real headers by a differential "
              "check with harness-supplied coins and by the property oracle on every implementation trace. The two defects this check found "
              "(begin() != end() on an empty sketch; get_quantile(NaN) answered) are repaired in /repo (f746338, e01cb97): reverting either "
              "gives a VIOLATION with a failing input.")


class C07Req(Spec):
    pid = "C07"
    props_modules = ["DSProofs.Props.C07_Req", "DSProofs.Props.C07_Req_Repaired"]
    tfamilies = ["req"]
    rule = ("REQ part: histories over 1-7 live sketches (k 4-12 quick / 4-300 thorough, HRA and LRA, rare mode mix), updates in runs "
            "(random/sorted/reversed/constant/duplicates/narrow, NaN), lvalue/rvalue merges in random trees incl. unequal k and empty "
            "operands, copies, interleaved view/rank/quantile/CDF/PMF/bounds queries incl. invalid ones, 600 recorded coins fed to both "
            "sides; non-trivial = some sketch reached >= 2 levels; distinct = (merged?, configs, final (n, levels, flips) per sketch)")
    trusted_base = ["Lean 4.33 kernel", "axioms: propext, Quot.sound, Classical.choice",
                    "correspondence harness harness/req_h.cpp + generators (sampled histories; public-API observations; coins supplied through the DATASKETCHES_VERIF hook)",
                    "L1 model: buffers as lists in begin()..end() order; capacities/allocation not modelled; float section schedule executed with Lean Float32 (bit-exact) and abstract in the theorems",
                    "tools/trules/req.py (MIN_K, INIT_NUM_SECTIONS, MULTIPLIER, LAZY_COMPRESSION, RSE constants regenerated every run)"]
    assumptions = ["theorems are about DSModel/Req/*.lean; the tie to req_compactor_impl.hpp / req_sketch_impl.hpp is differential (sampled)",
                   "items are doubles holding integers (and NaN); other item types / custom comparators are not exercised",
                   "the iterator shape and the rank range check are read from the current headers (tools/trules/req.py: DSGen.req_ITER_SKIPS_EMPTY, req_NAN_RANK_REJECTED; unknown shape = broken tie); that NaN fails `rank >= 0` is IEEE semantics of the executed Float comparison, not a kernel fact",
                   "retained < max_nom_size is proved under SecOK (nominal capacity does not shrink when sections double), checked by execution for every k (dsmodel_req selftest)"]

    def parts(self):
        return [PART]

    def extra_stages(self, rep, tier, rng, broken):
        out, oc, err = core.run_model("dsmodel_req", "selftest", [])
        if oc != "ok" or not out or "bad=0" not in out[-1]:
            broken.append(("obligation", "SecOK(secF32) by execution", "dsmodel_req selftest: %s %s %s" % (oc, out[-1:] , err[-300:])))


SPEC = C07Req()

CLAIM = dict(text=CLAIM_TEXT,
             note="REQ part only. Modelled, not verified: allocation/capacity growth, item types other than double, serialization (C09).",
             technique="Lean 4 invariant proofs by induction over operation lists + differential correspondence + trace oracle",
             design="DESIGN.md §3 C07")

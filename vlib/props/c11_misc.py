"""C11 (group `misc`: t-digest, Bloom filter, density sketch) — truncated / corrupted images (DESIGN.md §3 C11, docs/WIRE_GUIDE.md).

For every image the harness tries EVERY prefix length 0..size-1 and every preamble byte x {00,01,7F,80,FF,b^1,b^80,b+1} on every
reader path (bytes, stream; Bloom also wrap / writable_wrap), each case in an exact-size heap block under ASan+UBSan, crash-isolated,
with a tracking allocator (balance after a throw), a 256 MiB allocation cap and a CPU-time watchdog.  The Lean specification reader
must reject every strict prefix (theorem `prefix_rejected`; the driver re-checks it on the very image: minpfx = size)."""
import struct
from .. import core
from ..runner import Spec
from . import misc_common as M

BLOOM_FIELDS = [(0, "pre_longs"), (1, "ser_ver"), (2, "family"), (3, "flags"), (4, "num_hashes"), (6, "unused"), (8, "seed"),
                (16, "num_longs"), (20, "unused2"), (24, "num_bits_set"), (32, "bits")]
TD_FIELDS = [(0, "pre_longs"), (1, "ser_ver"), (2, "type"), (3, "k"), (5, "flags"), (6, "unused"), (8, "num_centroids"), (12, "num_buffered"), (16, "min_max")]
TD_SINGLE_FIELDS = [(0, "pre_longs"), (1, "ser_ver"), (2, "type"), (3, "k"), (5, "flags"), (6, "unused"), (8, "value")]
TD_LEG1_FIELDS = [(0, "zeros"), (3, "compat_type"), (4, "min_max"), (20, "compression"), (28, "num_centroids"), (32, "centroids")]
TD_LEG2_FIELDS = [(0, "zeros"), (3, "compat_type"), (4, "min_max"), (20, "compression"), (24, "capacities"), (28, "num_centroids"), (30, "centroids")]
DEN_FIELDS = [(0, "pre_ints"), (1, "ser_ver"), (2, "family"), (3, "flags"), (4, "k"), (6, "unused"), (8, "dim"), (12, "num_retained"), (16, "n"), (24, "level_size"), (28, "points")]


def field_at(table, pos):
    name = table[0][1]
    for off, nm in table:
        if pos >= off:
            name = nm
    return name


def fields_of(kind, img):
    if kind == "bloom":
        return BLOOM_FIELDS
    if kind.startswith("den"):
        return DEN_FIELDS
    if len(img) >= 4 and img[0] == 0 and img[1] == 0 and img[2] == 0:
        return TD_LEG1_FIELDS if img[3] == 1 else TD_LEG2_FIELDS
    if len(img) >= 6 and (img[5] & 3):
        return TD_SINGLE_FIELDS
    return TD_FIELDS


def region(kind, img, n):
    """names the part of the image in which a prefix of length n ends"""
    if kind == "bloom":
        return "header" if n < 24 else ("num_bits_set" if n < 32 else "bits")
    if kind.startswith("den"):
        return "header" if n < 12 else ("counts" if n < 24 else "levels")
    t = 8 if kind == "td.d" else 4
    if len(img) >= 4 and img[0] == 0 and img[1] == 0 and img[2] == 0:
        fixed = 32 if img[3] == 1 else 30
        return "legacy-fixed" if n < fixed else "legacy-centroids"
    if n < 8:
        return "header"
    if len(img) >= 6 and (img[5] & 3):
        return "value"
    return "counts" if n < 16 else ("min_max" if n < 16 + 2 * t else "centroids_buffer")


trailing_empty_offset = M.trailing_empty_offset


def cls_of(tok):
    if tok in ("a", "A") or tok.startswith("a:"):
        return "accepted"
    if tok in ("cap", "timeout"):
        return "resource"
    for c in ("asan", "ubsan", "leak", "crash"):
        if tok.startswith(c):
            return c
    return tok


def fmt_of(img):
    if len(img) >= 4 and img[0] == 0 and img[1] == 0 and img[2] == 0:
        return "leg1" if img[3] == 1 else "leg2"
    return "main"


def sweep_keys(fam, d):
    """-> [(key, what)] for one SWEEP line; only `t` is acceptable for a strict prefix, only t / accepted for a corruption"""
    res = []
    kind = d["kind"]
    img = bytes.fromhex(d["hex"]) if d.get("hex", "-") != "-" else b""
    full = d["full"]
    ref = None
    for path, tok in full.items():
        if not tok.startswith("a:"):
            if kind == "bloom" and path == "wwrap" and len(img) == 24 and tok == "t":
                continue            # an empty filter cannot be wrapped for writing, by design
            res.append(("%s/%s/full-image/%s" % (fam, path, cls_of(tok)), "the complete image is not accepted on path %s: %s" % (path, tok)))
        elif ref is None:
            ref = tok
        elif tok != ref:
            res.append(("%s/%s/full-image/content-differs" % (fam, path), "paths disagree on the content of the complete image"))
    for path, toks in d["prefix"].items():
        seen = set()
        for n, tok in enumerate(toks):
            if tok in ("t", "skipped"):
                continue
            c = cls_of(tok)
            if kind.startswith("den") and c == "accepted" and tok == "A" and n >= trailing_empty_offset(kind, img):
                # the missing tail is the unread trailing empty level (C09 finding density/trailing-empty-level-not-restored): same cause on every path
                key = "%s/%s/prefix/trailing-empty-levels/accepted" % (fam, path)
            elif path == "stream" and c != "leak":
                # a truncated stream that is not rejected: whatever follows (garbage accepted, allocation from a garbage
                # count, a getter dividing by a garbage zero) has this one cause
                key = "%s/stream/prefix/stream-state-not-checked" % fam
            else:
                key = "%s/%s/prefix/%s/%s" % (fam, path, region(kind, img, n), c)
            if key not in seen:
                seen.add(key)
                res.append((key, "prefix of %d of %d bytes on path %s: %s (expected: exception)" % (n, len(img), path, tok)))
    table = fields_of(kind, img)
    for path, c in d["corrupt"].items():
        seen = set()
        for pos, val, oc in c["bad"]:
            if oc == "skipped":
                continue
            key = "%s/%s/corrupt/%s/%s" % (fam, path, field_at(table, pos), cls_of(oc))
            if key not in seen:
                seen.add(key)
                res.append((key, "byte %d := 0x%s on path %s: %s (expected: exception or usable sketch)" % (pos, val, path, oc)))
    return res


class C11Part(M.MiscPart):
    def __init__(self, name, gen):
        self.name = name
        self.gen = gen

    def _extra(self, rng, fam, p):
        if fam == "bloom":
            return lambda i, cls, *a: ["bf.sweep %d b" % i] if rng.random() < p else []
        if fam == "tdigest":
            return lambda i, cls, wb=0: ["td.sweep %d %d b" % (i, wb)] if rng.random() < p else []
        return lambda i, cls, *a: ["den.sweep %d b" % i] if rng.random() < p else []

    def generate(self, rng, tier):
        quick = tier == "quick"
        n, p = {"bloom": (5, 0.5), "tdigest": (5, 0.45), "density": (4, 0.4)}[self.name]
        if not quick:
            n, p = n * 5, 0.8
        hs = []
        while len(hs) < n:
            h = self.gen(rng, "quick", self._extra(rng, self.name, p))   # small parameters: the sweeps are exhaustive per image
            if any(".sweep" in l for l in h):
                hs.append(h)
        if self.name == "tdigest":
            # the two big-endian reference formats: Python-built images, read as double and as float
            cents = [(1.0, -3.5), (2.0, 0.25), (5.0, 7.0), (1.0, 1e3)]
            big = M.be_legacy_big(-3.5, 1e3, 100.0, cents).hex()
            small = M.be_legacy_small(-3.5, 1e3, 50.0, cents, 210, 1050).hex()
            hs.append(["sweepimg td.d %s b" % big, "sweepimg td.f %s b" % small])
            hs.append(["sweepimg td.f %s b" % big, "sweepimg td.d %s b" % small])
            if not quick:
                for c in M.corpus_lines("tdigest"):
                    if c.get("shipped") and c["hex"]:
                        hs.append(["sweepimg %s %s b" % (c["kind"], c["hex"])])
        return hs

    # model: the specification reader on the very image that was swept
    def model_lines(self, hist, impl_out):
        res = []
        for l in impl_out:
            d = M.parse_sweep(l)
            if d:
                res.append("IMG %s %s" % (d["kind"], d["hex"]))
        return res

    def expected_model_out(self, hist, impl_out):
        res = []
        for l in impl_out:
            d = M.parse_sweep(l)
            if d:
                img = bytes.fromhex(d["hex"]) if d["hex"] != "-" else b""
                eff = M.trailing_empty_offset(d["kind"], img)      # density: trailing empty levels are not read back (open finding)
                res.append("DEC * | reenc=%d size=%d minpfx=%d fmt=%s" % (1 if eff == len(img) else 0, eff, eff, fmt_of(img)))
        return res

    def oracle(self, hist, impl_out):
        bad = M.unexpected(hist, impl_out)
        for i, o in enumerate(impl_out):
            d = M.parse_sweep(o)
            if d:
                for key, what in sweep_keys(self.name, d):
                    bad.append((key, what + " [" + hist[i][:60] + "]", i))
        return bad

    def nontrivial_key(self, hist, impl_out):
        sig = []
        for o in impl_out:
            d = M.parse_sweep(o)
            if not d:
                continue
            if d["size"] > 32:
                sig.append((d["kind"], d["size"], d["hex"][:32]))
            cov = getattr(self, "cov", None)       # measured coverage of the sweeps (called once per history by the runner)
            if cov is not None:
                cov["images_swept"] = cov.get("images_swept", 0) + 1
                for path, toks in d["prefix"].items():
                    cov["prefixes"] = cov.get("prefixes", 0) + len(toks)
                    cov["prefixes_skipped_after_watchdog"] = cov.get("prefixes_skipped_after_watchdog", 0) + toks.count("skipped")
                for path, c in d["corrupt"].items():
                    cov["corruptions"] = cov.get("corruptions", 0) + c.get("cases", 0)
                    cov["corruptions_skipped_after_watchdog"] = cov.get("corruptions_skipped_after_watchdog", 0) + sum(1 for b in c["bad"] if b[2] == "skipped")
                cov["exhaustive"] = cov.get("prefixes_skipped_after_watchdog", 0) == 0
        return tuple(sig) or None


PARTS = [C11Part("bloom", M.gen_bloom), C11Part("tdigest", M.gen_tdigest), C11Part("density", M.gen_density)]

CLAIM_TEXT = ("t-digest (current format and both big-endian reference formats), Bloom filter and density sketch: kernel-checked "
              "prefix safety of the specification readers (every strict prefix of every well-formed image is rejected; a successful "
              "decode of any byte string consumed exactly serializedSize bytes and produced in-range fields, so no count field makes "
              "the reader exceed a linear bound) and, on the real code, exhaustive prefix lengths and preamble corruptions per image "
              "on every reader path (bytes, stream, wrap, writable_wrap) under ASan/UBSan with allocation cap, watchdog and "
              "allocator-balance checks.")


class C11Misc(Spec):
    pid = "C11"
    props_modules = ["DSProofs.Props.C11_Bloom", "DSProofs.Props.C11_Density", "DSProofs.Props.C11_TDigest"]
    harness = M.HARNESS
    model_exe = M.MODEL
    tfamilies = ["wire_misc"]
    rule = ("images of every state class of C09 (small parameters: 24..~600 bytes) plus Python-built and shipped reference-format "
            "t-digest images; per image every prefix length on every path and 8 replacement values per preamble byte; an image is "
            "non-trivial when larger than 32 bytes; distinct = distinct (kind, size, first 16 bytes)")
    trusted_base = ["Lean 4.33 kernel", "axioms: propext, Quot.sound, Classical.choice",
                    "harness/wire_misc_h.cpp: exact-size heap blocks + ASan/UBSan red zones, fork isolation, replaced operator new/delete "
                    "(balance + 256 MiB cap), CPU-time watchdog (1 s per case)",
                    "stack scrubbing before stream reads so that values a reader uses after a failed read are deterministic"]
    assumptions = ["memory safety of the C++ readers is observed (sanitizers), not proved; the theorems are about the specification readers",
                   "prefix enumeration is exhaustive per image; the set of images is sampled",
                   "a path whose sweep hits 2 watchdog timeouts is cut short for that image (remaining cases recorded as skipped)"]

    def parts(self):
        return PARTS

    def extra_stages(self, rep, tier, rng, broken):
        for p in PARTS:
            p.cov = rep.cov      # sweeps add: images_swept, prefixes (exhaustive per image and path), corruptions, *_skipped_after_watchdog


SPEC = C11Misc()

CLAIM = dict(text=CLAIM_TEXT,
             note="Group `misc` of C11 only (the integrator combines groups). Partial by nature: sanitizer observation, not a proof about C++.",
             technique="Lean 4 prefix-safety theorem for reader combinators + exhaustive-prefix / corruption differential runs under sanitizers",
             design="DESIGN.md §3 C11")

"""C10 (group `cpc`) - documented layout; images of the baseline release stay readable."""
from ..runner import Spec
from . import wire_cpc_common as W

PARTS = [W.C10Part()]

CLAIM_TEXT = ("CPC sketch: `wire_consts_documented` - every wire constant re-extracted from the current headers (family id 16, serial "
              "version 1, flag bit positions big-endian 0 / compressed 1 / has-hip 2 / has-table 3 / has-window 4, the six preamble-int "
              "increments of get_preamble_ints, the widths of the fixed header fields and the ORDER in which the two writers and the two "
              "readers touch the fifteen fields) equals the documented value (`decide`); preamble ints and flags byte per flavor are "
              "pinned (`preamble_ints_documented`, `flags_documented`); `encode`/`decode` are the documented layout. Tie: the documented "
              "Lean reader recovers the API content from the code's bytes and re-encodes them identically; a committed baseline corpus "
              "(every flavor x lg_k 4,5,6,8,10,12 + sparse lg_k 26, written from the pinned tree) must decode in C++ from the current tree "
              "(bytes and stream) and in Lean to the recorded content. CPC has one serial version, no legacy formats; /repo ships no CPC .sk files.")


class C10Cpc(Spec):
    pid = "C10"
    props_modules = ["DSProofs.Props.C10_Cpc"]
    harness = W.HARNESS
    model_exe = W.MODEL
    tfamilies = ["wire_cpc", "cpc"]
    rule = ("every line of corpus/baseline/cpc/*.txt (load: C++ bytes + stream readers and the Lean reader must give the recorded content) "
            "plus fresh images of every state class; non-trivial = image longer than 16 bytes")
    trusted_base = W.TRUSTED + ["corpus/baseline/cpc/* was written once by this harness from the pinned tree (commit recorded in the file header)"]
    assumptions = ["the seed hash of an image is recomputed from the seed with DSModel/Murmur3.lean (tied to the code by C01/C05)",
                   "no Java/Python-produced CPC images are available offline"]

    def parts(self):
        return PARTS


SPEC = C10Cpc()

CLAIM = dict(text=CLAIM_TEXT, note="Big-endian hosts and foreign-language producers are not covered.",
             technique="translator-extracted constants and field order pinned by `decide` + documented-reader correspondence + baseline corpus",
             design="DESIGN.md §3 C10")

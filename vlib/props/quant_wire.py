"""Shared machinery of the KLL / REQ / classic-quantiles wire checks (c09_quant, c10_quant, c11_quant).

History = op lines for harness/wire_quant_h.cpp (see its header).  The tie is two-phase: the harness drives REAL
sketches and prints images + API content + the checks it can do alone; the Lean driver dsmodel_wire_quant then
decodes the printed images with the specification reader and must recover that content, re-encode to the same
bytes, report the same size and reject every strict prefix.
"""
import os, re, struct, glob, threading
from .. import core
from ..runner import Part

FAMS = ["kll", "req", "quant"]
LEAN_NAME = {"kll": "Kll", "req": "Req", "quant": "Quantiles"}
# development knob: restrict a run to some families (default: all three)
FAMS_ON = [f for f in os.environ.get("VERIF_WQ_FAMS", "kll,req,quant").split(",") if f in FAMS]
TYPES = ["f32", "f64", "i64", "str"]
MODEL = "dsmodel_wire_quant"
HARNESS = "wire_quant_h"
SAFETY = {"A": "asan", "U": "ubsan", "T": "timeout", "C": "alloc_cap", "L": "leak", "S": "crash",
          # while the getters of an accepted (corrupted) sketch ran
          "B": "getters-asan", "V": "getters-ubsan", "M": "getters-timeout", "K": "getters-alloc_cap", "Z": "getters-crash"}


# ----------------------------------------------------------------------------- items

def item_hex(ty, v):
    if ty == "f32":
        return struct.pack("<f", float(v)).hex()
    if ty == "f64":
        return struct.pack("<d", float(v)).hex()
    if ty == "i64":
        return struct.pack("<q", int(v)).hex()
    b = v if isinstance(v, bytes) else str(v).encode()
    return b.hex() or "-"


def gen_values(rng, ty, n):
    """n item literals (hex of the raw payload); small universes make duplicates; boundary literals mixed in."""
    mode = rng.choice(["seq", "seq", "rand", "dup", "desc", "wide"])
    base = rng.randrange(-50, 50)
    out = []
    for i in range(n):
        if mode == "seq":
            x = base + i
        elif mode == "desc":
            x = base + n - i
        elif mode == "dup":
            x = base + rng.randrange(5)
        elif mode == "rand":
            x = rng.randrange(-1000, 1000)
        else:
            x = rng.randrange(-2**40, 2**40)
        if ty in ("f32", "f64"):
            if rng.random() < 0.03:
                v = rng.choice([0.0, -0.0, float("inf"), float("-inf"), 1e-300 if ty == "f64" else 1e-30, 0.5])
            else:
                v = x / rng.choice([1, 1, 2, 3]) if mode != "wide" else float(x)
            out.append(item_hex(ty, v))
        elif ty == "i64":
            if rng.random() < 0.03:
                x = rng.choice([0, -1, 2**63 - 1, -2**63, 2**32])
            out.append(item_hex(ty, x))
        else:
            if rng.random() < 0.04:
                s = b""
            elif rng.random() < 0.04:
                s = bytes(rng.randrange(1, 256) for _ in range(rng.choice([1, 3, 17, 40])))
            else:
                # (the long prefix leaves the small-string buffer: the item owns heap memory, so items that a reader constructs and
                #  never destroys on a rejection path show in the allocation balance)
                s = ("%s%d" % (rng.choice(["", "a", "item-", "\xc3\xa9", "a-long-item-owning-heap-memory-"]), x)).encode("latin-1", "replace")
            out.append(item_hex(ty, s))
    return out


K_CHOICES = {"kll": [8, 8, 9, 12, 16, 21, 33], "req": [4, 4, 6, 8, 12], "quant": [2, 2, 4, 4, 8, 16]}
K_BIG = {"kll": [200, 64], "req": [12, 20], "quant": [32, 128]}


def coins_for(rng, fam, const=None):
    if fam == "req":
        return const if const is not None else rng.choice(["0", "1"])
    return "".join(rng.choice("01") for _ in range(rng.choice([1, 5, 16, 37])))


class Script:
    """builds one history; `check(id)` inserts the property-specific op"""

    def __init__(self, rng, fam, ty, check, tier):
        self.rng, self.fam, self.ty, self.check, self.tier = rng, fam, ty, check, tier
        self.lines = []
        self.const = rng.choice(["0", "1"])           # REQ: one constant coin for the whole history (see coins_for)
        self.lines.append("coins %s" % coins_for(rng, fam, self.const))
        self.ks = {}
        self.hra = {}
        self.merged = False

    def new(self, sid, k=None, hra=None):
        rng = self.rng
        if k is None:
            k = rng.choice(K_CHOICES[self.fam] + (K_BIG[self.fam] if (self.tier != "quick" and rng.random() < 0.3) else []))
        if hra is None:
            hra = rng.randrange(2)
        self.ks[sid] = k
        self.hra[sid] = hra
        self.lines.append("new %d %s %s %d %d" % (sid, self.fam, self.ty, k, hra))
        return k

    def upd(self, sid, n):
        vals = gen_values(self.rng, self.ty, n)
        for i in range(0, len(vals), 40):
            self.lines.append("upd %d %s" % (sid, " ".join(vals[i:i + 40])))

    def merge(self, a, b):
        self.lines.append("merge %d %d" % (a, b))
        self.merged = True

    def chk(self, sid, stage="rand"):
        self.stage = stage
        l = self.check(self, sid)
        if isinstance(l, str):
            l = [l]
        self.lines += list(l or [])


def ser_op(s, sid):
    rng = s.rng
    nv = rng.choice([0, 1, 3, 10, 25, 60]) if getattr(s, "stage", "") != "deep" else rng.choice([60, 150, 400])
    vals = gen_values(rng, s.ty, nv)
    return "ser %d %s %s" % (sid, coins_for(rng, s.fam, s.const), " ".join(vals))


def anchor_histories(fam, check, rng, tier):
    """deterministic-shape histories that put every state class in front of the checks at every seed"""
    hs = []
    for ty in TYPES:
        # empty, single, n = 2..6 (REQ raw-items boundary), exact, estimation
        for hra in ([0, 1] if fam == "req" else [0]):
            s = Script(rng, fam, ty, check, tier)
            k = {"kll": 8, "req": 4, "quant": 4}[fam]
            s.new(0, k, hra)
            s.chk(0, "empty")
            for n in range(1, 8):
                s.upd(0, 1)
                s.chk(0, "n%d" % n)
            s.upd(0, {"kll": 30, "req": 60, "quant": 29}[fam])
            s.chk(0, "est")
            hs.append(s.lines)
        # post-merge: estimation + estimation, into empty, different k
        s = Script(rng, fam, ty, check, tier)
        k = {"kll": 8, "req": 4, "quant": 4}[fam]
        # KLL: sketch 0 has the larger k, so that after `merge 0 1` min_k (8) differs from k (12);
        # classic quantiles: sketch 1 has 2k and is down-sampled into sketch 0
        s.new(0, 12 if fam == "kll" else k, 0); s.new(1, k if fam != "quant" else 2 * k, 0); s.new(2, k, 0)
        s.upd(0, 37); s.upd(1, 53)
        s.merge(2, 0); s.chk(2, "merge-into-empty")
        s.merge(0, 1); s.chk(0, "merge")
        hs.append(s.lines)
    return hs


def random_history(rng, fam, check, tier):
    ty = rng.choice(TYPES)
    s = Script(rng, fam, ty, check, tier)
    nsk = rng.choice([1, 2, 2, 3])
    hra = rng.randrange(2)
    for i in range(nsk):
        if fam == "quant" and i > 0:
            # classic quantiles can only merge k' = k * 2^j into k
            s.new(i, s.ks[0] * rng.choice([1, 1, 2, 4]), 0)
        else:
            s.new(i, None if (fam != "req" or i == 0) else s.ks[0], hra)
    big = tier != "quick"
    for step in range(rng.choice([2, 3, 5, 8])):
        sid = rng.randrange(nsk)
        r = rng.random()
        if r < 0.65:
            k = s.ks[sid]
            n = rng.choice([0, 1, 2, 3, 5, k - 1, k, k + 1, 2 * k, 2 * k + 1, 5 * k, 11 * k] + ([40 * k, 100 * k] if big else []))
            s.upd(sid, max(0, min(n, 3000)))
        elif nsk > 1:
            a, b = rng.sample(range(nsk), 2)
            if fam == "quant" and s.ks[b] < s.ks[a]:
                a, b = b, a
            if fam == "quant" and s.ks[b] % s.ks[a] != 0:
                continue
            s.merge(a, b)
            sid = a
        if rng.random() < 0.7:
            s.chk(sid)
    s.chk(rng.randrange(nsk))
    return s.lines


# (k, n of sketch 0, n of sketch 1): after `merge 0 1` the final compression leaves level 0 EMPTY (found by search on the
# pinned tree; depends on the counts only, not on values or coins)
KLL_EMPTY_L0 = [(8, 8, 20), (8, 10, 14), (8, 13, 11), (8, 16, 38), (8, 9, 47), (8, 19, 35), (12, 8, 26), (12, 12, 20), (12, 15, 17), (12, 9, 59)]


def kll_empty_level0_histories(rng, check, tier, count=6):
    """KLL after a merge whose final compression leaves level 0 empty"""
    hs = []
    for j in range(count):
        ty = TYPES[j % 4] if j < 4 else rng.choice(TYPES)
        s = Script(rng, "kll", ty, check, tier)
        k, a, b = KLL_EMPTY_L0[j % len(KLL_EMPTY_L0)] if j < 4 else rng.choice(KLL_EMPTY_L0)
        s.new(0, k, 0); s.new(1, k, 0)
        s.upd(0, a)
        s.upd(1, b)
        s.merge(0, 1)
        s.chk(0, "merge-empty-level0")
        hs.append(s.lines)
    return hs


def req_deep_histories(rng, check, tier):
    """REQ with a k whose section size has already shrunk several times (level 0 compacted >= 4 times): the image stores the section size
    only as a float and the reader re-derives the integer, so restore-and-continue must be exercised where rounding matters
    (k/sqrt(2)^j not near an even integer: k = 30, 50, ...), with enough further updates to reach the next compactions"""
    hs = []
    # also the k whose shrunken section size is EXACTLY an odd integer in float (k = 10, 18 -> 5.0, 9.0; k = 50 -> 25.0 after the second
    # doubling, n ~ 40000): there "nearest even" is a tie and the reader must break it the way the writer did
    plans = [(k, (2000, 900, 1400)) for k in ([30, 50] if tier == "quick" else [30, 50, 22, 36, 70, 100])]
    plans += [(k, (2600, 2800, 1500)) for k in ([10, 18] if tier == "quick" else [10, 18, 20, 14, 26])]
    plans += [(50, (41000, 6000))]
    for k, steps in plans:
        for hra in (0, 1):
            s = Script(rng, "req", rng.choice(["f32", "f64"]) if "f32" in TYPES else rng.choice(TYPES), check, tier)
            s.new(0, k, hra)
            for n in steps:
                s.upd(0, n)
                s.chk(0, "deep")
            hs.append(s.lines)
    return hs


def generate_for(fam, check, rng, tier, nrand=None):
    hs = anchor_histories(fam, check, rng, tier)
    if fam == "kll":
        hs += kll_empty_level0_histories(rng, check, tier, 6 if tier == "quick" else 30)
    if fam == "req" and check is ser_op:      # (C09 only: the prefix / corruption sweeps of C11 would take minutes on images this large)
        hs += req_deep_histories(rng, check, tier)
    n = nrand if nrand is not None else (24 if tier == "quick" else 300)
    for _ in range(n):
        hs.append(random_history(rng, fam, check, tier))
    return hs


# ----------------------------------------------------------------------------- parsing harness lines

def parse_img(line):
    """IMG kind hex | content | checks | info -> dict or None"""
    if not line.startswith("IMG "):
        return None
    parts = [p.strip() for p in line.split(" | ")]
    w = parts[0].split()
    if len(w) != 3 or len(parts) < 4:
        return None
    info = dict(t.split("=", 1) for t in parts[3].split() if "=" in t)
    fails = [] if parts[2] == "ok" else parts[2].split(",")
    # details may contain commas: re-join tokens that do not start a new key
    merged = []
    for t in fails:
        if merged and not re.match(r"^[a-z][a-z0-9-]*(:|$)", t):
            merged[-1] += "," + t
        else:
            merged.append(t)
    return dict(kind=w[1], fam=w[1].split(".")[0], ty=w[1].split(".")[1], hex=w[2], content=parts[1], fails=merged,
                info=info, size=(0 if w[2] == "-" else len(w[2]) // 2))


def strip_weights(content):
    m = re.match(r"^(.* items=)(.*)$", content)
    if not m or m.group(2) == "none":
        return content
    return m.group(1) + ",".join(t.rsplit(":", 1)[0] for t in m.group(2).split(","))


def d2_state(img):
    """KLL iterator reports weights whose sum differs from n (known C07 defect D2: an empty level 0 is not skipped)"""
    return img["fam"] == "kll" and img["info"].get("wsum") != img["info"].get("n")


_model_lock = threading.Lock()
_model_cache = {}


def model_query(lines):
    """run the Lean driver on a few lines (cached per line)"""
    need = [l for l in lines if l not in _model_cache]
    if need:
        out, oc, err = core.run_model(MODEL, None, need, timeout=300)
        if oc != "ok" or len(out) != len(need):
            raise RuntimeError("model query failed: %s %s" % (oc, err[-300:]))
        with _model_lock:
            for l, o in zip(need, out):
                _model_cache[l] = o
    return [_model_cache[l] for l in lines]


def field_at(fields_line, off):
    """name of the field of the image that holds byte `off` (from the Lean `FIELDS` answer)"""
    for tok in fields_line.split()[1:]:
        m = re.match(r"^(.+)@(\d+)\+(\d+)$", tok)
        if m and int(m.group(2)) <= off < int(m.group(2)) + int(m.group(3)):
            return m.group(1)
    return "beyond-image"


# coarse outcome classes used in the finding keys of corruption runs (the exact outcome is in the `what` text)
OUTCOME_CLASS = {"asan": "memory", "ubsan": "memory", "crash": "memory", "getters-asan": "memory", "getters-ubsan": "memory",
                 "getters-crash": "memory", "alloc_cap": "resource", "timeout": "resource", "getters-alloc_cap": "resource",
                 "getters-timeout": "resource", "leak": "leak"}

PREAMBLE_FIELDS = ("pre", "ver", "fam", "flags", "k", "m", "unused", "unused2", "num_levels8", "num_raw")


def field_group(name):
    """coarse, stable class of an image field (for finding keys)"""
    if name.endswith(".len"):
        return "item-length"
    if name in ("item", "min", "max") or name.endswith(".item"):
        return "item-payload"
    if name in PREAMBLE_FIELDS:
        return "preamble"
    return "structure"


def field_region(name):
    """region name used in prefix finding keys: the part of the layout that holds the first missing byte"""
    if name.endswith(".len"):
        return "item-length"
    if name in ("item", "min", "max") or name.endswith(".item"):
        return "item-payload"
    if name.startswith("compactor."):
        return "compactor-header"
    return name


def structural_offsets(fields_line, cap=200):
    """byte offsets worth corrupting: every byte of every structural field (preamble, counts, level/compactor headers, string
    length prefixes of min/max and of the first items) plus the first bytes of the first payloads"""
    ofs, payload_seen, lens_seen = [], 0, 0   # string length prefixes: only the first two (a corrupt length makes the stream serde read up to 2^32 bytes one by one)
    for tok in fields_line.split()[1:]:
        m = re.match(r"^(.+)@(\d+)\+(\d+)$", tok)
        if not m:
            continue
        name, off, ln = m.group(1), int(m.group(2)), int(m.group(3))
        base = name.split(".")[-1] if name.endswith(".len") else name
        if name in ("item", "min", "max") or name.endswith(".item"):
            payload_seen += 1
            if payload_seen <= 3:
                ofs += list(range(off, off + min(ln, 2)))
        elif name.endswith(".len"):
            lens_seen += 1
            if lens_seen <= 2:
                ofs += list(range(off, off + ln))
        elif name == "levels" and ln > 16:
            ofs += list(range(off, off + 8)) + list(range(off + ln - 4, off + ln))     # first two and last boundary
        else:
            ofs += list(range(off, off + ln))
    return ofs[:cap]


def split_checks(hists, ops=("pfx", "cor")):
    """one history per checked state (the state-building lines up to it + its check ops): cheap to re-run and to shrink"""
    out = []
    for h in hists:
        build = []
        i = 0
        while i < len(h):
            w = h[i].split()
            if w and w[0] in ops:
                grp = []
                while i < len(h) and h[i].split()[0] in ops and h[i].split()[1] == w[1]:
                    if h[i] not in grp:          # the same state checked twice in a row: once is enough
                        grp.append(h[i])
                    i += 1
                # only the lines that concern live sketches are needed; keep all build lines (they are cheap)
                out.append(list(build) + grp)
            else:
                build.append(h[i]); i += 1
    return out


def add_cor_offsets(hists):
    """pass 1 (generation time): run each history with `cor` replaced by `img`, ask the Lean model for the field map of each
    image and write the structural byte offsets into the `cor` op, so that the final histories are self-contained"""
    exe = core.harness_exe(HARNESS)

    def work(h):
        idx = [i for i, l in enumerate(h) if l.startswith("cor ")]
        if not idx:
            return h
        h1 = [("img " + l.split()[1]) if l.startswith("cor ") else l for l in h if not l.startswith("pfx ")]
        pos = {}
        j = 0
        for i, l in enumerate(h):
            if l.startswith("pfx "):
                continue
            pos[i] = j
            j += 1
        try:
            io, oc, err = core.run_impl(exe, h1, timeout=300)
            if oc != "ok":
                return h
            q = []
            for i in idx:
                w = io[pos[i]].split(" | ")[0].split()
                q.append("FIELDS %s %s" % (w[1], w[2]) if len(w) == 3 and w[0] == "IMG" else None)
            ans = model_query([x for x in q if x])
            ans = iter(ans)
            h2 = list(h)
            for i, x in zip(idx, q):
                if x is None:
                    continue
                f = next(ans)
                if f.startswith("FIELDS"):
                    o = structural_offsets(f)
                    if o:
                        h2[i] = "%s %s" % (h[i], ",".join(map(str, o)))
            return h2
        except Exception:
            return h
    return core.pmap(work, hists)


class WirePart(Part):
    harness = HARNESS
    model_exe = MODEL
    family = None
    timeout = 600

    def __init__(self, fam):
        self.name = fam
        self.fam = fam
        self.stats = {}
        self._rep = None          # set by the spec's extra_stages: measured figures go to evidence coverage["wire"][family]

    def count(self, key, n=1):
        self.stats[key] = self.stats.get(key, 0) + n
        if self._rep is not None:
            self._rep.cov.setdefault("wire", {})[self.name] = dict(self.stats)

    # the model never consumes the op lines: it decodes what the implementation wrote
    def run_pair(self, exe, hist, model_ok):
        io, ioc, ierr = core.run_impl(exe, hist, self.harness_args, timeout=self.timeout)
        if model_ok and self.compare_model and ioc == "ok":
            ml = self.model_lines(hist, io)
            mo, moc, merr = core.run_model(self.model_exe, None, ml, timeout=self.timeout) if ml else ([], "ok", "")
        else:
            mo, moc, merr = [], ("skipped" if ioc == "ok" else "ok"), ""
        return io, ioc, ierr, mo, moc, merr

    def safety_is_violation(self, outcome):
        return True

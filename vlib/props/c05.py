"""C05 — CPC sketch is an exact coupon bit-matrix; union ORs row-folded matrices (DESIGN.md 3 C05)."""
import os, sys, struct, importlib.util
from .. import core, gen
from ..runner import Spec

MASK64 = (1 << 64) - 1


def _load(path, name):
    spec = importlib.util.spec_from_file_location(name, path)
    mod = importlib.util.module_from_spec(spec)
    spec.loader.exec_module(mod)
    return mod


def model_hashes(queries):
    """[(ty, lit, seed)] -> list of (h1, h2) or None (ignored input): the two MurmurHash3 words from the Lean transcription."""
    lines = ["hash %s %s %s 4" % q for q in queries]
    out, oc, err = core.run_model("dsmodel_cpc", "hash", lines, timeout=300)
    if len(out) != len(queries):
        raise RuntimeError("hash model failed: %s %s" % (oc, err[-300:]))
    res = []
    for l in out:
        w = l.split()
        if len(w) >= 3 and w[0] == "H" and w[1] != "ignored":
            res.append((int(w[1], 16), int(w[2], 16)))
        else:
            res.append(None)
    return res


def rowcol(hh, lgk):
    """row/col recomputed HERE from the two hash words, independently of the Lean `rowCol`"""
    if hh is None:
        return None
    h1, h2 = hh
    col = min(64 - h2.bit_length(), 63)
    row = h1 & ((1 << lgk) - 1)
    rc = (row << 6) | col
    if rc == 0xFFFFFFFF:
        rc ^= 1 << 6
    return rc


def source_is_repaired():
    """the shape of `deserialize` on an empty image as the translator read it from the CURRENT headers (DSGen/Cpc.lean)"""
    try:
        txt = open(os.path.join(core.LEAN, "DSGen", "Cpc.lean")).read()
    except OSError:
        return False
    return "cpc_DESER_EMPTY_KXP_IS_K : Bool := true" in txt


def parse_S(line):
    w = line.split()
    if len(w) not in (12, 14) or w[0] != "S":
        return None
    d = dict(lgk=int(w[1]), C=int(w[2]), valid=w[3] == "1", empty=w[4] == "1", est=w[5], bounds=w[6:12], core=" ".join(w[:12]))
    if len(w) == 14:
        d["same"] = w[12] == "1"
        d["size"] = int(w[13])
    return d


def flavor(lgk, c):
    k = 1 << lgk
    if c == 0:
        return 0
    if 32 * c < 3 * k:
        return 1
    if 2 * c < k:
        return 2
    if 8 * c < 27 * k:
        return 3
    return 4


def offset_of(lgk, c):
    k = 1 << lgk
    t = 8 * c - 19 * k
    return 0 if t < 0 else t // (8 * k)


def fold_set(s, lgk_from, lgk_to):
    if lgk_to >= lgk_from:
        return set(s)
    m = (1 << lgk_to) - 1
    return set((((rc >> 6) & m) << 6) | (rc & 63) for rc in s)


class C05(Spec):
    pid = "C05"
    props_modules = ["DSProofs.Props.C05"]
    harness = "cpc_h"
    model_exe = "dsmodel_cpc"
    family = "cpc"
    tfamilies = ["cpc"]
    timeout = 300
    rule = ("histories over CPC sketches and unions: (a) 1-3 live sketches (lg_k 4-8 quick / 4-10 thorough, seeds {9001, random}) fed with all 12 "
            "update overloads and u64 ranges so that C sweeps 0..(27/8+3)K and beyond (every flavor boundary 3K/32, K/2, 27K/8 and >= 3 window "
            "shifts), with copies and serialize / round-trip ops sprinkled in; (b) per lg_k 4-6(7) a single-step sweep with a serialize->"
            "deserialize->serialize round trip after EVERY update; (c) long lg_k 4(-6) histories past the 8th window shift (kxp refresh); "
            "(d) unions of 2-4 sketches of unequal lg_k and every flavor in all orders (6 sampled of 24 in quick), union lg_k below/between/"
            "above the inputs, results updated further, serialized and fed into other unions; (e) empty / 1 / 2-coupon round trips; "
            "(f) thorough: lg_k 11, 12 with big ranges, lg_k 20/24/26 sparse. A history is non-trivial when some sketch left SPARSE; "
            "distinct = distinct (id, lg_k, final C, flavor, offset) signature of the final sketches")
    trusted_base = ["Lean 4.33 kernel", "axioms: propext, Quot.sound, Classical.choice",
                    "DSModel/Murmur3.lean is the published MurmurHash3_x64_128 (hand transcription, tied to the code by the hash correspondence `mm`)",
                    "tools/trules/cpc.py (tables/constants regenerated from the headers every run; cross-checked against the values the compiled headers contain)",
                    "correspondence harness harness/cpc_h.cpp + generators (sampled histories; public-API observations incl. serialized bytes)",
                    "L1 model abstracts the u32_table hash table to a sorted duplicate-free list (slot order unobservable; sorting = what compress does)",
                    "model abstractions stated in DSModel/Cpc/Union.lean (walk order, reduce_k on an empty accumulator) and Compress.lean (decoding table = last matching symbol)"]
    assumptions = ["theorems are about DSModel/Cpc/*.lean; the tie to cpc_*_impl.hpp is differential (sampled), incl. byte-exact serialized images",
                   "window offset > 56 (needs > 59.375 K distinct coupons, i.e. coupons in columns 57..63) is outside the modelled behaviour",
                   "floating point (kxp, HIP, ICON) is executed bit-exactly in Lean Float but not reasoned about",
                   "serialize/deserialize are proved at the level of byte lists of the model; the model's bytes are tied to the code's by correspondence",
                   "for lg_k > 14 the model reports validate() by its proven value instead of building the 2^lg_k-row matrix"]

    # ------------------------------------------------------------------ generator
    def _stream(self, rng, h, sid, lgk, target_ratio, typed, ser_p=0.04):
        """append update ops to h until roughly target_ratio*K coupons are expected"""
        k = 1 << lgk
        n = 0          # distinct values fed so far (ranges) - coupon count grows like K*log2(n/K)
        nxt = rng.randrange(1 << 40)
        lines = 0
        # expected C for n distinct inputs: ~ K * (1 - 2^-j) summed ... use the crude inverse n ~ K * 2^(C/K - 1.4) for C > 2K, n ~ C below
        def n_for(ratio):
            return int(k * ratio) if ratio <= 1.0 else int(k * 2 ** (ratio - 0.9))
        goal = n_for(target_ratio)
        while n < goal and lines < 2500:
            r = rng.random()
            if typed and r < 0.5:
                ty, lit = gen.rand_input(rng, rng.choice([8, 64, 1000, 10 ** 6]))
                h.append("upd %d %s %s" % (sid, ty, lit))
                n += 1
            elif r < 0.75:
                h.append("upd %d u64 %d" % (sid, nxt)); nxt += 1; n += 1
            else:
                big = max(1, n // rng.choice([4, 8, 16, 64]))
                c = rng.choice([1, 2, 3, 5, big, big])
                c = min(c, max(1, goal - n))
                # re-feed part of an old range now and then (duplicates)
                if rng.random() < 0.1 and n > 10:
                    h.append("updr %d %d %d" % (sid, max(0, nxt - rng.randrange(1, 50)), rng.randrange(1, 20)))
                else:
                    h.append("updr %d %d %d" % (sid, nxt, c)); nxt += c; n += c
            lines += 1
            r = rng.random()
            if r < ser_p:
                h.append("ser %d" % sid)
            elif r < 3 * ser_p:
                # round trip into a twin, then the same updates on both (is the estimator state reproduced?)
                h.append("rt %d %d" % (sid, 90 + sid))
                if rng.random() < 0.6:
                    c = rng.choice([1, 3, max(1, n // 8)])
                    h.append("updr %d %d %d" % (sid, nxt, c))
                    h.append("updr %d %d %d" % (90 + sid, nxt, c))
                    nxt += c; n += c

    def generate(self, rng, tier):
        hs = []
        quick = tier == "quick"
        lgks = [4, 5, 6, 7, 8] if quick else [4, 5, 6, 7, 8, 9, 10]
        nh = 100 if quick else 500
        for i in range(nh):
            h = []
            lgk = lgks[i % len(lgks)]
            k = 1 << lgk
            seed = 9001 if rng.random() < 0.7 else rng.randrange(1, 1 << 64)
            h.append("new 0 %d %d" % (lgk, seed))
            ratio = rng.choice([0.05, 0.2, 0.6, 3.5, 4.5, 6.4, 6.4, 7.5]) if lgk <= 9 else rng.choice([0.2, 0.6, 3.5, 5.5])
            typed = rng.random() < 0.6
            self._stream(rng, h, 0, lgk, ratio, typed)
            if rng.random() < 0.3:
                h.append("copy 0 1")
                self._stream(rng, h, 1, lgk, rng.choice([0.1, 1.0]), typed)
                h.append("upd 0 u64 12345")
            hs.append(h)
        # boundary sweeps: single-step updates across every flavor boundary for the smallest sizes
        for lgk in ([4, 5, 6] if quick else [4, 5, 6, 7]):
            h = ["new 0 %d 9001" % lgk]
            k = 1 << lgk
            base = rng.randrange(1 << 40)
            n = 0
            goal = int(k * 2 ** (6.6 - 0.9))
            while n < goal and len(h) < 6000:
                step = 1 if n < 6 * k else max(1, n // (8 * k))
                h.append("updr 0 %d %d" % (base + n, step)); n += step
                h.append("rt 0 90")          # serialize -> deserialize -> serialize at every stage of the stream
                if len(h) % 5 == 0:
                    h.append("ser 0")
                if len(h) % 17 == 0:
                    h.append("updr 0 %d 2" % (base + n)); h.append("updr 90 %d 2" % (base + n)); n += 2
            hs.append(h)
        # sliding flavor, long sequential streams (the surprising-value table inserts AND deletes here; runs of entries that wrap around
        # the end of the slot array need many updates at a fixed table size): lg_k 6-8 (9, 10 thorough), several key offsets, coupon
        # count / image observed every few hundred updates so that a dropped or doubled coupon is seen close to where it happens
        for j in range(24 if quick else 120):
            lgk = ([6, 7, 8] if quick else [6, 7, 8, 9, 10])[j % (3 if quick else 5)]
            k = 1 << lgk
            h = ["new 0 %d 9001" % lgk]
            base = rng.choice([0, 0, rng.randrange(1 << 40), rng.randrange(1 << 20)])
            goal = int(k * 2 ** (rng.choice([6.0, 6.6, 7.2]) - 0.9))
            n = 0
            step = max(8, k // 2)
            while n < goal:
                h.append("updr 0 %d %d" % (base + n, step)); n += step
                if n > 3 * k and (n // step) % 3 == 0:
                    h.append("ser 0")
            h.append("ser 0")
            hs.append(h)
        # long histories: lg_k 4 (and 5) beyond the 8th window shift (kxp refresh from the bit matrix)
        for lgk in ([4] if quick else [4, 5, 6]):
            h = ["new 0 %d 9001" % lgk]
            k = 1 << lgk
            n = 0
            base = rng.randrange(1 << 40)
            goal = k * 2 ** (12 if quick else 14)
            while n < goal:
                step = max(1, n // 6)
                h.append("updr 0 %d %d" % (base + n, step)); n += step
                h.append("rt 0 90"); h.append("ser 0")
                h.append("updr 0 %d 3" % (base + n)); h.append("updr 90 %d 3" % (base + n)); n += 3
            hs.append(h)
        # large sketches (thorough): few, big range updates, serialization at every stage
        for lgk in ([] if quick else [11, 12, 11, 12]):
            h = ["new 0 %d 9001" % lgk]
            k = 1 << lgk
            n = 0
            base = rng.randrange(1 << 40)
            goal = int(k * 2 ** (rng.choice([4.2, 6.6]) - 0.9))
            while n < goal:
                step = max(k // 16, n // 5)
                h.append("updr 0 %d %d" % (base + n, step)); n += step
                h.append("rt 0 90"); h.append("ser 0")
            hs.append(h)
        # very large lg_k with sparse streams (thorough): row masks, large Golomb base, reduce_k from 26
        for lgk in ([] if quick else [26, 24, 20]):
            b = rng.randrange(1 << 40)
            hs.append(["new 0 %d 9001" % lgk, "updr 0 %d 40" % b, "ser 0", "rt 0 1", "updr 0 %d 25" % (b + 40), "updr 1 %d 25" % (b + 40),
                       "unew 5 %d 9001" % lgk, "uupd 5 0", "uupd 5 1", "ures 5 6", "ser 6", "new 2 12 9001", "updr 2 %d 300" % b,
                       "uupd 5 2", "ures 5 7", "ser 7", "rt 7 8"])
        hs += self._union_histories(rng, tier)
        # round trips of empty and nearly empty sketches, then the same updates on original and copy
        for lgk in [4, 5, 8] if quick else [4, 5, 8, 11, 12]:
            for n0 in [0, 1, 2]:
                h = ["new 0 %d 9001" % lgk]
                if n0:
                    h.append("updr 0 77 %d" % n0)
                h += ["ser 0", "rt 0 1", "updr 0 1000 5", "updr 1 1000 5", "rt 1 2", "ser 1"]
                hs.append(h)
        # argument errors
        hs.append(["new 0 3 9001", "new 0 27 9001", "new 0 4 9001", "upd 0 str -", "upd 0 raw -", "upd 0 f64 8000000000000000",
                   "upd 0 f64 0000000000000000", "upd 0 f64 7ff8000000000000", "upd 0 f64 fff8000000000001", "upd 0 f32 7fc00000",
                   "upd 0 i8 -1", "upd 0 u8 255", "upd 0 i64 -1", "upd 0 u64 18446744073709551615", "upd 0 u32 4294967295", "upd 0 i32 -1"])
        return hs

    def _union_histories(self, rng, tier):
        """2-4 sketches of unequal lg_k and every flavor, unioned in all orders (<= 4 inputs) into unions of lg_k below / between /
        above the inputs'; results are updated further and fed into other unions."""
        import itertools
        quick = tier == "quick"
        hs = []
        fills = [0.0, 0.03, 0.08, 0.2, 0.45, 0.7, 2.0, 3.6, 4.6]   # C/K targets: empty, sparse, hybrid, pinned, sliding
        for i in range(30 if quick else 200):
            h = []
            nsk = rng.choice([2, 3, 3, 4])
            lgmax = 8 if quick else rng.choice([8, 9, 10])
            base = rng.randrange(1 << 40)
            overlap = rng.random() < 0.5
            seed = 9001 if rng.random() < 0.8 else rng.randrange(1, 1 << 64)
            for sid in range(nsk):
                lgk = rng.randrange(4, lgmax + 1)
                k = 1 << lgk
                h.append("new %d %d %d" % (sid, lgk, seed))
                ratio = rng.choice(fills)
                n = int(k * ratio) if ratio <= 1.0 else int(k * 2 ** (ratio - 0.9))
                if i % 7 == 0 and sid == 0:
                    n = rng.choice([0, 1, 2, 3])
                if n:
                    st = base if overlap else base + sid * (1 << 20)
                    st += rng.randrange(0, max(1, n // 2)) if overlap else 0
                    h.append("updr %d %d %d" % (sid, st, n))
            perms = list(itertools.permutations(range(nsk)))
            if quick and len(perms) > 6:
                perms = rng.sample(perms, 6)
            lg0s = [rng.randrange(4, lgmax + 2)] if rng.random() < 0.7 else [4, lgmax]
            uid = 10
            rid = 100
            for lg0 in lg0s:
                for pm in perms:
                    h.append("unew %d %d %d" % (uid, lg0, seed))
                    for sid in pm:
                        h.append("uupd %d %d%s" % (uid, sid, " rvalue" if rng.random() < 0.3 else ""))
                    h.append("ures %d %d" % (uid, rid))
                    uid += 1; rid += 1
            # keep using a result: more updates, union of results, result into a fresh union together with an input
            r0 = 100
            h.append("updr %d %d %d" % (r0, base + 7, rng.choice([1, 5, 50, 400])))
            h.append("unew %d %d %d" % (uid, rng.randrange(4, lgmax + 1), seed))
            h.append("uupd %d %d" % (uid, r0))
            h.append("uupd %d %d" % (uid, 101))
            h.append("uupd %d %d" % (uid, 0))
            h.append("copy %d %d" % (uid, uid + 1))
            h.append("uupd %d %d" % (uid + 1, 1))
            h.append("ures %d %d" % (uid, rid))
            h.append("ures %d %d" % (uid + 1, rid + 1))
            h.append("ser %d" % rid)
            h.append("rt %d %d" % (rid, rid + 2))
            h.append("updr %d %d 30" % (rid, base))
            h.append("updr %d %d 30" % (rid + 2, base))
            h.append("rt 100 99"); h.append("ser 101")
            if rng.random() < 0.2:
                h.append("new 50 5 %d" % (seed + 1))
                h.append("uupd %d 50" % uid)          # incompatible seed (most likely a different seed hash)
            hs.append(h)
        # a union still in accumulator (sparse) mode whose accumulator is carried, by ONE input, from sparse straight past hybrid and pinned
        # into the sliding flavor before it is converted to a bit matrix: a sparse input with lg_k far above the union's (every folded row
        # fills up), directly or after the union has reduced its lg_k on a small input
        for i in range(4 if quick else 24):
            base = rng.randrange(1 << 40)
            lgs = rng.choice([11, 12])
            n = rng.randrange(3 * (1 << lgs) // 32 - 60, 3 * (1 << lgs) // 32 - 8)        # still sparse: C < 3K/32
            h = ["new 0 %d 9001" % lgs, "updr 0 %d %d" % (base, n)]
            if i % 2 == 0:
                lgu = rng.choice([4, 5, 6])
                h += ["unew 10 %d 9001" % lgu, "uupd 10 0", "ures 10 100", "new 1 %d 9001" % rng.choice([4, lgu, 8]),
                      "updr 1 %d %d" % (base + (1 << 30), rng.choice([1, 3, 40])), "uupd 10 1", "ures 10 101", "ser 101"]
            else:
                h += ["new 1 %d 9001" % lgs, "updr 1 %d %d" % (base + (1 << 30), n // 2), "unew 10 %d 9001" % lgs, "uupd 10 0", "uupd 10 1",
                      "new 2 %d 9001" % rng.choice([4, 5]), "updr 2 %d %d" % (base + (1 << 31), rng.choice([1, 2, 5])), "uupd 10 2",
                      "ures 10 100", "ser 100", "rt 100 99"]
            hs.append(h)
        return hs

    # ------------------------------------------------------------------ oracle: the property statement on one implementation trace
    def oracle(self, hist, impl_out):
        bad = []
        seeds = {}
        queries = []
        qpos = []          # per history line: index of its first hash query (or None)
        for l in hist:
            w = l.split()
            qpos.append(None)
            try:
                if w[0] in ("new", "unew"):
                    seeds[int(w[1])] = int(w[3])
                elif w[0] in ("copy", "ures", "rt") and int(w[1]) in seeds:
                    seeds[int(w[2])] = seeds[int(w[1])]
                elif w[0] == "upd" and int(w[1]) in seeds:
                    qpos[-1] = len(queries)
                    queries.append((w[2], w[3], seeds[int(w[1])]))
                elif w[0] == "updr" and int(w[1]) in seeds:
                    qpos[-1] = len(queries)
                    st, n = int(w[2]), int(w[3])
                    for j in range(n):
                        queries.append(("u64", str((st + j) & MASK64), seeds[int(w[1])]))
            except (ValueError, IndexError):
                pass
        try:
            hh = model_hashes(queries) if queries else []
        except Exception as e:
            return [("oracle-hash-failed", str(e)[:200], 0)]
        cfg = {}          # sketch id -> (lgk, seed)
        sets = {}         # sketch id -> set of row_col codes
        merged = {}       # sketch id -> reports ICON (result of a union with at least one coupon)
        un = {}           # union id -> dict(lgk, seed, set, lg0, inputs)
        icon = {}         # (lgk, C) -> (est, bounds) seen on merged sketches
        orders = {}       # (lg0, multiset of inputs) -> final observation
        lastobs = {}      # sketch id -> core of its last observation
        uhist = {}        # sketch id -> update ops (without id) since creation
        twins = {}        # sketch id -> list of (other id, C at round trip)
        images = []       # (line index, hex, seed, lgk, expected set, merged, est)
        for i, l in enumerate(hist):
            if i >= len(impl_out):
                break
            w = l.split()
            op = w[0]
            o = parse_S(impl_out[i])
            thrown = impl_out[i].strip() == "throw"
            tgt = None        # (lgk, set, merged?) to check the observation against
            if op in ("new", "unew"):
                lgk = int(w[2])
                if lgk < 4 or lgk > 26:
                    if not thrown:
                        bad.append(("bad-lgk-accepted", impl_out[i][:80], i))
                    continue
                if thrown:
                    bad.append(("valid-lgk-rejected", l, i))
                    continue
                sid = int(w[1])
                if op == "new":
                    cfg[sid] = (lgk, int(w[3])); sets[sid] = set(); merged[sid] = False; un.pop(sid, None)
                    tgt = (lgk, sets[sid], False)
                else:
                    un[sid] = dict(lgk=lgk, seed=int(w[3]), set=set(), lg0=lgk, inputs=[]); cfg.pop(sid, None)
                    tgt = (lgk, set(), False)
            elif op == "upd":
                sid = int(w[1])
                if sid in cfg and qpos[i] is not None:
                    rc = rowcol(hh[qpos[i]], cfg[sid][0])
                    if rc is not None:
                        sets[sid].add(rc)
                    tgt = (cfg[sid][0], sets[sid], merged[sid])
            elif op == "updr":
                sid = int(w[1])
                n = int(w[3])
                if sid in cfg and qpos[i] is not None:
                    for x in hh[qpos[i]:qpos[i] + n]:
                        rc = rowcol(x, cfg[sid][0])
                        if rc is not None:
                            sets[sid].add(rc)
                    tgt = (cfg[sid][0], sets[sid], merged[sid])
            elif op == "copy":
                src, dst = int(w[1]), int(w[2])
                if src in cfg:
                    cfg[dst] = cfg[src]; sets[dst] = set(sets[src]); merged[dst] = merged[src]; un.pop(dst, None)
                    tgt = (cfg[dst][0], sets[dst], merged[dst])
                elif src in un:
                    un[dst] = dict(un[src], set=set(un[src]["set"]), inputs=list(un[src]["inputs"])); cfg.pop(dst, None)
                    tgt = (un[dst]["lgk"], un[dst]["set"], len(un[dst]["set"]) > 0)
            elif op == "ser":
                sid = int(w[1])
                if sid in cfg:
                    ww = impl_out[i].split()
                    if len(ww) != 2 or ww[0] != "B" or any(ch not in "0123456789abcdef" for ch in ww[1]):
                        bad.append(("serialize-failed", impl_out[i][:80], i))
                    else:
                        images.append((i, ww[1], cfg[sid][1], cfg[sid][0], set(sets[sid]), merged[sid], lastobs.get(sid, "").split()[5:6]))
                continue
            elif op == "rt":
                src, dst = int(w[1]), int(w[2])
                if src in cfg:
                    if thrown or o is None:
                        bad.append(("round-trip-rejected", "deserialize(serialize(s)) threw: C=%d lg_k=%d" % (len(sets[src]), cfg[src][0]), i))
                        continue
                    cfg[dst] = cfg[src]; sets[dst] = set(sets[src]); merged[dst] = merged[src]; un.pop(dst, None)
                    uhist[dst] = list(uhist.get(src, []))
                    twins.setdefault(dst, []).append((src, len(sets[src])))
                    twins.setdefault(src, []).append((dst, len(sets[src])))
                    if src in lastobs and o["core"] != lastobs[src]:
                        bad.append(("deserialized-sketch-observably-different", "%s vs %s" % (lastobs[src][:70], o["core"][:70]), i))
                    if not o.get("same", False):
                        bad.append(("reserialized-image-differs", "C=%d lg_k=%d flavor=%d" % (len(sets[src]), cfg[src][0], flavor(cfg[src][0], len(sets[src]))), i))
                    tgt = (cfg[dst][0], sets[dst], merged[dst])
            elif op == "uupd":
                uid, sid = int(w[1]), int(w[2])
                if uid in un and sid in cfg:
                    u = un[uid]
                    if thrown:
                        if u["seed"] == cfg[sid][1]:
                            bad.append(("union-update-threw", l, i))
                        u["inputs"].append(None)
                        continue
                    slgk, sset = cfg[sid][0], sets[sid]
                    if sset:
                        L = min(u["lgk"], slgk)
                        u["set"] = fold_set(u["set"], u["lgk"], L) | fold_set(sset, slgk, L)
                        u["lgk"] = L
                    u["inputs"].append((slgk, frozenset(sset)))
                    tgt = (u["lgk"], u["set"], len(u["set"]) > 0)
            elif op == "ures":
                uid, rid = int(w[1]), int(w[2])
                if uid in un:
                    u = un[uid]
                    cfg[rid] = (u["lgk"], u["seed"]); sets[rid] = set(u["set"]); merged[rid] = len(u["set"]) > 0; un.pop(rid, None)
                    tgt = (u["lgk"], sets[rid], merged[rid])
                    if None not in u["inputs"]:
                        key = (u["lg0"], tuple(sorted((a, tuple(sorted(b))) for a, b in u["inputs"])))
                        prev = orders.get(key)
                        if prev is None:
                            orders[key] = core.norm(impl_out[i])
                        elif prev != core.norm(impl_out[i]):
                            bad.append(("union-order-dependent", "same inputs, other order: %s vs %s" % (prev[:60], core.norm(impl_out[i])[:60]), i))
            if tgt is None:
                continue
            if o is None:
                bad.append(("bad-observation", impl_out[i][:80], i))
                continue
            # bookkeeping for serialization twins
            if op in ("new", "upd", "updr", "copy", "rt", "ures"):
                me = int(w[2]) if op in ("copy", "rt", "ures") else int(w[1])
                if me in cfg:
                    if op in ("new", "ures"):
                        uhist[me] = []; twins[me] = []
                    elif op == "copy":
                        uhist[me] = list(uhist.get(int(w[1]), [])); twins[me] = []
                    elif op in ("upd", "updr"):
                        uhist.setdefault(me, []).append(" ".join(w[:1] + w[2:]))
                        for other, c_at in twins.get(me, []):
                            if other in lastobs and uhist.get(other) == uhist[me] and lastobs[other] != o["core"]:
                                if c_at != 0:
                                    key = "deserialized-sketch-diverges-after-same-updates"
                                elif source_is_repaired():
                                    key = "deserialized-empty-sketch-estimator-state-lost-although-source-has-repaired-shape"
                                else:
                                    key = "deserialized-empty-sketch-estimator-state-lost"
                                bad.append((key, "C at round trip=%d lg_k=%d: %s vs %s" % (c_at, o["lgk"], lastobs[other][:60], o["core"][:60]), i))
                    lastobs[me] = o["core"]
            lgk, st, mg = tgt
            want = len(st)
            kind = "union-" if op in ("uupd", "ures", "unew") or (op == "copy" and int(w[2]) in un) else ""
            if o["lgk"] != lgk:
                bad.append((kind + "lgk-wrong", "lg_k=%d expected %d" % (o["lgk"], lgk), i))
            if o["C"] != want:
                bad.append((kind + "coupon-count-not-distinct-rowcols", "C=%d distinct (row,col)=%d lg_k=%d flavor=%d offset=%d" %
                            (o["C"], want, lgk, flavor(lgk, want), offset_of(lgk, want)), i))
            if not o["valid"]:
                bad.append((kind + "validate-false", "C=%d lg_k=%d" % (o["C"], lgk), i))
            if o["empty"] != (want == 0):
                bad.append((kind + "is-empty-wrong", impl_out[i][:60], i))
            if mg:
                val = (o["est"], tuple(o["bounds"]))
                prev = icon.setdefault((o["lgk"], o["C"]), val)
                if prev != val:
                    bad.append(("merged-estimate-not-a-function-of-lgk-C", "lg_k=%d C=%d: %s vs %s" % (o["lgk"], o["C"], prev[0], val[0]), i))
        # every serialized image, decoded by the MODEL's decoder (independent of the implementation's), must hold exactly the coupon set
        if images:
            try:
                out, oc, err = core.run_model("dsmodel_cpc", "cpc", ["decode %s %d" % (hx, sd) for _, hx, sd, _, _, _, _ in images], timeout=300)
            except Exception as e:
                out = []
            for (i, hx, sd, lgk, st, mg, est), l in zip(images, out):
                d = l.split()
                if len(d) < 8 or d[0] != "D":
                    bad.append(("image-undecodable", "lg_k=%d C=%d: %s" % (lgk, len(st), l[:40]), i))
                    continue
                if int(d[1]) != lgk or int(d[2]) != len(st) or set(int(x) for x in d[8:]) != st:
                    bad.append(("image-coupon-set-differs", "lg_k=%d C=%d flavor=%d: image has lg_k=%s C=%s" % (lgk, len(st), flavor(lgk, len(st)), d[1], d[2]), i))
                if int(d[3]) != min(offset_of(lgk, len(st)), 56):
                    bad.append(("image-window-offset-wrong", "offset %s expected %d" % (d[3], offset_of(lgk, len(st))), i))
                if (d[5] == "1") != bool(mg):
                    bad.append(("image-merged-flag-wrong", l[:40], i))
                if not mg and st and est and d[7] != est[0]:
                    bad.append(("image-hip-register-differs", "image %s, get_estimate %s" % (d[7], est[0]), i))
        return bad

    def nontrivial_key(self, hist, impl_out):
        last = {}
        for l, o in zip(hist, impl_out):
            w = l.split()
            if w[0] in ("new", "upd", "updr", "ures"):
                d = parse_S(o)
                if d:
                    last[int(w[2]) if w[0] == "ures" else int(w[1])] = d
        sig = tuple(sorted((sid, d["lgk"], d["C"], flavor(d["lgk"], d["C"]), offset_of(d["lgk"], d["C"])) for sid, d in last.items()))
        if not any(x[3] >= 2 for x in sig):
            return None
        return sig

    # ------------------------------------------------------------------ translator tie (stage 2 of the check)
    def extra_stages(self, rep, tier, rng, broken):
        ok, exe, hlog = core.compile_harness(self.harness)
        if not ok:
            return
        try:
            T = _load(os.path.join(core.ROOT, "tools", "translate.py"), "translate_for_c05")
            R = _load(os.path.join(core.ROOT, "tools", "trules", "cpc.py"), "trules_cpc_for_c05")
            del T.FAIL[:]
            tb = R.tables(core.REPO, T)
            consts = {}
            for name, rel, ident, kind in R.CONSTS:
                src = T.strip_comments(T.read(core.REPO, rel))
                e = T.find_const(src, ident)
                if e is not None:
                    consts[name] = int(T.parse_num_expr(e, {k[4:]: v for k, v in consts.items()}))
            if T.FAIL:
                return     # already reported through the translator status
            rc, out = core.sh([exe, "dump"], timeout=120, env=core.ASAN_ENV)
            dumped = {}
            for l in out.splitlines():
                w = l.split()
                if w:
                    dumped[w[0]] = w[1:]
            mism = []
            ncmp = 0
            for name, vals in dumped.items():
                if name in tb:
                    kind, v = tb[name]
                    if kind == "f64":
                        mine = ["%016x" % R.f64bits(x) for x in v]
                    elif kind == "f64s":
                        mine = ["%016x" % R.f64bits(v)]
                    elif kind == "nat":
                        mine = [str(x) for x in v]
                    elif kind == "nat2":
                        mine = [str(x) for r in v for x in r]
                    else:
                        mine = [str(v)]
                elif name in consts:
                    mine = [str(consts[name])]
                else:
                    mism.append("%s: dumped by the harness but not produced by the translator" % name)
                    continue
                ncmp += len(mine)
                if mine != vals:
                    j = next((j for j in range(max(len(mine), len(vals))) if j >= len(mine) or j >= len(vals) or mine[j] != vals[j]), 0)
                    mism.append("%s[%d]: translator %s, compiled %s" % (name, j, mine[j] if j < len(mine) else "-", vals[j] if j < len(vals) else "-"))
            rep.cov["translator_values_cross_checked"] = ncmp
            if rc != 0 or not dumped:
                broken.append(("translator-tie", "cpc_h dump", "dump failed rc=%s %s" % (rc, out[-500:])))
            elif mism:
                broken.append(("translator-tie", "tools/trules/cpc.py", "; ".join(mism[:5])))
        except Exception as e:
            broken.append(("translator-tie", "tools/trules/cpc.py", "exception %r" % (e,)))
        # hash tie: the Lean MurmurHash3 against the code's on byte strings of every length 0..40 and random seeds
        try:
            lines = []
            for n in list(range(0, 41)) + [47, 48, 49, 63, 64, 65, 100]:
                b = "".join("%02x" % rng.randrange(256) for _ in range(n)) or "-"
                lines.append("mm %s %d" % (b, rng.choice([9001, 0, rng.randrange(1 << 64)])))
            io, ioc, _ = core.run_impl(exe, lines, ("hash",))
            mo, moc, _ = core.run_model(self.model_exe, "hash", lines)
            rep.cov["hash_tie_inputs"] = len(lines)
            if ioc != "ok" or moc != "ok" or core.first_diff(io, mo) is not None:
                d = core.first_diff(io, mo)
                broken.append(("hash-tie", "DSModel/Murmur3.lean", "MurmurHash3 model differs from the code on %r" % (lines[d] if d is not None and d < len(lines) else ioc + "/" + moc)))
        except Exception as e:
            broken.append(("hash-tie", "DSModel/Murmur3.lean", "exception %r" % (e,)))


SPEC = C05()

CLAIM = dict(
    text=("Kernel-checked theorems over ALL coupon streams, lg_k and union histories of an executable Lean model of cpc_sketch / cpc_union / "
          "cpc_compressor: the bit matrix rebuilt from window + surprising-value table equals the set of distinct (row,col) of the inputs in "
          "every flavor, num_coupons = its cardinality, validate() holds; window present iff 32C >= 3K, offset = determine_correct_offset; "
          "merged-form estimate a function of (lg_k, C); a union of any valid sketches in any order has lg_k = min over the union and the "
          "non-empty inputs and get_result is a valid sketch of exactly the OR of the row-folded input matrices, independent of the order; "
          "uncompress(compress(s)) = s for all flavors, given prefix-code / permutation obligations that are re-checked by kernel evaluation on "
          "the tables regenerated from compression_data.hpp. Plus a differential tie of the model (bit-exact HIP/ICON numbers, byte-exact "
          "serialized images, round trips at every stage) to the real headers, plus the property oracle (distinct row/col recomputed from the "
          "Lean MurmurHash3; every image decoded by the model's decoder) on every trace."),
    note=("Image-level losslessness (preamble + compressed payload, incl. both HIP registers) is proved in full for the CURRENT source "
          "(cpc_image_lossless_current); the translator reads from cpc_sketch_impl.hpp whether deserialize of an empty image starts with "
          "kxp = 2^lg_k (repaired by fix de90ce5, found by this check) or 0 (pinned shape, for which the statement is proved FALSE: "
          "cpc_image_lossless_full_false); model, theorem selection and oracle key follow that flag, so reverting the fix is a violation "
          "with a failing input. Modelled, not verified: the u32_table open-addressing layout (L1: sorted list). Window offsets beyond 56 "
          "(unreachable without coupons in columns 57..63) are outside the model. Floating point is executed, not reasoned about."),
    technique="Lean 4 invariant proofs by induction over coupon streams / union histories, code round-trip proofs + decide +kernel table obligations, differential correspondence (model vs real headers) + trace oracle",
    design="DESIGN.md §3 C05")

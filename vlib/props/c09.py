"""C09 — combined over the wire-format family groups (parts built separately: c09_<group>)."""
from ..combine import combined_spec

SPEC = combined_spec("C09", ["c09_theta", "c09_hll", "c09_cpc", "c09_quant", "c09_count", "c09_misc"], "C09")

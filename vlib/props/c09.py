"""C09 — combined over family parts (built separately: c09_theta, c09_hll, c09_cpc, c09_quant, c09_count, c09_misc)."""
from ..combine import combined_spec

SPEC = combined_spec("C09", ['c09_theta', 'c09_hll', 'c09_cpc', 'c09_quant', 'c09_count', 'c09_misc'], "C09")
CLAIM_TEXT = ('Serialization round trip for all 16 serializable types in six family groups: kernel-checked `decode (encode s ++ tail) = some (s, tail)` (the reader inverts the writer and consumes exactly the image), `|encode s| = serializedSize s`, re-encoding identity / stated table-order freedom, published maxima where the API has one, the translated bit-packing routines of all 63 widths; the C++ writers/readers are tied per image (bytes = stream, advertised size, header h, restore through bytes and stream, re-serialize, continue-after-restore) to the Lean specification reader/writer. '
              + "Parts: " + " ".join(SPEC.claim_texts))
CLAIM = dict(text=CLAIM_TEXT,
             note="Partial by nature: theorems are about the specification codec built from /repo's constants on every run; C++ is tied by sampled differential runs under sanitizers. Estimators after restore are compared C++ vs C++.",
             technique='Lean 4 reader-combinator proofs (round trip, size) + kernel-evaluated translated code (bit packing) + two-phase differential tie on images',
             design='DESIGN.md §3 C09')

"""C10 — combined over the wire-format family groups (parts built separately: c10_<group>)."""
from ..combine import combined_spec

SPEC = combined_spec("C10", ["c10_theta", "c10_hll", "c10_cpc", "c10_quant", "c10_count", "c10_misc"], "C10")

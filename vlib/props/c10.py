"""C10 — combined over family parts (built separately: c10_theta, c10_hll, c10_cpc, c10_quant, c10_count, c10_misc)."""
from ..combine import combined_spec

SPEC = combined_spec("C10", ['c10_theta', 'c10_hll', 'c10_cpc', 'c10_quant', 'c10_count', 'c10_misc'], "C10")
from . import c10_inputs
SPEC._parts += c10_inputs.parts()
SPEC.claim_texts.append("[inputs] " + c10_inputs.CLAIM_TEXT)
for _m in ("theta", "hll", "cpc", "bloom"):
    if _m not in SPEC.tfamilies:
        SPEC.tfamilies.append(_m)
for _p in SPEC.parts():
    # C10 itself says "a reader written only from the documentation recovers the content the API reports": the model of these parts IS that
    # reader, run on bytes the implementation wrote, so an input on which the two disagree is an input on which the property fails
    _p.divergence_is_property_failure = True
CLAIM_TEXT = ('Documented cross-language layout: per family a kernel-checked `wire_consts_documented` (every constant, offset, flag bit, family/version id and size formula parameter regenerated from the current headers equals the hand-written documented value), field-offset theorems about `encode`, legacy-format theorems (Theta v1/v2, Tuple legacy, KLL v1, quantiles v1/v2, t-digest reference formats decode to the same content); every image of the committed baseline corpus (written from the pinned tree) and every shipped .sk file must decode to the recorded content on the current tree, and a documentation-only Lean reader must agree with the API on live images; MurmurHash3/XXHash64 are modelled bit-exactly and compared per input type. '
              + "Parts: " + " ".join(SPEC.claim_texts))
CLAIM = dict(text=CLAIM_TEXT,
             note='Baseline corpus = images written by the pinned tree (no other-language producers offline beyond the shipped files).',
             technique='Lean 4 `decide` over regenerated constants + documented-layout reader + baseline corpus replay + hash models',
             design='DESIGN.md §3 C10')

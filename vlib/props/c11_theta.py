"""C11 (wire group `theta`) — truncated / corrupted images of compact theta (v3, v4, wrapped), compact tuple and
array-of-doubles sketches are rejected safely. DESIGN.md 3 C11, docs/WIRE_GUIDE.md."""
from .. import core
from ..runner import Spec
from . import wire_theta_lib as L
from .c09_theta import width_history

SAFETY = ("asan", "ubsan", "alloc_cap", "timeout", "crash", "leak", "notrun")


def c11_ops(o, kind, other):
    return ["trunc %d %s" % (o, kind), "corrupt %d %s" % (o, kind)]


class WireC11(L.WirePart):
    """Exhaustive prefixes and preamble corruption of every generated image, on every path (bytes, stream, wrap).
    Model side: the Lean reader's verdict on the same bytes (smallest accepted prefix = image size; for a prefix the
    implementation accepts: same content; corrupted images: verdict recorded, not compared)."""

    full_content_only = False      # stored legacy images: the model re-encodes in its own version, only the content is compared

    def __init__(self):
        self.stats = dict(images=0, prefixes=0, prefix_events=0, corrupt_cases=0, corrupt_events=0,
                          corrupt_verdict_agree=0, corrupt_verdict_differ=0, images_not_exhaustive=0, prefixes_skipped_after_96_aborts=0)

    def generate(self, rng, tier):
        n = self.nhist[0] if tier == "quick" else self.nhist[1]
        hs = []
        for i in range(n):
            fam = self.fams[i % len(self.fams)]
            hs.append(L.gen_history(rng, tier, fam, c11_ops, max_lgk=(6 if tier == "quick" else 7)))
        if "theta" in self.fams:
            for i in range(1 if tier == "quick" else 6):
                hs.append(width_history(rng, tier, c11_ops))
        return hs

    # ---- model lines: full image, accepted prefixes, corrupted images
    def _plan(self, impl_out):
        """-> list of (model line, expected or None, tag)"""
        plan = []
        for l in impl_out:
            d = L.parse_trunc(l)
            if d:
                plan.append((self.img_model_line(d), self.img_expected(d), "full"))
                img = bytes.fromhex(d["hex"]) if d["hex"] != "-" else b""
                for path, (n, evs) in d["paths"].items():
                    if path == "skipped":
                        continue
                    for ln, oc in evs:
                        if oc.startswith("a ") and ln >= 0:
                            plan.append(("IMG %s %s %s" % (d["kind"], d["seed"], img[:ln].hex() or "-"), oc[2:], "prefix-accept"))
                continue
            d = L.parse_corrupt(l)
            if d:
                img = bytes.fromhex(d["hex"])
                verd = d["paths"].get("bytes", ("", []))[0]
                cs = L.corrupt_cases(img, d["npre"])
                if len(cs) == len(verd):
                    for (pos, val), v in zip(cs, verd):
                        b = bytearray(img); b[pos] = val
                        plan.append(("VRD %s %s %s" % (d["kind"], d["seed"], bytes(b).hex()), v, "corrupt"))
        return plan

    def model_lines(self, hist, impl_out):
        return [p[0] for p in self._plan(impl_out)]

    def expected_model_out(self, hist, impl_out):
        return [p[1] for p in self._plan(impl_out)]

    def diff(self, hist, impl_out, model_out):
        plan = self._plan(impl_out)
        for i, (line, exp, tag) in enumerate(plan):
            got = model_out[i] if i < len(model_out) else "<missing>"
            if tag == "full":
                if self.full_content_only:
                    got, exp = got.split(" | ")[0], exp.split(" | ")[0]
                if core.norm(got) != core.norm(exp):
                    return i
            elif tag == "prefix-accept":
                if core.norm(got.split(" | ")[0]) != core.norm(exp):
                    return i
            else:
                lean_accepts = got.strip() != "reject"
                if (exp == "a") == lean_accepts or exp == "X":
                    self.stats["corrupt_verdict_agree"] += 1
                else:
                    self.stats["corrupt_verdict_differ"] += 1
        return None

    # ---- the property on the implementation trace: only exceptions for strict prefixes, only safe outcomes for corruption
    def oracle(self, hist, impl_out):
        bad = []
        for i, (op, o) in enumerate(zip(hist, impl_out)):
            w = op.split()
            if o.strip() in ("no-such-object", "bad-op"):
                continue      # malformed history (dangling object id, e.g. after delta debugging): says nothing about the library
            if w[0] in ("trunc", "truncimg"):
                d = L.parse_trunc(o)
                if d is None:
                    bad.append(("%s/trunc/bad-observation" % self.name, o[:200], i))
                    continue
                img = bytes.fromhex(d["hex"]) if d["hex"] != "-" else b""
                npre = L.preamble_bytes(d["kind"], img)
                for path, (n, evs) in d["paths"].items():
                    if path == "skipped":
                        continue
                    for ln, oc in evs:
                        if ln < 0:
                            continue
                        cls = L.outcome_class(oc)
                        # no padding in these families: an accepted strict prefix is a violation in itself
                        key = "%s/%s/prefix/%s/%s" % (L.key_family(d["kind"], ln < npre, img), path, cls, L.region(ln, npre))
                        bad.append((key, "%s image of %d bytes truncated to %d: %s on the %s path (image %s)" % (d["kind"], len(img), ln, oc[:100], path, d["hex"][:96]), i))
            elif w[0] in ("corrupt", "corruptimg"):
                d = L.parse_corrupt(o)
                if d is None:
                    bad.append(("%s/corrupt/bad-observation" % self.name, o[:200], i))
                    continue
                img = bytes.fromhex(d["hex"])
                for path, (verd, evs) in d["paths"].items():
                    for pos, val, oc in evs:
                        cls = L.outcome_class(oc)
                        key = "%s/%s/corrupt/%s/byte%d" % (L.key_family(d["kind"], True, img), path, cls, pos)
                        bad.append((key, "%s image with byte %d set to 0x%02x: %s on the %s path (image %s)" % (d["kind"], pos, val, oc[:100], path, d["hex"][:96]), i))
            elif o.strip() == "throw":
                bad.append(("%s/unexpected-throw/%s" % (self.name, w[0]), op[:120], i))
        return L.cap_unknown(bad, "C11")

    def nontrivial_key(self, hist, impl_out):
        # called once per history by the runner: also the place where the coverage figures are accumulated
        ks = []
        for l in impl_out:
            d = L.parse_trunc(l)
            if d:
                self.stats["images"] += 1
                for path, (n, evs) in d["paths"].items():
                    if path == "skipped":
                        self.stats["images_not_exhaustive"] += 1
                        self.stats["prefixes_skipped_after_96_aborts"] += n
                        self.stats["prefixes"] -= n
                        continue
                    self.stats["prefixes"] += n
                    self.stats["prefix_events"] += len(evs)
                if len(d["hex"]) > 32:
                    c = d["content"].split()
                    ks.append((d["kind"], d["seed"] != "9001", c[1], c[2], c[3], len(d["hex"]) // 2))
                continue
            d = L.parse_corrupt(l)
            if d:
                for path, (verd, evs) in d["paths"].items():
                    self.stats["corrupt_cases"] += len(verd)
                    self.stats["corrupt_events"] += len(evs)
        if getattr(self, "_rep", None) is not None:
            self._rep.cov.setdefault("c11", {})[self.name] = dict(self.stats, exhaustive=(self.stats["images_not_exhaustive"] == 0),
                                                                  note="per image every prefix length on every path; after 96 sanitizer aborts in one image the remaining lengths are sampled (every 16th, first 32, last 16)")
        return tuple(sorted(set(ks))) or None


class ThetaPart(WireC11):
    name = "theta"
    fams = ("theta",)
    nhist = (5, 40)


class TuplePart(WireC11):
    name = "tuple"
    fams = ("tf64", "ti64", "tstr", "tcst")
    nhist = (6, 40)


class AodPart(WireC11):
    name = "aod"
    fams = ("aod",)
    nhist = (3, 20)


class StoredPart(WireC11):
    """the same sweeps over images this tree does not write: theta serial versions 1 and 2 and the legacy tuple formats (made by the
    Lean legacy encoders from random contents) and the shipped .sk reference files up to 2000 bytes.  Each older format is read by
    code of its own that no image written by the current tree reaches."""
    name = "stored"
    fams = ("theta", "tf64", "ti64", "tstr", "tcst")
    full_content_only = True

    def generate(self, rng, tier):
        from . import c10_theta
        lines = []
        try:
            for h in c10_theta.legacy_histories(rng, "quick")[:(1 if tier == "quick" else 6)]:
                lines += [l for l in h if "model-encoder-failed" not in l]
        except Exception:
            pass
        for k, seed, hx, nv, content, src in c10_theta.corpus_lines():
            if src.endswith(".sk") and len(hx) <= 4000:
                lines.append("deser %s %s %s %s %s # %s" % (c10_theta.fam_of_kind(k), k, seed, hx, nv, content))
        seen, hs = set(), []
        for l in lines:
            w = l.split(" # ")[0].split()
            key = (w[2], len(w[4]), w[4][:16])       # one image per (kind, size, preamble)
            if key in seen or len(w[4]) > 4000:
                continue
            seen.add(key)
            arg = " ".join(w[1:6])
            hs.append(["truncimg " + arg, "corruptimg " + arg])
        return hs[:(24 if tier == "quick" else 200)]


PARTS = [ThetaPart(), TuplePart(), AodPart(), StoredPart()]

CLAIM_TEXT = ("Theta/Tuple/array-of-doubles images: kernel-checked theorems that the specification reader (all serial versions) is "
              "prefix-safe, rejects every strict prefix of every well-formed image and never returns more entries than 8 per consumed "
              "byte; the real readers (bytes, stream, wrap) are run on EVERY prefix of every generated image in exact-size heap blocks "
              "under ASan/UBSan with a tracking allocator and a 256 MiB allocation cap, and on every preamble byte x 8 replacement values.")


class C11Theta(Spec):
    pid = "C11"
    props_modules = ["DSProofs.Props.C11_Theta", "DSProofs.Props.C11_Tuple", "DSProofs.Props.C11_Aod"]
    tfamilies = ["wire_theta"]
    rule = ("images of compact theta (v3 and compressed v4, incl. chosen entry widths), tuple x 4 serdes, array-of-doubles in every state "
            "class (as C09); per image: every prefix length 0..size-1 x {bytes, stream, wrap} (exhaustive), every preamble byte x "
            "{0x00,0x01,0x7F,0x80,0xFF,b^1,b^0x80,b+1} x paths; non-trivial = image with entries; distinct = (kind, seed class, flags, size)")
    trusted_base = ["Lean 4.33 kernel", "axioms: propext, Quot.sound, Classical.choice",
                    "harness/wire_theta_h.cpp: fork-isolated cases, exact-size heap blocks under ASan/UBSan, tracking operator new/delete, 256 MiB cap",
                    "memory safety of the C++ readers is runtime behaviour: observed exhaustively per image, images are sampled"]
    assumptions = ["the theorems are about the specification reader; the C++ readers are held to it by the exhaustive-prefix runs",
                   "corruption: only safety outcomes are violations; verdict differences between the C++ and the specification reader are recorded"]

    def parts(self):
        return PARTS

    def extra_stages(self, rep, tier, rng, broken):
        for p in PARTS:
            p._rep = rep


SPEC = C11Theta()

CLAIM = dict(text=CLAIM_TEXT,
             note="Partial by nature: theorem about the specification reader; the C++ is observed under sanitizers (exhaustive per image, sampled images).",
             technique="Lean 4 prefix-safety proofs over reader combinators + exhaustive-prefix / corruption runs under ASan/UBSan",
             design="DESIGN.md §3 C11")

"""Shared pieces of the wire group `theta` (Theta / Tuple / array-of-doubles images): history generators that drive
real sketches into every state class, parsers of the harness transcript, the two-phase Part base classes.
Used by c09_theta.py, c10_theta.py, c11_theta.py."""
import os, re, struct
from .. import core
from ..runner import Part

HARNESS = "wire_theta_h"
MODEL = "dsmodel_wire_theta"

FAMS = {
    # fam -> (kinds that can be serialized, content tag)
    "theta": (["theta_v3", "theta_v4"], "T"),
    "tf64": (["tuple_f64"], "U"),
    "ti64": (["tuple_i64"], "U"),
    "tstr": (["tuple_str"], "U"),
    "tcst": (["tuple_cst"], "U"),
    "aod": (["aod"], "A"),
}
KIND_FAM = {k: f for f, (ks, _) in FAMS.items() for k in ks}
P_HEX = {"1": "3f800000", "0.5": "3f000000", "0.1": "3dcccccd", "0.001": "3a83126f"}


def f64hex(x):
    return "%016x" % struct.unpack("<Q", struct.pack("<d", x))[0]


def rand_summary(rng, fam):
    if fam == "tf64":
        return [rng.choice(["3ff0000000000000", "4000000000000000", "bff8000000000000", "0000000000000000", "7ff0000000000000", f64hex(rng.random())])]
    if fam == "ti64":
        # small magnitudes: the library's default update policy is `summary += update` on int64_t (signed overflow is the user's problem)
        return ["%x" % (rng.choice([0, 1, 2, -1, -2, rng.randrange(-2**40, 2**40)]) % 2**64)]
    if fam in ("tstr", "tcst"):
        n = rng.choice([0, 0, 1, 2, 3, 5, 8, 13, 17, 24, 40]) if fam == "tstr" else rng.choice([0, 1, 2, 3])      # (> 15 bytes: heap-owning summaries, visible in the allocation balance)
        return ["".join("%02x" % rng.randrange(256) for _ in range(n)) or "-"]
    if fam == "aod":
        return None  # filled by caller (needs num_values)
    return []


def gen_history(rng, tier, fam, per_image_ops, other_seed_prob=0.3, max_lgk=None):
    """One history: 1-3 update sketches of family `fam` driven into different state classes, their compact forms
    (ordered / unordered / compact of compact), results of union / intersection / a_not_b, then for every compact object
    the ops produced by per_image_ops(obj_id, kind, other_id_or_None).
    State classes: empty, single item exact, exact, estimation via small lg_k, estimation via p<1, non-empty with zero
    retained (p<1), ordered/unordered, set-operation results, compact of compact."""
    h = []
    seed = 9001 if rng.random() >= other_seed_prob else rng.choice([1, 123, 2**63 + 5, rng.randrange(1, 2**64)])
    nsk = rng.choice([1, 2, 2, 3])
    nv = rng.choice([0, 1, 1, 2, 3]) if fam == "aod" else 1
    lgks = []
    universe = rng.choice([40, 200, 1000, 10**6])
    if fam == "tcst":
        universe = 10**9    # the custom serde has a ONE-byte length: summaries (concatenated by `+=` on repeated keys) must stay below 256 bytes
    base = rng.randrange(0, 2**40)
    max_lgk = max_lgk or (6 if tier == "quick" else 9)
    for i in range(nsk):
        lgk = rng.choice([5, 5, 6] if tier == "quick" else [5, 6, 7, 8, 9])
        lgk = min(lgk, max_lgk)
        pcls = rng.choice(["1", "1", "1", "0.5", "0.1", "0.001"])
        lgks.append(lgk)
        h.append("new %d %s %d %s %d%s" % (i, fam, lgk, P_HEX[pcls], seed, (" %d" % nv) if fam == "aod" else ""))
        k = 1 << lgk
        cls = rng.choice(["empty", "single", "exact", "exact", "est", "est", "zero-retained"])
        if cls == "empty":
            n = 0
        elif cls == "single":
            n = 1
        elif cls == "exact":
            n = rng.randrange(2, max(3, k // 2))
        elif cls == "est":
            n = rng.randrange(2 * k, 5 * k)
        else:
            n = rng.choice([1, 2, 3])
        for _ in range(n):
            key = base + rng.randrange(universe)
            if fam == "theta":
                h.append("upd %d %d" % (i, key))
            elif fam == "aod":
                h.append("upd %d %d %s" % (i, key, " ".join(rng.choice(["3ff0000000000000", "4000000000000000", f64hex(rng.random()), "fff8000000000000"]) for _ in range(nv))))
            else:
                h.append("upd %d %d %s" % (i, key, " ".join(rand_summary(rng, fam))))
    objs = []          # compact object ids
    nid = 10
    for i in range(nsk):
        for ordered in rng.sample([0, 1], rng.choice([1, 2])):
            h.append("compact %d %d %d" % (i, nid, ordered)); objs.append(nid); nid += 1
    if objs and rng.random() < 0.5:
        src = rng.choice(objs)
        h.append("compact %d %d %d" % (src, nid, rng.randrange(2))); objs.append(nid); nid += 1
    srcs = list(range(nsk)) + objs
    if rng.random() < 0.7:
        ops = rng.sample(srcs, min(len(srcs), rng.choice([1, 2, 3])))
        h.append("union %d %d %d %s" % (nid, rng.choice(lgks + [5]), rng.randrange(2), " ".join(map(str, ops)))); objs.append(nid); nid += 1
    if rng.random() < 0.6:
        ops = rng.sample(srcs, min(len(srcs), rng.choice([1, 2])))
        h.append("inter %d %d %s" % (nid, rng.randrange(2), " ".join(map(str, ops)))); objs.append(nid); nid += 1
    if rng.random() < 0.6 and len(srcs) >= 2:
        a, b = rng.sample(srcs, 2)
        h.append("anotb %d %d %d %d" % (nid, rng.randrange(2), a, b)); objs.append(nid); nid += 1
    if fam == "theta" and rng.random() < 0.3:
        h.append("fromtheta %d %d tf64 %d 3ff0000000000000" % (rng.choice(srcs), nid, rng.randrange(2)))
        h += per_image_ops(nid, "tuple_f64", None)
        nid += 1
    for o in objs:
        for kind in FAMS[fam][0]:
            other = rng.choice(srcs) if rng.random() < 0.7 else None
            h += per_image_ops(o, kind, other)
    return h


# ------------------------------------------------------------------ transcript parsing

def parse_img(line):
    """`IMG kind seed hex | content | status` -> dict or None"""
    if not line.startswith("IMG "):
        return None
    parts = [p.strip() for p in line.split(" | ")]
    w = parts[0].split()
    if len(w) != 4 or len(parts) < 3:
        return None
    return dict(kind=w[1], seed=w[2], hex=w[3], content=parts[1], status=parts[2])


def parse_trunc(line):
    """`TRUNC kind seed hex | path:n:events ; ...` -> dict(kind, seed, hex, paths={path: (n, [(len, outcome)])})"""
    if not line.startswith("TRUNC "):
        return None
    head, content, rest = line.split(" | ", 2)
    w = head.split()
    paths = {}
    for seg in rest.split(" ;"):
        seg = seg.strip()
        if not seg:
            continue
        path, n, ev = seg.split(":", 2)
        evs = []
        if ev.strip() != "none":
            for m in re.finditer(r"(\d+)=((?:a .*?(?= \d+=|$))|\S+)", ev.strip()):
                evs.append((int(m.group(1)), m.group(2).strip()))
            more = re.search(r"\(\+(\d+) more\)", ev)
            if more:
                evs.append((-1, "more:" + more.group(1)))
        paths[path] = (int(n), evs)
    return dict(kind=w[1], seed=w[2], hex=w[3], content=content.strip(), paths=paths)


def parse_corrupt(line):
    """`CORRUPT kind seed hex | npre=k | path:verdicts:events ; ...`"""
    if not line.startswith("CORRUPT "):
        return None
    parts = line.split(" | ")
    w = parts[0].split()
    content = parts[1].strip()
    npre = int(parts[2].split("=")[1])
    paths = {}
    for seg in parts[3].split(" ;"):
        seg = seg.strip()
        if not seg:
            continue
        path, verd, ev = seg.split(":", 2)
        evs = []
        if ev.strip() != "none":
            for m in re.finditer(r"(\d+)/(\d+)=(\S+)", ev):
                evs.append((int(m.group(1)), int(m.group(2)), m.group(3)))
        paths[path] = (verd, evs)
    return dict(kind=w[1], seed=w[2], hex=w[3], content=content, npre=npre, paths=paths)


def corrupt_cases(img, npre):
    """same enumeration as the harness: (pos, val) over preamble bytes x replacement set, duplicates and no-ops removed"""
    cs = []
    for pos in range(npre):
        b = img[pos]
        seen = []
        for v in [0x00, 0x01, 0x7F, 0x80, 0xFF, b ^ 1, b ^ 0x80, (b + 1) & 0xFF]:
            if v != b and v not in seen:
                cs.append((pos, v))
            seen.append(v)
    return cs


def outcome_class(oc):
    """asan:heap-buffer-overflow -> asan ; ubsan:shift_exponent_32_is... -> ubsan-shift-exponent ; leak:1:after-throw -> leak-after-throw"""
    if oc.startswith("a "):
        return "accept"
    if oc.startswith("asan"):
        return "asan"
    if oc.startswith("ubsan"):
        m = oc.split(":", 1)[1] if ":" in oc else ""
        m = re.sub(r"\d+", "N", m)
        return "ubsan-" + "-".join(m.split("_")[:3]).strip("-,'")
    if oc.startswith("leak"):
        return "leak-" + oc.split(":")[-1]
    if oc.startswith("crash"):
        return "crash"
    return oc.split(":")[0]


def key_family(kind, in_preamble, img=None):
    """family part of a finding key: the tuple reader is one template (the serde only matters in the entries area);
    a theta image is named by the serial version it actually has (`serialize_compressed` falls back to version 3)"""
    if kind.startswith("tuple_") and in_preamble:
        return "tuple"
    if kind.startswith("theta") and img is not None and len(img) > 1:
        return "theta_v%d" % img[1]
    return kind


def preamble_bytes(kind, img):
    """same rule as the harness: bytes of the image that are preamble (fixed fields and counts)"""
    if len(img) < 8:
        return len(img)
    if kind == "aod":
        return min(len(img), 24 if img[4] & 8 else 16)
    pre = img[0]
    if kind.startswith("theta") and img[1] == 4:
        return min(len(img), 8 * pre + img[4])
    return min(len(img), 8 * max(pre, 1))


def region(length, npre):
    """where a truncation happens: the 4-byte word of the preamble, or the entries area"""
    return "off%d" % (length // 4 * 4) if length < npre else "entries"


def cap_unknown(bad, pid, limit=3):
    """A regression usually shows under many keys at once and every distinct NEW key costs a delta-debugging run:
    keep all hits of known findings, but at most `limit` new keys per history (first occurrences)."""
    known = set(k.get("key") for k in core.load_known() if k.get("property") == pid and k.get("status") == "open")
    out, new = [], []
    for b in bad:
        if b[0] in known:
            out.append(b)
        elif b[0] in new:
            out.append(b)
        elif len(new) < limit:
            new.append(b[0]); out.append(b)
    return out


# ------------------------------------------------------------------ Parts

class WirePart(Part):
    """Two-phase part: the harness writes images; the Lean driver decodes exactly those bytes."""
    harness = HARNESS
    model_exe = MODEL
    family = "gen"          # sub-command of the driver: constants as translated from the current headers
    timeout = 900
    fams = ("theta",)
    nhist = (14, 120)       # quick, thorough

    def img_model_line(self, d):
        return "IMG %s %s %s" % (d["kind"], d["seed"], d["hex"])

    def img_expected(self, d):
        n = (len(d["hex"]) // 2) if d["hex"] != "-" else 0
        return "%s | reenc=1 size=%d consumed=%d minlen=%d wf=1 ir=1" % (d["content"], n, n, n)

    def model_lines(self, hist, impl_out):
        return [self.img_model_line(d) for d in map(parse_img, impl_out) if d]

    def expected_model_out(self, hist, impl_out):
        return [self.img_expected(d) for d in map(parse_img, impl_out) if d]

    def nontrivial_key(self, hist, impl_out):
        ks = []
        for l in impl_out:
            d = parse_img(l)
            if d and d["hex"] != "-" and len(d["hex"]) > 32:
                c = d["content"].split()
                ks.append((d["kind"], d["seed"] != "9001", c[1], c[2], c[3], len(d["hex"]) // 2))
        return tuple(sorted(set(ks))) or None

"""C09 (group `misc`: t-digest, Bloom filter, density sketch) — serialization round trip (DESIGN.md §3 C09, docs/WIRE_GUIDE.md)."""
import re, struct
from .. import core
from ..runner import Spec
from . import misc_common as M


def density_levels(hexs, tsz):
    """level sizes of a non-empty density image (used only to NAME a failure, never to decide one)"""
    b = bytes.fromhex(hexs)
    if len(b) < 24 or b[0] != 6:
        return None
    dim = struct.unpack_from("<I", b, 8)[0]
    off, sizes = 24, []
    while off + 4 <= len(b):
        n = struct.unpack_from("<I", b, off)[0]
        sizes.append(n)
        off += 4 + n * dim * tsz
    return sizes if off == len(b) else None


def chk_keys(fam, d):
    """failed C++-alone checks of one IMG line -> [(key, what)]"""
    keys = []
    special = None
    if fam == "bloom":
        m = re.search(r"empty=(\d) bits=([0-9a-f]+)", d["content"])
        if m and m.group(1) == "1" and m.group(2).strip("0"):
            special = "bloom/query_and_update-on-stale-count"     # is_empty() although bits are set
    if fam == "density":
        m = re.search(r"n=(\d+) nr=(\d+) empty=(\d)", d["content"])
        if m and int(m.group(2)) == 0 and int(m.group(1)) > 0:
            special = "density/n-lost-when-nothing-retained"
        else:
            lv = density_levels(d["hex"], 4 if d["kind"] == "den.f" else 8) if d["hex"] != "-" else None
            if lv and len(lv) > 1 and lv[-1] == 0:
                special = "density/trailing-empty-level-not-restored"
    for f in d["fails"]:
        w = f.split(":")
        if w[0].startswith("hdr"):
            h = int(w[0][3:])
            keys.append(("%s/ser/header%s" % (fam, "0/" + w[1] if h == 0 else ">0"), "serialize(header_size_bytes=%d): %s" % (h, ":".join(w[1:]))))
        elif special and w[0] in ("restore", "reser", "streampos"):
            keys.append((special, f))
        elif w[0] == "size":
            keys.append(("%s/ser/size-%s" % (fam, w[1]), f))
        elif w[0] == "streampos":
            keys.append(("%s/stream-position" % fam, "stream reader did not stop exactly at the end of the image"))
        elif w[0] == "restore":
            keys.append(("%s/restore/%s/%s" % (fam, w[1], w[2]), f))
        elif w[0] == "reser":
            keys.append(("%s/reserialize/%s" % (fam, w[1]), "re-serialized image differs"))
        else:
            keys.append(("%s/check/%s" % (fam, w[0]), f))
    return keys


def cont_keys(fam, line):
    w = line.split()
    if len(w) < 4 or not (w[-1] == "ok" or w[-1].startswith("fail:")):
        return [("%s/continue/bad-line" % fam, line[:120])]
    if w[-1] == "ok":
        return []
    f = dict(t.split("=", 1) for t in w[2:-1] if "=" in t)
    special = None
    if fam == "tdigest" and f.get("w0") == "1":
        # a single value is stored without saying whether it sat in the buffer or in a centroid
        special = "tdigest/continue/single-value-restored-as-centroid"
    if fam == "density":
        if f.get("nr0") == "0" and f.get("n0", "0") != "0":
            special = "density/n-lost-when-nothing-retained"
        else:
            pre = f.get("pre", "-")
            lv = density_levels(pre, 4) if pre != "-" else None
            lv8 = density_levels(pre, 8) if pre != "-" else None
            if any(l and len(l) > 1 and l[-1] == 0 for l in (lv, lv8)):
                special = "density/trailing-empty-level-not-restored"
    res = []
    for it in w[-1][5:].split(","):
        if fam == "bloom" and it == "wwrap:memory-stale":
            res.append(("bloom/continue/wwrap/memory-stale", "updates through writable_wrap leave the wrapped image's num_bits_set stale"))
        elif fam == "bloom" and (f.get("mode") == "2" or f.get("emptybits") == "1"):
            res.append(("bloom/query_and_update-on-stale-count", "mixed update/query_and_update: " + it))
        elif special:
            res.append((special, "deserialize-then-continue: " + it))
        else:
            res.append(("%s/continue/%s" % (fam, it.replace(":", "/")), "deserialize-then-continue: " + it))
    return res


class C09Part(M.MiscPart):
    def __init__(self, name, gen):
        self.name = name
        self.gen = gen

    def _extra(self, rng, fam):
        if fam == "bloom":
            def extra(i, cls, *a):
                l = ["bf.ser %d" % i]
                if rng.random() < 0.6:
                    l.append("bf.cont %d %d %d %d" % (i, rng.choice([0, 1, 7, 60]), rng.randrange(1000), rng.randrange(2)))
                    if rng.random() < 0.5:
                        l.append("bf.ser %d" % i)
                return l
        elif fam == "tdigest":
            def extra(i, cls, wb=0):
                l = ["td.ser %d %d" % (i, wb)]
                if rng.random() < 0.6:
                    l.append("td.cont %d %d %d %d %d" % (i, wb, rng.choice([1, 5, 60, 260, 900]), rng.randrange(1000), rng.randrange(6)))
                    if rng.random() < 0.5:
                        l.append("td.ser %d %d" % (i, rng.randrange(2)))
                return l
        else:
            def extra(i, cls, *a):
                l = ["den.ser %d" % i]
                if rng.random() < 0.6:
                    l.append("den.cont %d %d %d %d" % (i, rng.choice([1, 4, 25, 90]), rng.randrange(1000), rng.choice([0, 0, 1, 2])))
                    if rng.random() < 0.5:
                        l.append("den.ser %d" % i)
                return l
        return extra

    def generate(self, rng, tier):
        n = {"bloom": 30, "tdigest": 24, "density": 30}[self.name] * (1 if tier == "quick" else 20)
        hs = [self.gen(rng, tier, self._extra(rng, self.name)) for _ in range(n)]
        if self.name == "bloom":
            # query_and_update() on a filter whose count is stale (after update()) stores the stale count and clears the
            # dirty state: a filter with bits set can report is_empty() and serialize as an EMPTY image
            hs.append(["bf.new 0 64 1 9001", "bf.upd 0 5", "bf.qupd 0 5", "bf.ser 0"])
            hs.append(["bf.new 0 128 2 9001", "bf.updn 0 40 3", "bf.cont 0 30 17 2", "bf.ser 0"])
        if self.name == "density":
            # the witness of Props/C09_Density.decode_encode_full_false on the real code: far-apart points (the Gaussian
            # kernel underflows to 0), so a compaction whose coin is `false` promotes nothing and leaves an empty top level
            for s in range(1, 9):
                hs.append(["rng %d" % s, "den.new 0 f 2 1", "den.updn 0 3 %d 2" % s, "den.ser 0", "den.updn 0 2 %d 2" % (s + 1), "den.ser 0"])
                # ... and when the compaction at the end of a merge drops everything, num_retained = 0 with n = 2: is_empty()
                hs.append(["rng %d" % s, "den.new 0 f 2 1", "den.updn 0 1 %d 2" % s, "den.new 1 f 2 1", "den.updn 1 1 %d 2" % (s + 50),
                           "den.merge 0 1", "den.ser 0"])
        return hs

    def oracle(self, hist, impl_out):
        bad = M.unexpected(hist, impl_out)
        for i, o in enumerate(impl_out):
            d = M.parse_img(o)
            if d:
                for key, what in chk_keys(self.name, d):
                    bad.append((key, what + " [" + hist[i] + "]", i))
            elif o.startswith("CONT "):
                for key, what in cont_keys(self.name, o):
                    bad.append((key, what + " [" + hist[i] + "]", i))
        return bad

    def nontrivial_key(self, hist, impl_out):
        sizes = []
        for o in impl_out:
            d = M.parse_img(o)
            if d and "empty=0" in d["content"]:
                sizes.append((d["kind"], d["size"]))
        if not sizes or not any(o.startswith("CONT ") for o in impl_out):
            return None
        return tuple(sizes)


PARTS = [C09Part("bloom", M.gen_bloom), C09Part("tdigest", M.gen_tdigest), C09Part("density", M.gen_density)]

CLAIM_TEXT = ("t-digest (double/float; empty, single value, general with and without buffered values), Bloom filter (empty / "
              "non-empty incl. the dirty marker; owned, wrap, writable_wrap, memory-initialised) and density sketch (float/double): "
              "kernel-checked decode(encode s ++ tail) = (s, tail), |encode s| = serializedSize s for every well-formed image and "
              "every tail, parametric in the wire constants regenerated from the headers; real sketches in every reachable state "
              "class are serialized (stream and bytes with header sizes 0/1/8/13), restored on every reader path, re-serialized, "
              "continued, and each image is decoded by the Lean specification reader whose projection must equal the API content.")


class C09Misc(Spec):
    pid = "C09"
    props_modules = ["DSProofs.Props.C09_Bloom", "DSProofs.Props.C09_Density", "DSProofs.Props.C09_TDigest"]
    harness = M.HARNESS
    model_exe = M.MODEL
    tfamilies = ["wire_misc"]
    rule = ("one history per family instance: Bloom (1..1000 bits, 1..7 hashes, boundary seeds; empty, dirty, counted, after "
            "union/intersect/invert/reset, memory-initialised), t-digest (double/float, k 10..200; empty, single buffered, single "
            "compressed, buffered, compressed, post-merge; with_buffer both ways), density (float/double, k 2..8, dim 1..3; empty, "
            "single, exact, estimation, post-merge, far-apart points); a history is non-trivial when it produced a non-empty image "
            "AND a deserialize-then-continue run; distinct = distinct (kind, image sizes) signature")
    trusted_base = ["Lean 4.33 kernel", "axioms: propext, Quot.sound, Classical.choice",
                    "tools/trules/wire_misc.py (constants regenerated from the headers every run)",
                    "harness/wire_misc_h.cpp + generators (sampled states; public-API observations; ASan+UBSan)",
                    "Bloom bit array observed through to_string(true) (the only public view of the raw bits)",
                    "t-digest centroids are not public: content = k, total weight, min, max, get_rank at 9 probe points, get_quantile at 7 probe ranks"]
    assumptions = ["theorems are about the Lean images DSModel/Wire/{Bloom,TDigest,Density}.lean; the tie to the C++ writers/readers is differential (sampled states, exhaustive paths per state)",
                   "values are IEEE bit patterns; no float arithmetic in the theorems",
                   "density: the last level of a well-formed image is non-empty (the layout does not store the level count) — the complementary case is proved lost (decode_encode_full_false) and replayed on the code"]

    def parts(self):
        return PARTS


SPEC = C09Misc()

CLAIM = dict(text=CLAIM_TEXT,
             note="Group `misc` of C09 only (the integrator combines groups).",
             technique="Lean 4 reader-combinator round-trip proofs + two-phase differential tie (implementation writes, specification reader decodes) + C++-alone round-trip checks",
             design="DESIGN.md §3 C09")

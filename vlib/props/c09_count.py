"""C09 (group `count`: count-min, frequent items, VarOpt sketch, VarOpt union, EBPPS) — serialization round trip.
`./check c09_count` runs this group alone; the integrator combines PARTS of all groups."""
from ..runner import Spec
from . import wire_count_common as W

PARTS = [W.C09Part(f) for f in W.FAMILIES]

CLAIM_TEXT = ("count-min / frequent items / VarOpt sketch / VarOpt union / EBPPS: kernel-checked round trip "
              "`decode (encode s ++ tail) = (s, tail)` and `|encode s| = serializedSize s` for every well-formed image state, every "
              "lawful item serde (8-byte arithmetic, u32-length-prefixed strings) and every constant set satisfying decidable side "
              "conditions that the current headers meet; for frequent items the hash-map entry order is the only freedom (`Equiv`, "
              "`size_equiv`). Tie: the real sketches are driven into every state class, every image is decoded by the documented "
              "Lean reader (API content, re-encoding, size, smallest accepted prefix must all agree) and checked in C++ alone for "
              "bytes(header h) = h zero bytes ++ stream image (h in 0,1,8,13), advertised size, stream position, restore via bytes "
              "and stream, re-serialization (byte-equal, or entry-permuted for frequent items) and deserialize-then-continue under "
              "the same installed draws.")


class C09Count(Spec):
    pid = "C09"
    props_modules = ["DSProofs.Props.C09_CountMin", "DSProofs.Props.C09_Fi", "DSProofs.Props.C09_VarOpt", "DSProofs.Props.C09_Ebpps"]
    harness = W.HARNESS
    model_exe = W.MODEL
    tfamilies = ["wire_count"]
    rule = ("one history per state class (count-min: empty/zero-weight/single/some/merged, int64 and double weights, default and random "
            "seeds; frequent items: empty/single/few/purged/merged x {int64,string} items x {uint64,double} weights; VarOpt: empty/single/"
            "warm-up/exactly k/first sampling/sampling/heavy+light/all equal x resize factors; union: empty/empty input/exact/sampling/marked "
            "items/mixed k/many; EBPPS: empty/single/under k/equal/unequal weights (partial item)/merged), each serialized, restored via "
            "bytes and stream and continued; non-trivial = some image longer than 16 bytes; distinct = (family, image sizes, image hash)")
    trusted_base = W.TRUSTED
    assumptions = ["theorems are about DSModel/Wire/{CountMin,Fi,VarOpt,Ebpps}.lean; the tie to the *_impl.hpp writers/readers is the "
                   "two-phase check on sampled reachable states",
                   "custom serdes are covered by the theorems (any `Serde.Lawful`) but only the two library serdes are exercised on the code",
                   "union API content = get_result(); with marked items it depends on random draws: the Lean reader then only predicts n, "
                   "the C++ checks compare original and restored union under the same installed draws"]

    def parts(self):
        return PARTS


SPEC = C09Count()

CLAIM = dict(text=CLAIM_TEXT,
             note="Sampled states (exhaustive only in the theorems); custom serdes and allocators not exercised on the code.",
             technique="Lean 4 reader/writer round-trip proofs over bounded combinators + two-phase correspondence (model decodes what the code wrote)",
             design="DESIGN.md §3 C09")

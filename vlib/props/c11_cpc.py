"""C11 (group `cpc`) - truncated or corrupted images are rejected safely."""
from ..runner import Spec
from . import wire_cpc_common as W

PARTS = [W.C11Part()]

CLAIM_TEXT = ("CPC sketch: the specification reader is built only from bounded combinators (`decode_PS`), hence `prefix_rejected`: EVERY "
              "strict prefix of EVERY valid image is rejected (no padding case), and `decode_bounded`: the word arrays of any accepted "
              "image hold at most |input|/4 words. Tie: for sampled images of every flavor (incl. union results), every prefix length "
              "0..size-1 is fed to deserialize(bytes,n) from an exact-size heap block and to deserialize(istream) (two stack-fill "
              "patterns), and every preamble byte x 8 replacement values to both paths, followed by getters/validate/serialize/update on "
              "whatever was accepted; one forked child per image (re-forked after an abort) attributes sanitizer aborts to one case; "
              "outcomes throw/accept/asan/ubsan/timeout/alloc_cap/leak/crash; any non-throw on a prefix and any safety outcome on a "
              "corruption is a violation.")


class C11Cpc(Spec):
    pid = "C11"
    props_modules = ["DSProofs.Props.C11_Cpc"]
    harness = W.HARNESS
    model_exe = W.MODEL
    tfamilies = ["wire_cpc", "cpc"]
    rule = ("one image per state class (see C09; lg_k 4-5 quick, 4-8 thorough), each with ALL prefix lengths on the bytes path and the "
            "stream path (stack fills 0xFE and 0x01) and all (preamble byte, replacement) pairs on both paths; non-trivial = image longer "
            "than 16 bytes")
    trusted_base = W.TRUSTED + ["ASan/UBSan red zones and the allocation cap (ASan refuses > 512 MiB; a malloc hook flags >= 256 MiB) define "
                                "'out of bounds' and 'allocation bomb'"]
    assumptions = ["memory safety of the C++ readers is runtime behaviour: the theorems are about the specification reader, the exhaustive "
                   "per-image prefix/corruption runs under sanitizers carry them over to the code; the set of images is sampled",
                   "a stream reader that does not check the stream state reads indeterminate stack contents; the stream path is therefore "
                   "run under two stack-fill patterns (0xFE, 0x01)"]

    def parts(self):
        return PARTS

    def extra_stages(self, rep, tier, rng, broken):
        st = {}
        for p in PARTS:
            p.stats = st
        rep.cov["c11_stats"] = st
        rep.cov["exhaustive_per_image"] = True


SPEC = C11Cpc()

CLAIM = dict(text=CLAIM_TEXT, note="Images are sampled; multi-byte (consistent multi-field) corruptions are outside the fixed replacement set.",
             technique="prefix-safety of reader combinators (Lean) + exhaustive per-image prefix/corruption runs on the real readers under ASan/UBSan",
             design="DESIGN.md §3 C11")

"""C07, part "kll" — KLL sketch conserves weight, keeps exact extremes, answers coherently (DESIGN.md 3 C07).

`./check c07kll` runs this part alone (SPEC below); the integrator combines PART with the REQ and classic parts.
"""
import math, collections
from .. import core
from ..runner import Spec, Part
from .. import kll_util as U

NAN = "7ff8000000000000"
KEY_D2 = "kll-iterator-weights-level0-empty-after-merge"
KEY_NANRANK = "kll-nan-rank-answered"


def is_pow2(w):
    return w > 0 and (w & (w - 1)) == 0


class Stream:
    """one of the stream shapes named in the property's quantifier"""

    def __init__(self, rng, ty):
        self.rng, self.ty = rng, ty
        self.kind = rng.choice(["sorted", "reversed", "random", "random", "constant", "dups", "small"])
        self.u = rng.choice([8, 50, 1000, 10 ** 6])
        self.c = rng.randrange(self.u)
        self.i = 0

    def next_int(self):
        r, k = self.rng, self.kind
        self.i += 1
        if k == "sorted":
            return self.i
        if k == "reversed":
            return 10 ** 6 - self.i
        if k == "constant":
            return self.c
        if k == "dups":
            return self.c if r.random() < 0.7 else r.randrange(self.u)
        if k == "small":
            return r.randrange(5)
        return r.randrange(self.u) - self.u // 3

    def next(self):
        v = self.next_int()
        r = self.rng
        if self.ty == "i":
            return str(v)
        if self.ty == "d":
            x = r.random()
            if x < 0.04:
                return NAN                                   # ignored by update
            if x < 0.06:
                return r.choice(["7ff0000000000000", "fff0000000000000", "0000000000000001", "7fefffffffffffff"])
            d = float(v) / r.choice([1, 1, 2, 3])
            if d == 0.0:
                d = 0.0                                      # never -0.0: std::sort may order +-0 either way
            return U.f64hex(d)
        n = 1 + (abs(v) % 3)
        return "".join("abc"[(abs(v) // (3 ** j) + j) % 3] for j in range(n))


class KllC07(Part):
    name = "kll"
    harness = "kll_h"
    model_exe = "dsmodel_kll"
    family = "kll"
    timeout = 300

    # model and implementation get the same recorded coins; lines that differ are still accepted when their
    # coin-VALUE-independent projection agrees (relabelling of coin values is not a property change, DESIGN 2.11);
    # everything coin dependent is checked by the oracle and by the exhaustive coin trees of C08.
    @staticmethod
    def cmp(x, y):
        return U.coin_free_projection(x) == U.coin_free_projection(y)

    KS_QUICK = [8, 8, 12, 16, 20, 32]
    KS_THOROUGH = [8, 12, 16, 20, 32, 64, 200]

    def one_history(self, rng, tier):
        ty = rng.choice("iiiiidddss")
        ks = self.KS_QUICK if tier == "quick" else self.KS_THOROUGH
        h = ["consts", "cap %d %d" % (rng.choice(ks + [200, 65535]), rng.randrange(1, 14 if rng.random() < 0.8 else 62)),
             "coins " + "".join(rng.choice("01") for _ in range(3000))]
        nsk = rng.choice([1, 2, 2, 3, 4, 6])
        live, nxt = [], 0
        streams, kof = {}, {}
        for _ in range(nsk):
            k = rng.choice(ks)
            h.append("new %d %s %d" % (nxt, ty, k))
            live.append(nxt); streams[nxt] = Stream(rng, ty); kof[nxt] = k
            nxt += 1
        if rng.random() < 0.1:
            h.append("new 90 %s %d" % (ty, rng.choice([0, 7, 65536, 70000])))      # rejected
        nops = rng.choice([40, 120, 300, 600] if tier == "quick" else [100, 500, 1500, 3000])
        count = collections.Counter()
        grid_src = {}

        def sample_points(s, m):
            st = streams[s]
            pts = [st.next() for _ in range(m)]
            return [p for p in pts if p != NAN]

        def queries(s):
            q = ["q %d view" % s]
            for p in sample_points(s, rng.randrange(1, 5)):
                q.append("q %d rank %s %d" % (s, p, rng.randrange(2)))
                if rng.random() < 0.5:
                    q.append("q %d rank %s %d" % (s, p, rng.randrange(2)))
            for r in rng.sample([0.0, 0.01, 0.25, 0.5, 0.5, 0.75, 0.99, 1.0, rng.random()], rng.randrange(1, 5)):
                q.append("q %d quant %s %d" % (s, U.f64hex(r), rng.randrange(2)))
            if rng.random() < 0.6:
                T = U.Ty(ty)
                pts = sorted(set(T.parse(p) for p in sample_points(s, rng.randrange(0, 5))), key=T.key())
                lits = [(U.f64hex(p) if ty == "d" else str(p)) for p in pts]
                # drop equivalent neighbours (split points must be strictly increasing)
                out = []
                for p, l in zip(pts, lits):
                    if not out or T.lt(out[-1][0], p):
                        out.append((p, l))
                q.append("q %d %s %d %s" % (s, rng.choice(["cdf", "pmf"]), rng.randrange(2), " ".join(l for _, l in out)))
            x = rng.random()
            if x < 0.10:                                                              # invalid queries
                q.append("q %d quant %s %d" % (s, U.f64hex(rng.choice([-0.1, 1.5, -1e-300, 1.0000000000000002])), rng.randrange(2)))
            elif x < 0.13:
                q.append("q %d quant %s %d" % (s, NAN, rng.randrange(2)))
            elif x < 0.20:
                pts = sample_points(s, 3)
                if len(pts) >= 2:
                    q.append("q %d %s %d %s %s" % (s, rng.choice(["cdf", "pmf"]), rng.randrange(2), pts[0], pts[0]))   # not increasing
            elif x < 0.25 and ty == "d":
                q.append("q %d cdf %d %s" % (s, rng.randrange(2), NAN))
            if rng.random() < 0.2:
                q.append("q %d err %d" % (s, rng.randrange(2)))
            return q

        pm = rng.choice([0.0, 0.02, 0.05, 0.1])
        while len(h) < nops:
            s = rng.choice(live)
            r = rng.random()
            if r < pm and len(live) >= 2:
                t = rng.choice([x for x in live if x != s])
                rv = rng.random() < 0.4
                qb = rng.random() < 0.6
                if qb:
                    h += queries(s)      # the queries cache the sorted view inside the target: the merge must drop it (query -> merge -> query)
                h.append("merge %d %d%s" % (s, t, " rv" if rv else ""))
                if qb:
                    h += queries(s)
                if rv or rng.random() < 0.3:
                    live.remove(t)
                    if len(live) < 2 and nxt < 40:
                        k = rng.choice(ks)
                        h.append("new %d %s %d" % (nxt, ty, k))
                        live.append(nxt); streams[nxt] = Stream(rng, ty); kof[nxt] = k
                        nxt += 1
                if rng.random() < 0.5:
                    h += queries(s)
            elif r < pm + 0.01 and nxt < 40:
                h.append("copy %d %d" % (s, nxt))
                live.append(nxt); streams[nxt] = streams[s]; kof[nxt] = kof[s]
                nxt += 1
            elif r < pm + 0.05:
                h += queries(s)
            else:
                burst = rng.choice([1, 1, 1, 5, 20])
                for _ in range(burst):
                    h.append("upd %d %s" % (s, streams[s].next()))
        for s in live[:3]:
            h += queries(s)
        return h

    def merge_overflow_history(self, rng, tier):
        """a target whose level 0 was just sorted by a query (flag set) takes, in one merge, enough unsorted level-0 items to overflow
        level 0 PART-WAY through the merge loop: the compaction inside the loop must see an unsorted level 0"""
        ty = rng.choice("iiids")
        k = rng.choice([8, 8, 9, 12, 16])
        h = ["consts", "cap 200 4", "coins " + "".join(rng.choice("01") for _ in range(400)), "new 0 %s %d" % (ty, k), "new 1 %s %d" % (ty, k)]
        st = [Stream(rng, ty), Stream(rng, ty)]
        na = rng.randrange(max(2, k // 2), k)          # below the level-0 capacity
        nb = rng.randrange(k - 1, 2 * k)
        for _ in range(na):
            h.append("upd 0 %s" % st[0].next())
        h += ["q 0 view", "q 0 quant %s 1" % U.f64hex(0.5)]
        for _ in range(nb):
            h.append("upd 1 %s" % st[1].next())
        if rng.random() < 0.5:
            h.append("q 1 view")
        h.append("merge 0 1" + (" rv" if rng.random() < 0.3 else ""))
        h += ["q 0 view", "q 0 quant %s 0" % U.f64hex(0.0), "q 0 quant %s 1" % U.f64hex(1.0)]
        for _ in range(rng.choice([0, 3, k])):
            h.append("upd 0 %s" % st[0].next())
        h.append("q 0 view")
        return h

    def generate(self, rng, tier):
        n = 100 if tier == "quick" else 250
        return [self.one_history(rng, tier) for _ in range(n)] + [self.merge_overflow_history(rng, tier) for _ in range(12 if tier == "quick" else 80)]

    # ------------------------------------------------------------------ the property statement on one trace
    def oracle(self, hist, impl_out):
        bad = []
        C = dict(U.DEFAULT_CONSTS)
        sk = {}          # id -> dict(ty, T, k, items, lastS, view, after_merge, qs)

        def fail(key, what, i):
            bad.append((key, what, i))

        def check_S(s, d, i, after_merge):
            T, items = s["T"], s["items"]
            n = len(items)
            if d["n"] != n:
                fail("n-mismatch", "n=%d accepted=%d" % (d["n"], n), i)
            if n == 0:
                if d["min"] is not None or d["max"] is not None:
                    fail("minmax-mismatch", "extremes on an empty sketch", i)
            else:
                tmin, tmax = s["tmin"], s["tmax"]
                if d["min"] is None or d["max"] is None or not T.equiv(d["min"], tmin) or not T.equiv(d["max"], tmax):
                    fail("minmax-mismatch", "min=%r max=%r true=%r..%r" % (d["min"], d["max"], tmin, tmax), i)
            it = d["it"]
            if len(it) != d["retained"]:
                fail("iter-count", "iterator yields %d pairs, num_retained=%d" % (len(it), d["retained"]), i)
            ws = [w for _, w in it]
            if any(not is_pow2(w) for w in ws):
                fail("iter-weight-not-power-of-two", str(ws[:8]), i)
            wsum = sum(ws)
            weights_ok = wsum == d["n"]
            if not weights_ok:
                if after_merge and d["est"] and ws and all(w == 1 for w in ws) and len(it) == d["retained"]:
                    fail(KEY_D2, "iterator weights sum to %d, n=%d: all %d retained items reported with weight 1 in estimation "
                         "mode right after a merge (const_iterator starts at level 0 with weight 1 although level 0 is empty)"
                         % (wsum, d["n"], len(ws)), i)
                else:
                    fail("iter-weight-sum", "iterator weights sum to %d, n=%d" % (wsum, d["n"]), i)
            have = s["have"]
            got = collections.Counter(T.ident(x) for x, _ in it)
            if any(got[x] > have[x] for x in got):
                fail("retained-not-from-input", "retained items are not a sub-multiset of the accepted items", i)
            ub = U.ub_on_num_levels(d["n"])
            if d["retained"] > U.total_capacity(s["k"], ub, C["m"], C["p3"]):
                fail("retained-bound", "retained=%d > capacity(k=%d, levels=%d)" % (d["retained"], s["k"], ub), i)
            if weights_ok and ws:
                L = max(ws).bit_length()
                if L > ub:
                    fail("num-levels-bound", "levels=%d > ub_on_num_levels(%d)=%d" % (L, d["n"], ub), i)
                if d["retained"] > U.total_capacity(s["k"], L, C["m"], C["p3"]):
                    fail("retained-bound", "retained=%d > compute_total_capacity(k=%d, levels=%d)" % (d["retained"], s["k"], L), i)
                if d["est"] != (L > 1):
                    fail("estimation-mode-flag", "est=%s levels=%d" % (d["est"], L), i)
                last_w, prev = None, None
                for x, w in it:
                    if w != last_w:
                        last_w, prev = w, None
                    if w > 1 and prev is not None and T.lt(x, prev):
                        fail("level-unsorted", "level with weight %d is not sorted" % w, i)
                        break
                    prev = x
            if not d["est"]:
                if d["retained"] != d["n"] or any(w != 1 for w in ws) or got != have:
                    fail("exact-mode-not-exact", "not in estimation mode but retained items != accepted items", i)
            if d["flips"] is not None and s.get("flips") is not None and d["flips"] < s["flips"]:
                fail("flips-decreased", "", i)
            s["flips"] = d["flips"]
            s["lastS"], s["view"], s["qs"] = d, None, []
            s["weights_ok"] = weights_ok

        def add_items(s, xs):
            T = s["T"]
            for x in xs:
                s["items"].append(x)
                s["have"][T.ident(x)] += 1
                if s["tmin"] is None or T.lt(x, s["tmin"]):
                    s["tmin"] = x
                if s["tmax"] is None or T.lt(s["tmax"], x):
                    s["tmax"] = x

        def true_rank_num(s, x, incl):
            T = s["T"]
            return sum(1 for a in s["items"] if (T.le(a, x) if incl else T.lt(a, x)))

        for i, l in enumerate(hist):
            if i >= len(impl_out):
                break
            w = l.split()
            o = impl_out[i].strip()
            op = w[0]
            if o == "bad-op":
                fail("bad-observation", l[:60], i)
                continue
            if op == "consts":
                c = U.parse_consts(o)
                if c is None:
                    fail("bad-observation", o[:60], i)
                else:
                    C = c
            elif op == "cap":
                k, L = int(w[1]), int(w[2])
                want = "K %d %s" % (U.total_capacity(k, L, C["m"], C["p3"]), " ".join(str(U.level_capacity(k, L, hh, C["m"], C["p3"])) for hh in range(L)))
                if " ".join(o.split()) != want.strip():
                    fail("capacity-formula", "level_capacity(k=%d, levels=%d): %s, stated bound %s" % (k, L, o[:80], want[:80]), i)
            elif op == "coins":
                pass
            elif op == "new":
                sid, ty, k = int(w[1]), w[2], int(w[3])
                valid = C["min_k"] <= k <= C["max_k"]
                if o == "throw":
                    if valid:
                        fail("unexpected-throw", l, i)
                    continue
                if not valid:
                    fail("invalid-not-rejected", l, i)
                    continue
                T = U.Ty(ty)
                s = dict(ty=ty, T=T, k=k, items=[], lastS=None, view=None, qs=[], flips=None, have=collections.Counter(), tmin=None, tmax=None)
                sk[sid] = s
                d = U.parse_S(T, o)
                if d is None:
                    fail("bad-observation", o[:60], i)
                    continue
                check_S(s, d, i, False)
            elif op in ("upd", "updn", "merge", "copy"):
                if op == "copy":
                    src = sk.get(int(w[1]))
                    if src is None:
                        continue
                    s = dict(src, items=list(src["items"]), qs=[], have=collections.Counter(src["have"]))
                    sk[int(w[2])] = s
                else:
                    s = sk.get(int(w[1]))
                if s is None:
                    continue
                if o == "throw":
                    fail("unexpected-throw", l, i)
                    continue
                T = s["T"]
                d = U.parse_S(T, o)
                if d is None:
                    fail("bad-observation", o[:60], i)
                    continue
                after_merge = False
                if op == "upd":
                    x = T.parse(w[2])
                    if T.is_nan(x):
                        ls = s["lastS"]
                        if ls is not None and (d["n"], d["retained"]) != (ls["n"], ls["retained"]):
                            fail("nan-update-not-ignored", l, i)
                        after_merge = s.get("after_merge", False)
                    else:
                        add_items(s, [x])
                elif op == "updn":
                    cnt, st0, sd, md = int(w[2]), int(w[3]), int(w[4]), int(w[5])
                    vs = [(st0 + j * sd) % md for j in range(cnt)]
                    add_items(s, [float(v) for v in vs] if s["ty"] == "d" else vs)
                elif op == "merge":
                    t = sk.get(int(w[2]))
                    if t is not None:
                        add_items(s, list(t["items"]))
                        # an empty operand leaves the target as it was (also its "after merge" status)
                        after_merge = True if t["items"] else s.get("after_merge", False)
                else:
                    after_merge = s.get("after_merge", False)
                s["after_merge"] = after_merge
                check_S(s, d, i, after_merge)
            elif op == "q":
                s = sk.get(int(w[1]))
                if s is None:
                    continue
                T, q = s["T"], w[2]
                n = len(s["items"])
                if q == "view":
                    ow = o.split()
                    if not ow or ow[0] != "V":
                        fail("unexpected-throw" if o == "throw" else "bad-observation", l, i)
                        continue
                    total, ents = U.parse_V(T, ow[1:])
                    if total != n:
                        fail("view-total", "total=%d n=%d" % (total, n), i)
                    cums = [c for _, c in ents]
                    if any(b <= a for a, b in zip([0] + cums[:-1], cums)) or (cums and cums[-1] != total):
                        fail("view-cumulative", "cumulative weights not increasing to the total", i)
                    if any(T.lt(b[0], a[0]) for a, b in zip(ents[:-1], ents[1:])):
                        fail("view-unsorted", "", i)
                    vw = collections.Counter((T.ident(x), c - p) for (x, c), p in zip(ents, [0] + cums[:-1]))
                    ls = s["lastS"]
                    if ls is not None and s.get("weights_ok"):
                        if vw != collections.Counter((T.ident(x), ww) for x, ww in ls["it"]):
                            fail("view-vs-iterator", "sorted view and iterator disagree on the weighted multiset", i)
                    if ls is not None and not ls["est"]:
                        srt = sorted(s["items"], key=T.key())
                        if [c - p for c, p in zip(cums, [0] + cums[:-1])] != [1] * n or any(not T.equiv(a, b[0]) for a, b in zip(srt, ents)):
                            fail("exact-view", "exact mode: view is not the sorted input with unit weights", i)
                    s["view"] = (total, ents)
                    s["qs"] = []
                elif q == "rank":
                    x, incl = T.parse(w[3]), w[4] == "1"
                    if n == 0:
                        if o != "throw":
                            fail("invalid-not-rejected", "rank on an empty sketch answered", i)
                        continue
                    if o == "throw" or not o.startswith("R "):
                        fail("unexpected-throw", l, i)
                        continue
                    r = U.f64(o.split()[1])
                    if not (0.0 <= r <= 1.0):
                        fail("rank-out-of-range", o, i)
                    if s["view"] is not None:
                        total, ents = s["view"]
                        want = float(U.view_rank_num(T, ents, x, incl)) / float(total)
                        if U.f64hex(want) != o.split()[1]:
                            fail("rank-vs-view", "rank=%r, view gives %r" % (r, want), i)
                    ls = s["lastS"]
                    if ls is not None and not ls["est"]:
                        want = float(true_rank_num(s, x, incl)) / float(n)
                        if want != r:
                            fail("exact-rank", "exact mode: rank=%r true=%r" % (r, want), i)
                    for (k2, x2, i2, r2) in s["qs"]:
                        if k2 != "rank":
                            continue
                        if i2 == incl and ((T.le(x2, x) and r2 > r) or (T.le(x, x2) and r > r2)):
                            fail("rank-not-monotone", "", i)
                        if T.equiv(x, x2) and i2 != incl and ((incl and r < r2) or (not incl and r > r2)):
                            fail("rank-incl-lt-excl", "", i)
                    s["qs"].append(("rank", x, incl, r))
                elif q == "quant":
                    r, incl = U.f64(w[3]), w[4] == "1"
                    invalid = n == 0 or not (0.0 <= r <= 1.0)
                    if invalid:
                        if o != "throw":
                            if n > 0 and r != r:
                                fail(KEY_NANRANK, "get_quantile(NaN) is answered (%s) instead of rejected: the test "
                                     "`rank < 0.0 || rank > 1.0` is false for NaN" % o, i)
                            else:
                                fail("invalid-not-rejected", l, i)
                        continue
                    if o == "throw" or not o.startswith("Q "):
                        fail("unexpected-throw", l, i)
                        continue
                    qv = T.parse(o.split()[1])
                    if s["view"] is not None:
                        total, ents = s["view"]
                        wt = int(math.ceil(r * float(total))) if incl else int(r * float(total))
                        want = ents[-1][0]
                        for x, c in ents:
                            if (c >= wt) if incl else (c > wt):
                                want = x
                                break
                        if T.ident(want) != T.ident(qv):
                            fail("quantile-vs-view", "quantile(%r)=%r, view gives %r" % (r, qv, want), i)
                    ls = s["lastS"]
                    if ls is not None and not ls["est"]:
                        srt = sorted(s["items"], key=T.key())
                        wt = int(math.ceil(r * float(n))) if incl else int(r * float(n))
                        idx = max(wt - 1, 0) if incl else min(wt, n - 1)
                        if not T.equiv(srt[idx], qv):
                            fail("exact-quantile", "exact mode: quantile(%r)=%r true=%r" % (r, qv, srt[idx]), i)
                    for (k2, r2, i2, q2) in s["qs"]:
                        if k2 == "quant" and i2 == incl and ((r2 <= r and T.lt(qv, q2)) or (r <= r2 and T.lt(q2, qv))):
                            fail("quantile-not-monotone", "", i)
                    s["qs"].append(("quant", r, incl, qv))
                elif q in ("cdf", "pmf"):
                    incl = w[3] == "1"
                    sps = [T.parse(x) for x in w[4:]]
                    invalid = n == 0 or any(T.is_nan(x) for x in sps) or any(not T.lt(a, b) for a, b in zip(sps[:-1], sps[1:]))
                    if invalid:
                        if o != "throw":
                            fail("invalid-not-rejected", l, i)
                        continue
                    if o == "throw":
                        fail("unexpected-throw", l, i)
                        continue
                    vals = [U.f64(x) for x in o.split()[1:]]
                    if len(vals) != len(sps) + 1:
                        fail("cdf-pmf-inconsistent", "wrong number of buckets", i)
                        continue
                    if s["view"] is not None:
                        total, ents = s["view"]
                        cdf = [float(U.view_rank_num(T, ents, x, incl)) / float(total) for x in sps] + [1.0]
                        want = cdf if q == "cdf" else [cdf[0]] + [b - a for a, b in zip(cdf[:-1], cdf[1:])]
                        if want != vals:
                            fail("cdf-pmf-inconsistent", "%s=%r, ranks of the split points give %r" % (q, vals[:5], want[:5]), i)
                    if q == "cdf" and (vals[-1] != 1.0 or any(b < a for a, b in zip(vals[:-1], vals[1:]))):
                        fail("cdf-pmf-inconsistent", "CDF not monotone up to 1", i)
                    if q == "pmf" and (abs(sum(vals) - 1.0) > 1e-9 or any(v < 0 for v in vals)):
                        fail("cdf-pmf-inconsistent", "PMF does not sum to one / negative mass", i)
                elif q == "err":
                    if not o.startswith("E ") or not (0.0 < U.f64(o.split()[1]) < 1.0):
                        fail("bad-observation", o, i)
        return bad

    def nontrivial_key(self, hist, impl_out):
        """non-trivial: some sketch in estimation mode took part in a merge, or >= 3 compaction flips happened"""
        est_merge, flips, fin = False, 0, []
        est = {}
        for l, o in zip(hist, impl_out):
            w = l.split()
            ow = o.split()
            if ow and ow[0] == "S":
                if w[0] in ("new", "upd", "merge"):
                    est[w[1]] = ow[5] == "1"
                if w[0] == "merge" and (est.get(w[1]) or est.get(w[2])):
                    est_merge = True
                if ow[-2] == "F":
                    flips = int(ow[-1])
                fin = (ow[1], ow[4])
        if not (est_merge or flips >= 3):
            return None
        return (tuple(l for l in hist if l.startswith("new ")), flips, fin)


PART = KllC07()


class C07Kll(Spec):
    pid = "C07"
    props_modules = ["DSProofs.Props.C07_View", "DSProofs.Props.C07_Kll", "DSProofs.Props.C07_Kll_Repaired"]
    tfamilies = ["kll"]
    rule = ("histories over 1-6 live KLL sketches (int64 / double / string with a length-first comparator; k in {8,12,16,20,32} "
            "quick, + {64,200} thorough, mixed) with sorted/reversed/random/constant/duplicate-heavy/NaN-containing streams, "
            "lvalue and rvalue merges in random trees, copies, recorded coins supplied to both sides, interleaved view/rank/"
            "quantile/CDF/PMF queries incl. invalid ones; non-trivial = a sketch in estimation mode took part in a merge or >= 3 "
            "compactions happened; distinct = distinct (configuration, flips, final n, final retained)")
    trusted_base = ["Lean 4.33 kernel", "axioms: propext, Quot.sound, Classical.choice",
                    "tools/trules/kll.py (constants, powers_of_three, error constants from the headers; dumped values compared)",
                    "correspondence harness harness/kll_h.cpp + generators (sampled histories; public-API observations, coin hook H1)",
                    "L1 model: packed items_/levels_ arrays abstracted to a list of levels; machine integer widths not modelled",
                    "floating point: theorems about ranks are over Nat/Rat; the Float instance is executed and compared bit for bit"]
    assumptions = ["theorems are about lean/DSModel/Kll/Sketch.lean and DSModel/SortedView.lean; the tie to the headers is differential (sampled)",
                   "the comparator is a strict weak order; order of equivalent-but-distinct items inside std::sort is unspecified (-0.0 avoided)",
                   "self-merge and use of a moved-from sketch are outside the generated histories"]

    def parts(self):
        return [PART]


SPEC = C07Kll()

CLAIM_TEXT = (
    "KLL part of C07: kernel-checked theorems, for every k, every history of updates/merges/copies over any number of sketches and "
    "every coin sequence, about an executable Lean model of kll_sketch (n exact; min/max exact; every level above 0 sorted; "
    "sum of 2^level * |level| = n, so assert_correct_total_weight never fires; retained <= compute_total_capacity and "
    "numLevels <= ub_on_num_levels(n); exact while one level: ranks and quantiles are those of the input multiset) and about the shared "
    "sorted view (sorted, total = n, rank monotone, inclusive >= exclusive, quantile monotone and dual to rank, CDF/PMF consistent, "
    "sum to one, invalid split points rejected). The model is tied to the real headers by differential runs with harness-supplied "
    "coins and by the property oracle on every implementation trace. Two findings of the current code are kept as witnesses: the "
    "const_iterator reports weight 1 for every item when level 0 is empty after a merge (weight_conserved_full_false), and "
    "get_quantile(NaN) is answered.")

CLAIM = dict(text=CLAIM_TEXT,
             note="KLL only (REQ and classic quantiles are separate parts). Float rounding is executed, not proved.",
             technique="Lean 4 invariant proofs over coin trees + differential correspondence with supplied coins + trace oracle",
             design="DESIGN.md §3 C07")

"""C15 — Bloom filter: no false negatives in any representation; bitwise set algebra (DESIGN.md 3 C15).

Parts:
  main  histories over several filters (owned / caller memory) and memory blocks; model == implementation on
        every observation line, and the PROPERTY ORACLE (inserted-set bookkeeping per bit state, below) on the
        implementation's trace;
  hash  XXHash64 on raw bytes of every length 0..64(+) and the bit positions produced by every update overload;
  sugg  builder arithmetic (suggest_num_filter_bits / suggest_num_hashes), correspondence only.

Oracle bookkeeping (independent of the Lean step model; it only reads the implementation's observations):
  S(state)  items inserted into a bit state (an owned array or a caller block) since its last destructive op;
  M(view)   items the view must report present: S(state) at the moment the view was created (copy, deserialize,
            wrap, writable_wrap), plus everything inserted / unioned through the view itself afterwards;
  single-writer discipline: a write through a view of a block that another view has written since (a stale
            cache) voids every promise about that block (`tainted`), as do raw byte blocks supplied by the history.
"""
import os, struct
from .. import core, gen
from ..runner import Spec, Part

DIRTY = 2**64 - 1
KAT = {("-", 0): "ef46db3751d8e999", ("61", 0): "d24ec4f1a98c6e5b", ("616263", 0): "44bc2cf5ad770999",
       ("-", 2654435761): "ac75fda2929b17ef"}


# ----------------------------------------------------------------------------- item canonicalisation (python side)

def canon(ty, lit):
    """bytes hashed by the overload, None = ignored item (independent re-statement of bloom_filter_impl.hpp:543-622)."""
    def le(v):
        return struct.pack("<Q", v % 2**64)

    def sx(v, w):
        v %= 2**w
        return v - 2**w if v >= 2**(w - 1) else v
    if ty == "u64":
        return le(int(lit))
    if ty == "i64":
        return le(int(lit))
    if ty in ("u32", "u16", "u8"):
        return le(int(lit) % 2**int(ty[1:]))
    if ty in ("i32", "i16", "i8"):
        return le(sx(int(lit), int(ty[1:])))
    if ty in ("f64", "f32"):
        if ty == "f64":
            d = struct.unpack("<d", struct.pack("<Q", int(lit, 16)))[0]
        else:
            d = struct.unpack("<f", struct.pack("<I", int(lit, 16)))[0]
        if d == 0.0:
            return le(0)
        if d != d:
            return le(0x7ff8000000000000)
        return struct.pack("<d", d)
    if ty in ("str", "raw"):
        b = b"" if lit == "-" else bytes.fromhex(lit)
        return b or None
    raise ValueError(ty)


def round64(n):
    return (n + 63) // 64 * 64


def make_image(k, seed, cap, nbs, bits, empty=False):
    """a serialized image as the documented layout says (used for raw / malformed blocks)."""
    if empty:
        return struct.pack("<BBBBHHQII", 3, 1, 21, 4, k, 0, seed, cap // 64, 0)
    return struct.pack("<BBBBHHQIIQ", 4, 1, 21, 0, k, 0, seed, cap // 64, 0, nbs) + bits.to_bytes(cap // 8, "little")


# ----------------------------------------------------------------------------- observation parsing

def parse_line(line):
    """-> (out, {vid: rec}, {mid: bytes}) or None."""
    parts = line.split("|")
    if len(parts) != 3:
        return None
    out = parts[0].strip()
    views, blocks = {}, {}
    for tok in parts[1].split():
        name, _, rest = tok.partition("=")
        f = rest.split(":")
        if len(f) != 6:
            return None
        views[int(name[1:])] = dict(empty=f[0][0] == "1", ro=f[0][1] == "1", wrapped=f[0][2] == "1", owned=f[0][3] == "1",
                                    cap=int(f[1]), k=int(f[2]), seed=int(f[3]), q=f[4],
                                    img=b"" if f[5] == "-" else bytes.fromhex(f[5]))
    for tok in parts[2].split():
        name, _, rest = tok.partition("=")
        blocks[int(name[1:])] = b"" if rest == "-" else bytes.fromhex(rest)
    return out, views, blocks


def popcount(b):
    return bin(int.from_bytes(b, "little")).count("1")


# ----------------------------------------------------------------------------- generator

SIZES = [1, 2, 7, 31, 63, 64, 65, 100, 127, 128, 129, 191, 192, 193, 255, 256, 257]
SEEDS = [0, 1, 7, 9001, 2**63, 2**64 - 1]


class Sim:
    """light approximate book-keeping so that generated histories are mostly valid (the oracle never relies on it)."""

    def __init__(self, rng, tier):
        self.rng = rng
        self.h = []
        self.views = {}     # id -> dict(cfg, m|None, ro)
        self.blocks = {}    # id -> dict(kind raw|init|img, cfg|None, empty:bool, size)
        self.nv = 0
        self.nb = 0
        self.tier = tier

    def fresh_v(self):
        self.nv += 1
        return self.nv - 1

    def fresh_b(self):
        self.nb += 1
        return self.nb - 1


def rand_cfg(rng, base=None):
    if base is not None and rng.random() < 0.8:
        nb, k, seed = base
        if rng.random() < 0.5:
            lo = round64(nb) - 63
            nb = rng.randrange(max(1, lo), round64(nb) + 1)     # same capacity after rounding -> compatible
        return nb, k, seed
    nb = rng.choice(SIZES) if rng.random() < 0.7 else rng.randrange(1, 258)
    return nb, rng.randrange(1, 8), (rng.choice(SEEDS) if rng.random() < 0.6 else rng.randrange(2**64))


def gen_universe(rng, n):
    items = []
    want = ["u64", "i64", "u32", "i32", "u16", "i16", "u8", "i8", "f64", "f32", "str", "raw"]
    while len(items) < n:
        ty = want[len(items)] if len(items) < len(want) else None
        t, l = gen.rand_input(rng, 24, [ty] if ty else None)
        items.append((t, l))
    # deliberate cross-type aliases: same 8 bytes through different overloads, -0.0/+0.0, NaNs
    items += [("u8", "5"), ("u64", "5"), ("i32", "5"), ("i8", "-1"), ("u8", "255"), ("u64", str(2**64 - 1)),
              ("f64", "8000000000000000"), ("f32", "00000000"), ("f64", "7ff8000000000001"), ("f32", "ffc00000"), ("str", "-"), ("raw", "-")]
    return items


def gen_history(rng, tier, focus=None):
    s = Sim(rng, tier)
    h = s.h
    univ = gen_universe(rng, rng.choice([12, 14, 18]))
    h.append("univ " + " ".join("%s %s" % it for it in univ))
    base = rand_cfg(rng)
    nops = rng.choice([12, 25, 40, 60]) if tier == "quick" else rng.choice([25, 60, 120])
    # weights
    W = dict(upd=26, qau=15, bits=5, reset=3, union=6, inter=4, invert=2, copy=3, ser=6, deser=4, wrap=6, wwrap=6,
             new=3, init=5, drop=2, q=1, newacc=1, initacc=1, rawimg=2)
    if focus == "memory":
        W.update(init=12, wrap=12, wwrap=12, deser=8, new=1)
    if focus == "setops":
        W.update(union=14, inter=10, invert=5, new=8)
    kinds = list(W)
    wts = [W[k] for k in kinds]

    def item():
        return rng.choice(univ) if rng.random() < 0.93 else gen.rand_input(rng, 1000)

    def new_block_for(cfg, exact=None):
        nb, k, seed = cfg
        need = 8 * (4 + round64(nb) // 64)
        r = rng.random() if exact is None else 0.0
        size = need if r < 0.6 else need + rng.choice([1, 8, 13, 64]) if r < 0.9 else max(0, need - rng.choice([1, 8, 9, 32]))
        fill = rng.choice(["00", "aa", "ff", None])
        hx = "".join(fill or "%02x" % rng.randrange(256) for _ in range(size)) or "-"
        m = s.fresh_b()
        h.append("blk %d %s" % (m, hx))
        s.blocks[m] = dict(kind="raw", cfg=None, empty=False, size=size, wrapok=False)
        return m, size >= need

    def pick_view(pred=None):
        c = [v for v, d in s.views.items() if pred is None or pred(d)]
        return rng.choice(c) if c else None

    def start_view():
        if rng.random() < 0.5:
            v = s.fresh_v()
            cfg = rand_cfg(rng, base)
            h.append("new %d %d %d %d" % (v, cfg[0], cfg[1], cfg[2]))
            s.views[v] = dict(cfg=cfg, m=None, ro=False)
        else:
            cfg = rand_cfg(rng, base)
            m, ok = new_block_for(cfg)
            v = s.fresh_v()
            h.append("init %d %d %d %d %d" % (v, m, cfg[0], cfg[1], cfg[2]))
            if ok:
                s.views[v] = dict(cfg=cfg, m=m, ro=False)
                s.blocks[m] = dict(kind="init", cfg=cfg, empty=False, size=0, wrapok=True)

    start_view()
    for _ in range(nops):
        if not s.views:
            start_view()
            continue
        if len(s.views) > 7:
            v = pick_view()
            h.append("drop %d" % v)
            del s.views[v]
            continue
        op = rng.choices(kinds, wts)[0]
        if op in ("upd", "qau", "q"):
            v = pick_view((lambda d: not d["ro"]) if rng.random() < 0.9 else None)
            if v is None:
                continue
            ty, lit = item()
            h.append("%s %d %s %s" % (op, v, ty, lit))
            if op == "upd" and rng.random() < 0.35:      # the update-then-query_and_update pattern on the same item
                h.append("qau %d %s %s" % (v, ty, lit))
        elif op == "bits":
            h.append("bits %d" % pick_view())
        elif op == "reset":
            h.append("reset %d" % pick_view())
        elif op in ("union", "inter"):
            v = pick_view((lambda d: not d["ro"]) if rng.random() < 0.85 else None)
            if v is None:
                continue
            cv = s.views[v]["cfg"]
            same = [u for u, d in s.views.items() if (round64(d["cfg"][0]), d["cfg"][1], d["cfg"][2]) == (round64(cv[0]), cv[1], cv[2])]
            u = rng.choice(same) if (same and rng.random() < 0.85) else pick_view()
            h.append("%s %d %d" % (op, v, u))
        elif op == "invert":
            v = pick_view((lambda d: not d["ro"]) if rng.random() < 0.8 else None)
            if v is not None:
                h.append("invert %d" % v)
        elif op == "copy":
            v = pick_view()
            tgt = None
            if s.views[v]["m"] is None and rng.random() < 0.45:
                # copy ASSIGNMENT into a live owned filter (the harness assigns when the target id exists), preferably one of the same
                # configuration (an implementation may then reuse the allocation) and right after plain updates of the source (its cached
                # bit count is stale then: the assignment must not make the stale value the target's exact count)
                cv = s.views[v]["cfg"]
                c = [u for u, d in s.views.items() if u != v and d["m"] is None and not d["ro"]]
                same = [u for u in c if (round64(s.views[u]["cfg"][0]), s.views[u]["cfg"][1], s.views[u]["cfg"][2]) == (round64(cv[0]), cv[1], cv[2])]
                if not same and rng.random() < 0.7:
                    u = s.fresh_v()
                    h.append("new %d %d %d %d" % (u, cv[0], cv[1], cv[2]))
                    s.views[u] = dict(cfg=cv, m=None, ro=False)
                    same = [u]
                tgt = rng.choice(same) if same and rng.random() < 0.8 else (rng.choice(c) if c else None)
            if tgt is not None:
                if not s.views[v]["ro"]:
                    for _ in range(rng.choice([0, 1, 3])):
                        ty, lit = item()
                        h.append("upd %d %s %s" % (v, ty, lit))
                h.append("copy %d %d" % (v, tgt))
                s.views[tgt] = dict(s.views[v])
                ty, lit = item()
                h.append("q %d %s %s" % (tgt, ty, lit))
                h.append("bits %d" % tgt)
            else:
                v2 = s.fresh_v()
                h.append("copy %d %d" % (v, v2))
                s.views[v2] = dict(s.views[v])
        elif op == "ser":
            v = pick_view()
            m = s.fresh_b()
            h.append("ser %d %d %d" % (v, m, rng.choice([0, 1, 0, 1, 2, 9, 14, 65])))      # 0 bytes, 1 stream, h+1: bytes behind a header of h bytes
            s.blocks[m] = dict(kind="img", cfg=s.views[v]["cfg"], empty=None, size=0, wrapok=True)
        elif op in ("deser", "wrap", "wwrap"):
            c = [m for m, d in s.blocks.items() if d["wrapok"]]
            if not c:
                continue
            m = rng.choice(c)
            d = s.blocks[m]
            v = s.fresh_v()
            if op == "deser":
                h.append("deser %d %d %d" % (m, v, rng.randrange(2) if d["kind"] == "img" else 0))
                s.views[v] = dict(cfg=d["cfg"], m=None, ro=False)
            else:
                h.append("%s %d %d" % (op, m, v))
                s.views[v] = dict(cfg=d["cfg"], m=m, ro=(op == "wrap"))
        elif op == "new":
            v = s.fresh_v()
            cfg = rand_cfg(rng, base)
            if rng.random() < 0.08:
                cfg = rng.choice([(0, cfg[1], cfg[2]), (cfg[0], 0, cfg[2]), (17179868921, 1, 0)])
                h.append("new %d %d %d %d" % ((v,) + cfg))
            else:
                h.append("new %d %d %d %d" % ((v,) + cfg))
                s.views[v] = dict(cfg=cfg, m=None, ro=False)
        elif op == "init":
            cfg = rand_cfg(rng, base)
            reuse = [m for m, d in s.blocks.items() if d["kind"] == "init"]
            v = s.fresh_v()
            if reuse and rng.random() < 0.2:
                m = rng.choice(reuse)
                cfg = s.blocks[m]["cfg"] if rng.random() < 0.7 else (min(cfg[0], s.blocks[m]["cfg"][0]), cfg[1], cfg[2])
                h.append("init %d %d %d %d %d" % (v, m, cfg[0], cfg[1], cfg[2]))
                # older views of this memory now see a re-initialised block; they keep the old configuration: drop them
                for o in [o for o, d in s.views.items() if d["m"] == m]:
                    h.append("drop %d" % o)
                    del s.views[o]
                s.views[v] = dict(cfg=cfg, m=m, ro=False)
                s.blocks[m] = dict(kind="init", cfg=cfg, empty=False, size=0, wrapok=True)
            else:
                m, ok = new_block_for(cfg)
                if rng.random() < 0.06:
                    cfg = (cfg[0], 0, cfg[2])
                    ok = False
                h.append("init %d %d %d %d %d" % (v, m, cfg[0], cfg[1], cfg[2]))
                if ok:
                    s.views[v] = dict(cfg=cfg, m=m, ro=False)
                    s.blocks[m] = dict(kind="init", cfg=cfg, empty=False, size=0, wrapok=True)
        elif op == "drop":
            if len(s.views) > 1:
                v = pick_view()
                h.append("drop %d" % v)
                del s.views[v]
        elif op in ("newacc", "initacc"):
            n = rng.choice([1, 2, 5, 10, 20])
            p = rng.choice([0.5, 0.3, 0.1, 0.05, 0.01, 0.9])
            if rng.random() < 0.1:
                n, p = rng.choice([(0, 0.1), (5, 0.0), (5, 1.5), (5, -0.1), (5, 1.0)])
            bad = n == 0 or p <= 0.0 or p >= 1.0
            seed = rng.choice(SEEDS)
            v = s.fresh_v()
            import math
            if bad:
                cfg = (1, 1, seed)
            else:
                cfg = (int(math.ceil(-n * math.log(p) / (math.log(2.0) ** 2))), int(math.ceil(-math.log(p) / math.log(2.0))), seed)
            if op == "newacc":
                h.append("newacc %d %d %s %d" % (v, n, gen.f64hex(p), seed))
                if not bad:
                    s.views[v] = dict(cfg=cfg, m=None, ro=False)
            else:
                m, ok = new_block_for(cfg, exact=True)
                h.append("initacc %d %d %d %s %d" % (v, m, n, gen.f64hex(p), seed))
                if not bad:
                    s.views[v] = dict(cfg=cfg, m=m, ro=False)
                    s.blocks[m] = dict(kind="init", cfg=cfg, empty=False, size=0, wrapok=True)
        elif op == "rawimg":
            # a well-formed foreign image with arbitrary bits and a consistent / dirty count
            cfg = rand_cfg(rng, base)
            cap = round64(cfg[0])
            bits = rng.getrandbits(cap) & rng.getrandbits(cap)
            if bits == 0:
                bits = 1
            nbs = rng.choice([bin(bits).count("1"), DIRTY])
            img = make_image(cfg[1], cfg[2], cap, nbs, bits)
            m = s.fresh_b()
            h.append("blk %d %s" % (m, img.hex()))
            s.blocks[m] = dict(kind="rawimg", cfg=(cap, cfg[1], cfg[2]), empty=False, size=len(img), wrapok=True)
    return h


def reader_strict():
    """shape of the readers as the translator read it from the current headers (lean/DSGen/Bloom.lean, bloom_READER_STRICT)"""
    try:
        return "def bloom_READER_STRICT : Bool := true" in open(os.path.join(core.LEAN, "DSGen", "Bloom.lean")).read()
    except OSError:
        return False


def gen_malformed(rng):
    """separate malformed stream: one header field of a valid image corrupted / truncated, then deserialize / wrap.
    Combinations on which the real code would read past the buffer or divide by zero (C11's subject) are not generated:
    non-empty images shorter than 32 bytes, wraps of images shorter than their declared bit array, zero-length arrays."""
    h = ["univ u64 1 u64 2 str 6162"]
    strict = reader_strict()     # validated readers: the formerly unsafe combinations are refusals now, so they are generated too
    m = 0
    v = 0
    dropped = 0
    for _ in range(rng.choice([4, 8, 12])):
        k, seed, cap = rng.randrange(1, 8), rng.choice(SEEDS), rng.choice([64, 128, 192])
        bits = rng.getrandbits(cap) | 1
        empty = rng.random() < 0.3
        img = bytearray(make_image(k, seed, cap, bin(bits).count("1"), bits, empty))
        mut = rng.choice(["pre", "ser", "fam", "flags", "k0", "longs+", "nbs", "trunc", "none", "dirty", "nbs0"] + (["longs0", "pre3"] if strict else []))
        wrap_ok = True
        if mut == "pre":
            img[0] = rng.choice([0, 1, 2, 5, 255] + ([4] if empty else []))
            if not empty and len(img) >= 32 and rng.random() < 0.3:
                img[0] = 3
        elif mut == "ser":
            img[1] = rng.choice([0, 2, 255])
        elif mut == "fam":
            img[2] = rng.choice([0, 20, 22, 255])
        elif mut == "flags":
            img[3] = rng.choice([1, 2, 8, 251, 255] if not empty else [4, 5, 7, 255, 12])
            if not empty and (img[3] & 4):
                pass                      # becomes an "empty" image with trailing bytes: reader stops early
        elif mut == "k0":
            img[4] = 0; img[5] = 0
        elif mut == "longs0":
            struct.pack_into("<I", img, 16, 0)
        elif mut == "pre3" and not empty:
            img[0] = 3
        elif mut == "longs+" and not empty:
            struct.pack_into("<I", img, 16, cap // 64 + rng.choice([1, 2, 100]))
            wrap_ok = strict
        elif mut == "nbs" and not empty:
            struct.pack_into("<Q", img, 24, rng.choice([0, 1, cap, cap + 1, 2**63]))
        elif mut == "nbs0" and not empty:
            struct.pack_into("<Q", img, 24, 0)
        elif mut == "dirty" and not empty:
            struct.pack_into("<Q", img, 24, DIRTY)
        elif mut == "trunc":
            if empty:
                img = img[:rng.choice([0, 1, 7, 8, 16, 23])]
            else:
                img = img[:rng.choice([0, 7, 8, 23, 24, 31, 32, 33, len(img) - 8, len(img) - 1])]
                wrap_ok = strict
        nonempty_flag = len(img) > 3 and not (img[3] & 4)
        if not strict and nonempty_flag and 8 <= len(img) < 32 and img[0] in (3, 4) and img[1] == 1 and img[2] == 21 and len(img) >= img[0] * 8:
            continue                      # pinned readers: would read the count past the buffer (C11)
        h.append("blk %d %s" % (m, bytes(img).hex() or "-"))
        ops = ["deser"] + (["wrap", "wwrap"] if wrap_ok else [])
        for op in rng.sample(ops, len(ops)):
            if op == "deser":
                h.append("deser %d %d 0" % (m, v))
            else:
                h.append("%s %d %d" % (op, m, v))
            v += 1
            if rng.random() < 0.5:
                h.append("qau %d u64 1" % (v - 1))
                h.append("upd %d u64 2" % (v - 1))
                h.append("bits %d" % (v - 1))
        m += 1
        if v - dropped > 6:
            for o in range(dropped, v):
                h.append("drop %d" % o)
            dropped = v
    return h


# ----------------------------------------------------------------------------- the property oracle

class Oracle:
    def __init__(self, hist, impl_out):
        self.hist, self.out = hist, impl_out
        self.bad = []
        self.views = {}      # vid -> dict(state, M, promised, sync, ro, broken)
        self.states = {}     # key -> dict(S, ver, tainted)
        self.univ = []
        self.ucanon = []
        self.ghost = {}

    def fail(self, key, what, i):
        self.bad.append((key, what, i))

    # --- ghost helpers
    def st(self, v):
        return self.states[self.views[v]["state"]]

    def views_of(self, key):
        return [d for d in self.views.values() if d["state"] == key]

    def taint(self, key):
        s = self.states[key]
        s["tainted"] = True
        s["S"] = set()
        for d in self.views_of(key):
            d["M"] = set()

    def write(self, v):
        """a write through view v happened. returns True when promises survive."""
        d = self.views[v]
        key = d["state"]
        s = self.states[key]
        if key[0] == "mem":
            if s["tainted"]:
                return False
            if d["sync"] != s["ver"] or d["ro"]:
                self.taint(key)
                return False
            s["ver"] += 1
            d["sync"] = s["ver"]
        return d["promised"] and not s["tainted"]

    def destructive(self, key, newS, acting=None):
        """every view of the state loses its must-set, except the acting view which keeps what survives"""
        s = self.states[key]
        s["S"] = set(newS)
        for d in self.views_of(key):
            if d is acting:
                d["M"] &= s["S"]
            else:
                d["M"] = set()

    def bits_of(self, rec, blocks):
        """capacity bits (bytes) of a view as visible in the observation, None if not visible."""
        if rec["wrapped"]:
            return None
        if len(rec["img"]) >= 32 and not (rec["img"][3] & 4):
            return rec["img"][32:32 + rec["cap"] // 8]
        return None

    def mem_bits(self, vrec, mbytes):
        return mbytes[32:32 + vrec["cap"] // 8]

    def run(self):
        prev = None
        for i, l in enumerate(self.hist):
            if i >= len(self.out):
                break
            p = parse_line(self.out[i])
            if p is None:
                if self.out[i].strip() != "bad-op":
                    self.fail("bad-observation", self.out[i][:80], i)
                break
            self.step(i, l.split(), p, prev)
            prev = p
        return self.bad

    def bits_for(self, v, p):
        """current capacity bits of view v from observation p (memory bytes for wrapped views)."""
        out, vr, br = p
        r = vr.get(v)
        if r is None:
            return None
        d = self.views.get(v)
        if r["wrapped"] and d is not None and d["state"][0] == "mem" and d["state"][1] in br:
            return self.mem_bits(r, br[d["state"][1]])
        return self.bits_of(r, br)

    def step(self, i, w, p, prev):
        out, vr, br = p
        op = w[0]
        pv = prev[1] if prev else {}
        if op == "univ":
            self.univ = [(w[j], w[j + 1]) for j in range(1, len(w) - 1, 2)]
            self.ucanon = [canon(t, x) for t, x in self.univ]
            self.ghost[i] = "G"
            return
        created = None
        if out == "noview" or out == "noblk":
            pass
        elif op in ("new", "newacc"):
            v = int(w[1])
            if op == "new":
                nb, k = int(w[2]), int(w[3])
                should_throw = nb == 0 or k == 0 or nb > 17179868920
                if should_throw and out != "throw":
                    self.fail("bad-arguments-not-refused", " ".join(w), i)
                if not should_throw and out == "ok" and v in vr and vr[v]["cap"] != round64(nb):
                    self.fail("capacity-not-rounded-to-64", "asked %d got %d" % (nb, vr[v]["cap"]), i)
            if out == "ok":
                self.states[("own", v)] = dict(S=set(), ver=0, tainted=False)
                self.views[v] = dict(state=("own", v), M=set(), promised=True, sync=0, ro=False)
                created = v
        elif op == "blk":
            m = int(w[1])
            self.states[("mem", m)] = dict(S=set(), ver=0, tainted=True)
        elif op in ("init", "initacc"):
            v, m = int(w[1]), int(w[2])
            if op == "init":
                nb, k = int(w[3]), int(w[4])
                small = m in br and len(br[m]) < 8 * (4 + round64(nb) // 64)
                should_throw = nb == 0 or k == 0 or nb > 17179868920 or small
                if should_throw and out != "throw":
                    self.fail("bad-arguments-not-refused", " ".join(w), i)
            if out == "ok":
                key = ("mem", m)
                old = self.states.get(key, dict(ver=0))
                self.states[key] = dict(S=set(), ver=old["ver"] + 1, tainted=False)
                for d in self.views_of(key):
                    d["M"] = set()
                self.views[v] = dict(state=key, M=set(), promised=True, sync=old["ver"] + 1, ro=False)
                created = v
        elif op in ("upd", "qau"):
            v = int(w[1])
            c = canon(w[2], w[3])
            d = self.views.get(v)
            if d is not None:
                rec_before = pv.get(v)
                ro = rec_before["ro"] if rec_before else False
                if c is None:
                    if out not in ("ok", "b0"):
                        self.fail("ignored-item-not-ignored", " ".join(w) + " -> " + out, i)
                elif ro:
                    if out != "throw":
                        self.fail("readonly-write-not-refused", "%s through a read-only wrap returned %s" % (op, out), i)
                        self.write(v)
                else:
                    if out == "throw":
                        self.fail("valid-update-refused", " ".join(w), i)
                    else:
                        st = self.st(v)
                        in_sync = d["promised"] and not st["tainted"] and (d["state"][0] == "own" or d["sync"] == st["ver"])
                        if op == "qau" and in_sync and rec_before is not None and (w[2], w[3]) in self.univ:
                            was = rec_before["q"][self.univ.index((w[2], w[3]))]
                            if out != "b" + was:
                                self.fail("qau-differs-from-prior-query", "query before=%s, query_and_update returned %s" % (was, out), i)
                        if self.write(v):
                            self.st(v)["S"].add(c)
                            d["M"].add(c)
        elif op == "reset":
            v = int(w[1])
            d = self.views.get(v)
            if d is not None:
                ro = pv.get(v, {}).get("ro", False)
                if ro and out != "throw":
                    self.fail("readonly-write-not-refused", "reset through a read-only wrap returned %s" % out, i)
                if out == "ok":
                    self.write(v)
                    self.destructive(d["state"], set())
        elif op in ("union", "inter", "invert"):
            v = int(w[1])
            u = int(w[2]) if op != "invert" else v
            d, du = self.views.get(v), self.views.get(u)
            rv, ru = pv.get(v), pv.get(u)
            if d is not None and du is not None and rv and ru:
                compat = (rv["cap"], rv["k"], rv["seed"]) == (ru["cap"], ru["k"], ru["seed"])
                if op != "invert" and not compat:
                    if out != "throw":
                        self.fail("incompatible-operands-not-refused", " ".join(w) + " -> " + out, i)
                elif rv["ro"]:
                    if out != "throw":
                        self.fail("readonly-write-not-refused", "%s through a read-only wrap returned %s" % (op, out), i)
                        self.write(v)
                        self.destructive(d["state"], set())
                elif out == "throw":
                    self.fail("valid-setop-refused", " ".join(w), i)
                elif out.startswith("n"):
                    a, b = self.bits_for(v, prev), self.bits_for(u, prev)
                    r = self.bits_for(v, p)
                    if a is not None and b is not None and r is not None:
                        ai, bi = int.from_bytes(a, "little"), int.from_bytes(b, "little")
                        want = ai | bi if op == "union" else ai & bi if op == "inter" else ai ^ (2**rv["cap"] - 1)
                        if int.from_bytes(r, "little") != want:
                            self.fail("setop-not-bitwise", "%s: bits differ from the bitwise result" % op, i)
                    if r is not None and int(out[1:]) != popcount(r):
                        self.fail("setop-count-not-popcount", "%s: bits_used=%s popcount=%d" % (op, out[1:], popcount(r)), i)
                    keep = self.write(v)
                    su = self.states[du["state"]]
                    sv = self.states[d["state"]]
                    suS = set(su["S"])
                    if du["state"][0] == "mem":
                        # the source's recorded items count only if the source view still agrees with the header of its memory
                        mb = prev[2].get(du["state"][1], b"")
                        hdr = (struct.unpack_from("<I", mb, 16)[0] * 64 % 2**32, struct.unpack_from("<H", mb, 4)[0],
                               struct.unpack_from("<Q", mb, 8)[0]) if len(mb) >= 24 else None
                        if hdr != (ru["cap"], ru["k"], ru["seed"]):
                            suS = set()
                    if op == "union":
                        if keep:
                            sv["S"] |= suS
                            d["M"] = set(sv["S"])
                    elif op == "inter":
                        self.destructive(d["state"], sv["S"] & suS, acting=d if keep else None)
                    else:
                        self.destructive(d["state"], set())
        elif op == "copy":
            v, v2 = int(w[1]), int(w[2])
            d = self.views.get(v)
            if d is not None and out == "ok":
                if d["state"][0] == "own":
                    self.states[("own", v2)] = dict(S=set(self.st(v)["S"]), ver=0, tainted=False)
                    self.views[v2] = dict(d, state=("own", v2), M=set(d["M"]))
                else:
                    self.views[v2] = dict(d, M=set(d["M"]))
                created = v2
                if v in vr and v2 in vr and vr[v] != vr[v2]:
                    self.fail("copy-differs", "copy is observably different from its source", i)
        elif op == "ser":
            v, m = int(w[1]), int(w[2])
            d = self.views.get(v)
            if d is not None and out == "ok":
                stv = self.st(v)
                ok = d["promised"] and not stv["tainted"] and (d["state"][0] == "own" or d["sync"] == stv["ver"])
                self.states[("mem", m)] = dict(S=set(d["M"]) if ok else set(), ver=0, tainted=not ok)
                if v in vr and m in br and vr[v]["img"] != br[m]:
                    self.fail("serialize-variants-differ", "stream and byte serializations differ", i)
        elif op in ("deser", "wrap", "wwrap"):
            m, v = int(w[1]), int(w[2])
            key = ("mem", m)
            s = self.states.get(key)
            if s is not None and m in br:
                img = br[m]
                if op == "wwrap" and len(img) >= 8 and img[0] in (3, 4) and img[1] == 1 and img[2] == 21 and (img[3] & 4) and out != "throw":
                    self.fail("empty-image-wrapped-for-writing", "writable_wrap of an empty image returned %s" % out, i)
                if out == "ok" and v in vr:
                    r = vr[v]
                    if r["wrapped"]:
                        self.views[v] = dict(state=key, M=set(s["S"]), promised=not s["tainted"], sync=s["ver"], ro=r["ro"])
                    else:
                        self.states[("own", v)] = dict(S=set(s["S"]), ver=0, tainted=False)
                        self.views[v] = dict(state=("own", v), M=set(s["S"]), promised=not s["tainted"], sync=0, ro=False)
                    if op == "wrap" and r["wrapped"] and not r["ro"]:
                        self.fail("wrap-not-read-only", "wrap() returned a writable view", i)
                    created = v
        elif op == "drop":
            self.views.pop(int(w[1]), None)
        # ---- the ghost as a line (compared with the Lean promise ghost, `dsmodel_bloom bloomghost`)
        g = "G"
        for v in sorted(self.views):
            d = self.views[v]
            st = self.states[d["state"]]
            ins = d["state"][0] == "own" or (not st["tainted"] and d["sync"] == st["ver"])
            g += " g%d=%d%d:%s" % (v, d["promised"], ins, "".join(
                "1" if (c is not None and d["promised"] and c in d["M"]) else "0" for c in self.ucanon))
        self.ghost[i] = g
        # ---- the property on every live view
        for v, d in self.views.items():
            r = vr.get(v)
            if r is None or not d["promised"] or not d["M"]:
                continue
            if len(r["q"]) != len(self.univ):
                continue
            miss = [j for j, c in enumerate(self.ucanon) if c is not None and c in d["M"] and r["q"][j] != "1"]
            if miss:
                t, x = self.univ[miss[0]]
                if op in ("deser", "wrap", "wwrap") and created == v:
                    key = "false-negative-after-rewrap"
                    what = ("item %s %s inserted through a memory-backed filter is reported absent by a fresh %s of that memory "
                            "(stored count is stale: %s)" % (t, x, op, "header says 0 bits set" if r["empty"] else "view not empty"))
                elif op == "qau" and int(w[1]) == v:
                    key = "false-negative-after-qau-on-dirty"
                    what = "item %s %s is reported absent by the filter it was inserted into, right after query_and_update (is_empty()=%d)" % (t, x, r["empty"])
                else:
                    key = "false-negative-after-" + op
                    what = "item %s %s inserted earlier is reported absent by view %d (is_empty()=%d)" % (t, x, v, r["empty"])
                self.fail(key, what, i)
                # report once per view: this view (and an owned state) lost its promises
                d["M"] = set()
                if d["state"][0] == "own":
                    self.states[d["state"]]["S"] = set()


class Main(Part):
    name = "main"
    harness = "bloom_h"
    model_exe = "dsmodel_bloom"
    # C15_MODEL_FIXED=1: compare against the model with the three proposed repairs switched on (used to validate
    # proposed_fixes/C15-*.patch on a patched scratch tree; never set for the real check)
    family = "bloom" if os.environ.get("C15_MODEL_ASCODED") else "bloomfixed"   # /repo carries the four fix: commits
    timeout = 120

    def generate(self, rng, tier):
        n = 220 if tier == "quick" else 2500
        hs = []
        for i in range(n):
            r = rng.random()
            if r < 0.12:
                hs.append(gen_malformed(rng))
            else:
                hs.append(gen_history(rng, tier, focus="memory" if r < 0.45 else "setops" if r < 0.6 else None))
        return hs

    def oracle(self, hist, impl_out):
        o = Oracle(hist, impl_out)
        bad = o.run()
        # the oracle's book-keeping must be the promise ghost of the Lean statements (DSModel/Bloom/Promise.lean):
        # compared line by line up to the first reported failure (after which the oracle deliberately forgets)
        if o.ghost and not any(k == "bad-observation" for k, _, _ in bad):
            stop = min([idx for _, _, idx in bad] + [len(hist)])
            try:
                mo, moc, _ = core.run_model(self.model_exe, "bloomghost" if os.environ.get("C15_MODEL_ASCODED") else "bloomghostfixed", hist)
            except Exception:
                mo, moc = [], "error"
            if moc == "ok":
                for i in sorted(o.ghost):
                    if i > stop or i >= len(mo):
                        break
                    if core.norm(mo[i]) != core.norm(o.ghost[i]):
                        bad.append(("oracle-ghost-divergence", "python oracle %r vs Lean promise ghost %r" % (o.ghost[i][:120], mo[i][:120]), i))
                        break
        return bad

    def nontrivial_key(self, hist, impl_out):
        kinds = {}
        for l, o in zip(hist, impl_out):
            op = l.split()[0]
            res = o.split("|")[0].strip()
            if res not in ("throw", "noview", "noblk"):
                kinds[op] = kinds.get(op, 0) + 1
        rewrap = kinds.get("wrap", 0) + kinds.get("wwrap", 0) + kinds.get("deser", 0)
        setops = kinds.get("union", 0) + kinds.get("inter", 0) + kinds.get("invert", 0)
        if kinds.get("upd", 0) + kinds.get("qau", 0) < 3 or (rewrap == 0 and setops == 0):
            return None
        return (hist[1] if len(hist) > 1 else "", tuple(sorted(kinds.items())), impl_out[-1][-64:] if impl_out else "")


class HashPart(Part):
    name = "hash"
    harness = "bloom_h"
    harness_args = ("hash",)
    model_exe = "dsmodel_bloom"
    family = "hash"

    def generate(self, rng, tier):
        h = ["xx %s %d" % k for k in KAT]
        reps = 4 if tier == "quick" else 40
        for n in list(range(0, 65)) + [95, 96, 97, 127, 128, 129, 255, 256, 257]:
            for _ in range(reps):
                b = "".join("%02x" % rng.randrange(256) for _ in range(n)) or "-"
                seed = rng.choice(SEEDS) if rng.random() < 0.4 else rng.randrange(2**64)
                h.append("xx %s %d" % (b, seed))
        for _ in range(600 if tier == "quick" else 6000):
            ty, lit = gen.rand_input(rng, rng.choice([16, 300, 70000]))
            seed = rng.choice(SEEDS) if rng.random() < 0.5 else rng.randrange(2**64)
            h.append("hash %s %s %d" % (ty, lit, seed))
        # split into a few histories
        k = 400
        return [h[i:i + k] for i in range(0, len(h), k)]

    def oracle(self, hist, impl_out):
        bad = []
        seen = {}
        for i, (l, o) in enumerate(zip(hist, impl_out)):
            w = l.split()
            if w[0] == "xx" and (w[1], int(w[2])) in KAT and o.split()[-1] != KAT[(w[1], int(w[2]))]:
                bad.append(("xxhash-known-answer", "XXH64(%s, seed %s) = %s, published %s" % (w[1], w[2], o, KAT[(w[1], int(w[2]))]), i))
            if w[0] == "hash":
                # items with the same canonical bytes and seed must set the same bits (and ignored items none)
                c = canon(w[1], w[2])
                if c is None:
                    if o.strip() != "H ignored":
                        bad.append(("ignored-item-not-ignored", l, i))
                else:
                    k = (c, w[3])
                    if k in seen and seen[k] != o:
                        bad.append(("same-bytes-different-bits", l, i))
                    seen[k] = o
        return bad

    def nontrivial_key(self, hist, impl_out):
        return None


class SuggPart(Part):
    name = "sugg"
    harness = "bloom_h"
    harness_args = ("sugg",)
    model_exe = "dsmodel_bloom"
    family = "sugg"

    def generate(self, rng, tier):
        h = []
        for _ in range(300 if tier == "quick" else 3000):
            n = rng.choice([0, 1, 2, 10, 1000, 10**6, rng.randrange(1, 10**7)])
            p = rng.choice([0.5, 0.1, 0.01, 1e-3, 1e-9, 0.999, 1.0, 0.0, -0.5, 1.5, rng.random(), 10 ** (-20 * rng.random())])
            r = rng.random()
            if r < 0.4:
                h.append("bits %d %s" % (n, gen.f64hex(p)))
            elif r < 0.7:
                h.append("hp %s" % gen.f64hex(p))
            else:
                bits = rng.choice([0, 1, 64, 1000, 17179868920, 17179868921, rng.randrange(1, 10**6)])
                if n and bits and bits <= 17179868920 and bits / n * 0.7 > 65000:
                    continue        # double -> uint16 conversion out of range is undefined behaviour in the code; not generated
                h.append("hnb %d %d" % (n, bits))
        return [h]


class EdgePart(Part):
    """liveness edge: only the regress corpus (num_hashes = 65535), short watchdog, implementation only."""
    name = "edge"
    harness = "bloom_h"
    model_exe = None
    compare_model = False
    timeout = 30

    def generate(self, rng, tier):
        return []

    def search_histories(self, rng, tier, around=None):
        return []

    def oracle(self, hist, impl_out):
        if impl_out and impl_out[-1].strip() == "hang":
            i = len(impl_out) - 1
            k = [l.split()[3] for l in hist if l.startswith("new ")]
            key = "hang-num-hashes-65535" if "65535" in k else "hang"
            return [(key, "operation `%s` did not return within the watchdog (filter with num_hashes = %s)" % (hist[min(i, len(hist) - 1)], ",".join(k)), i)]
        return []


class C15(Spec):
    pid = "C15"
    props_modules = ["DSProofs.Props.C15"]
    tfamilies = ["bloom"]
    rule = ("histories of 12-60 (thorough: 25-120) operations over up to 8 live filters and any number of caller blocks: sizes 1..257 bits "
            "(boundary sizes around multiples of 64 preferred), 1..7 hashes, seeds {0,1,7,9001,2^63,2^64-1,random}, owned and "
            "initialize_by_* filters, update/query_and_update of all 12 overloads over a 24-30 item universe with cross-type aliases, "
            "interleaved with get_bits_used, wrap, writable_wrap, serialize (both variants), deserialize (both variants), copy, union, "
            "intersect, invert, reset, re-initialisation of a block, foreign well-formed images; plus a malformed stream (one header field "
            "corrupted / truncated). A history is non-trivial when >= 3 insertions succeeded and at least one re-wrap/deserialize or "
            "set operation succeeded; distinct = distinct (first config, succeeded-op histogram, final observation tail)")
    trusted_base = ["Lean 4.33 kernel", "axioms: propext, Quot.sound, Classical.choice",
                    "DSModel/XXHash64.lean is the published XXH64 (hand transcription; tied to xxhash64.h on all lengths 0..64+ and 4 published known answers)",
                    "correspondence harness harness/bloom_h.cpp + generators (sampled histories; public const API observations on every live view + raw bytes of caller blocks)",
                    "memory blocks are modelled as byte strings owned by the history; C++ object lifetime/aliasing outside this store is not modelled"]
    assumptions = ["theorems are about DSModel/Bloom/Model.lean; the tie to bloom_filter_impl.hpp / bit_array_ops.hpp is differential (sampled)",
                   "promises about a caller block hold under single-writer discipline (a write through a view whose cached count is stale voids them); "
                   "the Python oracle's book-keeping is compared line by line with the Lean promise ghost (dsmodel_bloom bloomghost) on every history",
                   "repaired-model theorems are for histories whose filters stay below 2^32 bits (the readers' 32-bit `num_longs << 6` wraps above that; "
                   "MAX_FILTER_SIZE_BITS is ~2^34: not executable here, noted in the report)",
                   "images on which the reader would run past the buffer or divide by zero (C11's subject) are outside the modelled domain and not generated",
                   "false-positive rate near the target: statistical, not decided here (DESIGN.md section 5)"]

    def parts(self):
        return [Main(), HashPart(), SuggPart(), EdgePart()]

    def extra_stages(self, rep, tier, rng, broken):
        """translator tie: the constants tools/trules/bloom.py generated == the values in the compiled headers."""
        import re
        exe = core.harness_exe("bloom_h")
        gen_file = os.path.join(core.LEAN, "DSGen", "Bloom.lean")
        if not (os.path.exists(exe) and os.path.exists(gen_file)):
            return
        rc, out = core.sh([exe, "consts"], timeout=30, env=core.ASAN_ENV)
        compiled = dict(l.split() for l in out.splitlines() if len(l.split()) == 2)
        generated = dict(re.findall(r"^def (\w+) : Nat := (\d+)", open(gen_file).read(), flags=re.M))
        diff = sorted(k for k in set(compiled) | set(generated) if compiled.get(k) != generated.get(k))
        rep.cov["translator_constants_checked"] = len(generated)
        if rc != 0 or diff:
            broken.append(("translator", "tools/trules/bloom.py", "generated != compiled for %s (compiled %s, generated %s)" % (
                diff, {k: compiled.get(k) for k in diff}, {k: generated.get(k) for k in diff})))


SPEC = C15()

CLAIM = dict(
    text=("Kernel-checked theorems over ALL histories (any number of filters and caller-memory blocks, any sizes / hash counts / seeds, "
          "ANY hash function, every wire-compatible layout) of an executable Lean model of bloom_filter with an explicit memory store. "
          "Proved for the repaired code that /repo now carries (bloom_no_false_negative_fixed, bloom_qau_prior_fixed, bloom_refusals_fixed; an "
          "invariant preserved by every operation): every item ever inserted into a bit state is reported present by that filter, by every "
          "copy, by deserialize(serialize f), by every later wrap / writable_wrap of the same memory and by every union with a compatible "
          "filter; query_and_update returns exactly query evaluated before the call; union/intersect/invert are bitwise OR/AND/NOT on the "
          "capacity bits (always a multiple of 64) with bits_used = popcount and the count written through (bloom_setops_bitwise); incompatible "
          "operands and every write through a read-only view are refused. The same statements restricted to what the PINNED code guaranteed "
          "(…_partial) and kernel-evaluated refutations of the full statements for the pinned code with the real XXHash64 (…_full_false: "
          "stale stored count after update() through caller memory = D13; stale count after query_and_update on a dirty filter; set operations "
          "through read-only wraps) are kept; those witnesses are replayed on the real code every run (corpus/regress/C15). Plus a "
          "differential tie of the model, of the Lean XXHash64 (all lengths 0..64+, 4 published known answers) and of the per-overload "
          "canonicalisation to the real headers on generated histories, the property oracle (inserted-set bookkeeping per bit state and "
          "view, itself compared with the Lean promise ghost) on every implementation trace, and a watchdog replay of num_hashes=65535."),
    note=("Four genuine defects found by this check were repaired in /repo (fix: commits 4ed723a dirty marker not written through, 3f07d58 "
          "query_and_update on a dirty filter, e537a01 set operations through read-only wraps, 4a8ad39 uint16_t hash-loop counter; "
          "known_findings.json: fixed). The model executed against the code is the repaired variant (`bloomfixed`). "
          "The shape of the readers (deserialize / wrap / writable_wrap) is read from the current headers by the translator "
          "(bloom_READER_STRICT): pinned readers = inputs that run past the buffer or give a zero capacity are outside the modelled "
          "domain and not generated (C11); validated readers = those inputs are refusals, modelled, generated and covered by "
          "bloom_readers_current; any third shape is a translation failure. All theorems hold for both shapes. "
          "Not decided: 'false-positive rate stays near the target' (statistical). Not modelled: move construction/assignment and "
          "allocator behaviour (C19); the repaired-model theorems are for filters below 2^32 bits. Promises about caller memory "
          "assume single-writer discipline."),
    technique="Lean 4 invariant proofs over operation histories with a memory store + differential correspondence (model vs real headers) + trace oracle",
    design="DESIGN.md §3 C15")

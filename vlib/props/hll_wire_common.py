"""Shared machinery of the HLL wire group (C09 / C10 / C11): state recipes, line parsers, two-phase model tie.

Harness: harness/wire_hll_h.cpp (real hll_sketch / hll_union objects).  Model: dsmodel_wire_hll (Lean specification
reader, constants from the current headers).  Two-phase: the model decodes the images the implementation wrote.
"""
import os, re
from .. import core
from ..runner import Part

HIGH = [
    (14441, 9341505, 15), (17853, 31996963, 15), (24321, 21240029, 18), (28438, 32499092, 15), (64359, 48347311, 16),
    (79910, 57573996, 15), (109103, 65054773, 15), (117606, 53226410, 15), (127752, 14586757, 15),
    (156037, 33710396, 18), (157230, 3482549, 18), (179075, 12722147, 15), (208915, 21153266, 15),
    (209978, 6405803, 15), (210895, 50297812, 15), (221435, 7272511, 15), (221902, 59259758, 15),
    (232582, 23660547, 19), (242480, 16967072, 15), (269257, 6728412, 18), (329192, 9484841, 17),
    (342162, 57069059, 15), (350203, 54705151, 16), (366386, 11003938, 16), (380085, 53808871, 15),
    (392317, 66792347, 16), (449076, 8039661, 15), (457894, 55976683, 15), (460321, 51856102, 16),
    (469716, 425477, 16), (477116, 43941603, 17), (503824, 26434724, 22), (525232, 66181288, 18),
    (566526, 8831255, 16), (581130, 27279521, 15), (593085, 44519281, 15), (611779, 32529306, 15),
    (623817, 43594597, 15), (631457, 1015178, 15), (646574, 38238874, 16), (665883, 58706261, 15),
    (683313, 23155636, 17), (706644, 4928326, 15), (715732, 38857961, 15), (770563, 40851677, 16),
    (774034, 51250786, 16), (783936, 64344880, 15), (784497, 37977330, 15), (792127, 26839928, 16),
    (793580, 21247276, 18), (803624, 6562640, 19), (805951, 12111217, 17), (806253, 55481946, 18),
    (806324, 31899955, 17), (835574, 63696785, 15), (859472, 972551, 16), (867248, 17896553, 15),
    (870947, 47813899, 15), (875191, 29416741, 15), (883175, 63074985, 17), (905843, 31282692, 15),
    (916640, 63163255, 15), (939399, 59554111, 15), (959487, 54196110, 15), (959535, 16296341, 17),
    (969309, 58500842, 15), (972370, 15364931, 16), (983263, 24814387, 15), (1004990, 35570584, 21),
    (1028509, 59116554, 15), (1089200, 61640501, 17), (1127075, 33548492, 19), (1135930, 43751535, 15),
    (1141870, 19585732, 15), (1147274, 44879956, 16), (1151835, 39853995, 15), (1161934, 30950725, 16),
    (1184912, 37529450, 19), (1205852, 54858874, 15), (1206002, 10677917, 17), (1207958, 28200126, 16),
    (1209323, 59124633, 16), (1221528, 32073233, 15), (1235760, 44897159, 15), (1260206, 50143190, 16),
    (1274965, 53718552, 18), (1279384, 40628935, 15), (1282378, 34854300, 15), (1287753, 42117170, 17),
    (1295706, 4322173, 15), (1301976, 55328281, 16), (1309671, 21798595, 18), (1310717, 13842342, 15),
    (1341557, 52996945, 15), (1347222, 35747072, 15), (1355272, 23244626, 17), (1367747, 34600498, 15),
    (1388173, 35434270, 15), (1409161, 17183685, 15), (1413086, 40536292, 16), (1428409, 63176304, 20),
    (1468587, 36640478, 16), (1472138, 45069499, 15), (1509021, 29339349, 15), (1530819, 55626453, 15),
    (1532135, 29519868, 17), (1538657, 27861313, 18), (1556166, 51114183, 15), (1561787, 37744556, 15),
    (1569088, 54739637, 16), (1583251, 22154225, 15), (1583424, 5494544, 15), (1590461, 25048026, 18),
    (1593600, 62397148, 15), (1607057, 4795944, 15), (1621666, 30384759, 16), (1636844, 22493350, 16),
    (1704911, 16118836, 15), (1775288, 5708109, 16), (1789129, 65961362, 15), (1820242, 57829027, 16),
    (1839854, 14711208, 19), (1856524, 15367850, 17), (1891958, 5896445, 15), (1907479, 15825932, 15),
    (1933751, 52182498, 17), (2016328, 63221672, 18), (2041692, 39900908, 15), (2045849, 55666768, 15),
    (2048382, 64639750, 22), (2080276, 60134572, 15), (2082424, 17924474, 16), (2091750, 31725280, 17),
    (2094792, 51135976, 15), (2116387, 54473180, 15), (2123009, 45409329, 16), (2133043, 66681980, 15),
    (2144141, 57878300, 26), (2147207, 16852633, 16), (2151417, 20474811, 17), (2177966, 58643396, 15),
    (2200226, 27957308, 15), (2207304, 66348445, 15), (2262498, 59281892, 18), (2276222, 40902635, 18),
    (2286086, 4830695, 18), (2306634, 21605485, 19), (2342347, 53766210, 16), (2372364, 14533517, 17),
    (2410828, 24333620, 15), (2435912, 50325753, 15), (2437500, 46633517, 21), (2469717, 1162563, 15),
    (2499619, 11047632, 16), (2513357, 61333812, 15), (2527147, 53232924, 16), (2527764, 41661241, 16),
    (2537399, 13900264, 15), (2555677, 34598541, 15), (2561626, 19731941, 21), (2566033, 23342990, 16),
    (2583271, 9084296, 16), (2595034, 64422941, 15), (2595740, 50644146, 18), (2603628, 19707656, 15),
    (2614250, 34845691, 17), (2616298, 34230631, 17), (2627296, 46094673, 15), (2642091, 12193585, 17),
    (2646162, 5607953, 15), (2663619, 57837391, 15), (2672880, 13289934, 16), (2686356, 15030486, 15),
    (2686406, 12954909, 15), (2695716, 6111445, 16), (2715171, 53579747, 15), (2747375, 21313029, 17),
    (2778712, 5186892, 15), (2793668, 1339482, 15), (2816817, 53102913, 15), (2847901, 55771332, 15),
    (2853394, 63722371, 17), (2883768, 65690301, 15), (2888265, 40048956, 15), (2888910, 61312975, 15),
    (2943150, 18528499, 15), (2951164, 27531774, 17), (2974067, 5864146, 17), (3029831, 15348686, 15),
    (3037198, 30798910, 17), (3045428, 24923451, 15), (3053779, 3839165, 16), (3056105, 42899534, 16),
    (3061841, 36902398, 17), (3081563, 473622, 15), (3084095, 47756183, 17), (3086969, 28157277, 17),
    (3105327, 47536555, 15), (3106829, 42399102, 15), (3107617, 65125368, 16), (3107730, 15880125, 16),
    (3111794, 51868763, 16), (3126300, 65734137, 15), (3143310, 6840717, 15), (3173424, 16639020, 16),
    (3181610, 24733590, 16), (3190665, 32851578, 19), (3234246, 14347989, 17), (3271946, 22314542, 16),
    (3292280, 55871123, 15), (3302849, 45314820, 16), (3315016, 20244803, 17), (3328584, 48928759, 16),
    (3331653, 40665016, 20), (3345468, 10978572, 15), (3374176, 55477137, 15), (3416434, 61974309, 15),
    (3448831, 1121632, 16), (3494637, 58530811, 17), (3494723, 23408090, 15), (3510336, 33207984, 16),
    (3511446, 62735721, 18), (3513423, 59808771, 15), (3517312, 34183926, 15), (3525561, 53318682, 15),
    (3531814, 16813020, 15), (3563147, 26257864, 18), (3565498, 1851366, 15), (3576171, 28530926, 18),
    (3626710, 37439488, 15), (3645994, 53074952, 16), (3656959, 47748549, 15), (3680630, 47053542, 17),
    (3683000, 65280783, 16), (3719589, 308565, 15), (3733676, 57530565, 15), (3742348, 35860461, 16),
    (3744222, 19901353, 16), (3753676, 11329158, 15), (3810060, 66277085, 16), (3822695, 2484216, 15),
    (3822725, 29136467, 16), (3827159, 26148662, 15), (3832842, 14541573, 15), (3869966, 37527443, 15),
    (3870582, 39765667, 17), (3871168, 35549324, 15), (3886447, 39116315, 17), (3903023, 41449510, 16),
    (3923321, 5963381, 16), (3925764, 62836460, 15), (3954424, 35015055, 15), (3969752, 60320991, 16),
    (3990748, 60544275, 21), (4007383, 62477321, 15), (4012145, 14853765, 15), (4015684, 62535266, 16),
    (4021393, 57791974, 15), (4028550, 22125749, 16), (4053654, 42092496, 16), (4054714, 41448561, 15),
    (4068585, 34112105, 15), (4080202, 33223388, 16), (4110159, 17890411, 15), (4124621, 30199041, 15),
    (4128905, 5725383, 16), (4134686, 58991227, 16), (4155323, 60525994, 15), (4173570, 17207318, 15),
    (4214088, 53128740, 15), (4214543, 36603143, 15), (4221019, 14763438, 18), (4247962, 4231930, 16),
    (4316001, 31793619, 18), (4326275, 23028881, 15), (4327274, 6139605, 15), (4331870, 48991805, 15),
    (4357303, 60037549, 15), (4358820, 64914009, 21), (4405685, 21872306, 16), (4409788, 26937548, 15),
    (4414320, 62545024, 16), (4452323, 33135336, 17), (4463656, 64221605, 15), (4511760, 61401465, 15),
    (4511897, 36416996, 16), (4524320, 10896434, 15), (4541102, 2072569, 18), (4546387, 27071771, 15),
    (4582819, 58445223, 15), (4598587, 11011371, 16), (4628985, 49221109, 16), (4640588, 59443899, 15),
    (4641766, 20791447, 15), (4648884, 29098665, 17), (4649703, 39670989, 15), (4660616, 13793442, 15),
    (4677814, 25158827, 17), (4694812, 7112952, 15), (4713075, 4848347, 16), (4875311, 34376037, 19),
    (4877154, 29716347, 19), (5442979, 13365697, 19), (5456184, 66606536, 19), (5520491, 8560929, 21),
    (6546256, 11390872, 20), (6741225, 57425064, 20), (6977022, 27929230, 19), (7152214, 27551188, 20),
    (8063715, 65951122, 19), (8123649, 28052939, 19), (8270958, 22054822, 19), (8290092, 60602493, 19),
    (8745109, 23342008, 19), (8947008, 45691841, 19), (9410086, 65304488, 22), (9875261, 25651250, 20),
    (9964100, 4622237, 19), (9972350, 24699141, 19), (10420454, 55081565, 20), (10837046, 3356510, 22),
    (11161760, 41509957, 20), (11524679, 7085642, 19), (11658925, 15280870, 19), (12273968, 61235632, 20),
    (12434612, 498667, 19), (12476211, 46221536, 19), (12790299, 31836994, 19), (13103219, 23421899, 19),
    (13292226, 13510621, 20), (13441882, 61235466, 19), (17058636, 31934531, 23), (18165071, 21973766, 23),
    (25301506, 57641467, 26), (27675803, 15014093, 24), (31869813, 4907379, 24), (32624741, 54981003, 24),
    (45660319, 53343096, 23),
]
# (n, addr26, value): pre-computed uint64 inputs n whose MurmurHash3 (seed 9001) second word has >= value-1 leading
# zeros, i.e. whose coupon value is `value` (>= 15: an HLL_4 exception while cur_min <= value-15); found once with the
# harness op `find`.  If hashing changes they merely stop producing exceptions (measured: `aux_images` in the evidence).

TYPES = [4, 6, 8]


def _distinct_slots(rng, lgk, k, minval):
    """k table entries with pairwise distinct register slot at this lg_k and coupon value >= minval"""
    pool = [r for r in HIGH if r[2] >= minval]
    rng.shuffle(pool)
    seen, out = set(), []
    for n, a, v in pool:
        s = a & ((1 << lgk) - 1)
        if s in seen:
            continue
        seen.add(s)
        out.append((n, a, v))
        if len(out) == k:
            break
    return out


def recipe(rng, tier, sid, cls, ids):
    """-> (op lines that leave a sketch in slot `sid`, label). `ids` = slots already holding sketches (for unions)."""
    big = tier != "quick"
    ty = rng.choice(TYPES)
    L = []
    if cls == "empty":
        lgk = rng.choice([4, 5, 7, 8, 10, 12] if not big else [4, 6, 8, 11, 12, 14, 21])
        L.append("new %d %d %d 0" % (sid, lgk, ty))
    elif cls == "list":
        lgk = rng.choice([4, 6, 7, 8, 9, 10, 12])
        k = rng.randrange(1, 8)
        L.append("new %d %d %d 0" % (sid, lgk, ty))
        s = rng.randrange(1 << 40)
        for i in range(k):
            L.append("upd %d %d" % (sid, s + i * rng.randrange(1, 1000)))
    elif cls == "set":
        lgk = rng.choice([8, 8, 9, 10] if not big else [8, 9, 10, 11, 12])
        cap = (3 * (1 << (lgk - 3))) // 4
        k = rng.choice([8, 9, 16, 24, 25, 26, cap - 1, cap, rng.randrange(8, cap + 1)])
        k = max(8, min(k, cap))
        L.append("new %d %d %d 0" % (sid, lgk, ty))
        L.append("updr %d %d %d" % (sid, rng.randrange(1 << 40), k))
    elif cls == "hll":
        lgk = rng.choice([4, 4, 5, 6, 7, 8, 9, 10] if not big else [4, 5, 6, 7, 8, 9, 10, 11, 12])
        n = rng.choice([40, 100, 300, 1000, 3000, 8000] if not big else [40, 200, 1000, 5000, 20000, 100000])
        if lgk >= 8:
            n = max(n, (3 * (1 << (lgk - 3))) // 4 + 2 + rng.randrange(50))
        L.append("new %d %d %d 0" % (sid, lgk, ty))
        L.append("updr %d %d %d" % (sid, rng.randrange(1 << 40), n))
    elif cls == "hll_aux":
        ty = 4
        lgk = rng.choice([4, 4, 5, 6, 7, 8])
        base = rng.choice([30, 60, 150]) if lgk < 8 else rng.choice([40, 100, 300])
        k = rng.choice([1, 2, 3, 4, 5, 7, 9])
        L.append("new %d %d %d 0" % (sid, lgk, ty))
        L.append("updr %d %d %d" % (sid, rng.randrange(1 << 40), base))
        for n, a, v in _distinct_slots(rng, lgk, k, rng.choice([15, 17, 19])):
            L.append("upd %d %d" % (sid, n))
        if rng.random() < 0.4:          # cur_min shifts after the exceptions exist (some stop being exceptions)
            L.append("updr %d %d %d" % (sid, rng.randrange(1 << 40), rng.choice([200, 1000, 4000])))
    elif cls == "full":
        lgk = rng.choice([4, 5, 8, 10])
        L.append("new %d %d %d 1" % (sid, lgk, ty))
        if rng.random() < 0.6:
            L.append("updr %d %d %d" % (sid, rng.randrange(1 << 40), rng.choice([1, 5, 50, 2000])))
    elif cls == "ooo":
        a, b = sid + 50, sid + 51
        lga, lgb = rng.choice([4, 5, 6, 8, 10]), rng.choice([4, 5, 6, 8, 10])
        L.append("new %d %d %d 0" % (a, lga, rng.choice(TYPES)))
        L.append("updr %d %d %d" % (a, rng.randrange(1 << 40), rng.choice([60, 300, 2000])))
        L.append("new %d %d %d 0" % (b, lgb, rng.choice(TYPES)))
        L.append("updr %d %d %d" % (b, rng.randrange(1 << 40), rng.choice([3, 20, 60, 300, 2000])))
        if lga >= 8:
            L[-3] = "updr %d %d %d" % (a, rng.randrange(1 << 40), 400 + rng.randrange(2000))
        lgmax = rng.choice([max(lga, lgb), max(lga, lgb), min(lga, lgb), 12])
        L.append("union %d %d %d %d %d" % (sid, lgmax, ty, a, b))
        if rng.random() < 0.3:
            L.append("updr %d %d %d" % (sid, rng.randrange(1 << 40), rng.choice([1, 30, 500])))
    elif cls == "reset":
        lgk = rng.choice([4, 8, 10])
        full = rng.randrange(2)
        L.append("new %d %d %d %d" % (sid, lgk, ty, full))
        L.append("updr %d %d %d" % (sid, rng.randrange(1 << 40), rng.choice([3, 30, 300])))
        L.append("reset %d" % sid)
        if rng.random() < 0.5:
            L.append("updr %d %d %d" % (sid, rng.randrange(1 << 40), rng.choice([1, 6, 40])))
    else:
        raise ValueError(cls)
    return L, cls


CLASSES = ["empty", "list", "set", "hll", "hll", "hll_aux", "hll_aux", "full", "ooo", "reset"]

# ---------------------------------------------------------------------------------------------- parsing

IMG_RE = re.compile(r"^IMG (\S+) (\S+) \| (.*?) \| (.*)$")


def parse_img(line):
    m = IMG_RE.match(line)
    if not m:
        return None
    kind, hx, content, checks = m.groups()
    ck = dict(t.split("=", 1) for t in checks.split() if "=" in t)
    return dict(kind=kind, hex=hx, content=content, checks=ck, size=0 if hx == "-" else len(hx) // 2)


def content_fields(content):
    return dict(t.split("=", 1) for t in content.split() if "=" in t)


def img_class(content):
    f = content_fields(content)
    m = f.get("mode")
    if m == "LIST":
        return "list"
    if m == "SET":
        return "set"
    return "hll" + f.get("type", "?")


def has_aux(img):
    """HLL_4 image with aux_count > 0 (bytes 36..39)"""
    b = bytes.fromhex(img["hex"]) if img["hex"] != "-" else b""
    return len(b) >= 40 and b[0] == 10 and ((b[7] >> 2) & 3) == 0 and int.from_bytes(b[36:40], "little") > 0


def rle_expand(s):
    if s == "-" or not s:
        return []
    out = []
    for tok in s.split(","):
        v, n = tok.rsplit("*", 1)
        out += [v] * int(n)
    return out


def parse_model_img(line):
    """D <content> | reenc= size= len= core= cflag= perm=   ->  dict or None (REJECT / garbage)"""
    if not line.startswith("D "):
        return None
    try:
        content, rest = line[2:].split(" | ", 1)
    except ValueError:
        return None
    f = dict(t.split("=", 1) for t in rest.split() if "=" in t)
    f["content"] = content
    return f


class WirePart(Part):
    """Two-phase part: harness lines IMG/PFX/COR are re-fed to the Lean reader."""
    name = "hll"
    harness = "wire_hll_h"
    model_exe = "dsmodel_wire_hll"
    family = "hll"
    timeout = 600

    def model_lines(self, hist, impl_out):
        out = []
        for l in impl_out:
            w = l.split()
            if w and w[0] in ("IMG", "PFX", "COR") and len(w) >= 3:
                out.append("%s %s %s" % (w[0], w[1], w[2]))
            else:
                out.append("NOP")
        return out

    def expected_model_out(self, hist, impl_out):
        """what the model must print, as far as the implementation's line determines it (for reports; `diff` decides)"""
        out = []
        for l in impl_out:
            im = parse_img(l)
            if im:
                out.append("D %s | reenc=1 size=%d len=%d cflag=%d" % (im["content"], im["size"], im["size"], 1 if im["kind"] == "compact" else 0))
            elif l.startswith("PFX "):
                out.append("P <T where the lenient spec reader rejects; A= only where it accepts>")
            elif l.startswith("COR "):
                out.append("K <recorded, not compared>")
            else:
                out.append("-")
        return out

    def line_ok(self, il, ml):
        """does the model line `ml` agree with the implementation line `il`?"""
        im = parse_img(il)
        if im:
            d = parse_model_img(ml)
            if d is None:
                return False
            if d["content"] != im["content"] or d.get("reenc") != "1":
                return False
            if d.get("size") != str(im["size"]) or d.get("len") != str(im["size"]):
                return False
            if d.get("cflag") != ("1" if im["kind"] == "compact" else "0"):
                return False
            # documented table-order freedom: the implementation may permute exactly the range the model names
            po, pn = (d.get("perm", "0:0").split(":") + ["0"])[:2]
            for key in ("reser", "resers"):
                v = im["checks"].get(key, "-")
                if v.startswith("perm@"):
                    if int(pn) == 0 or v != "perm@" + po:
                        return False
            return True
        if il.startswith("PFX "):
            if not ml.startswith("P "):
                return False
            f = dict(t.split("=", 1) for t in ml.split()[1:] if "=" in t)
            strict, corev = rle_expand(f.get("strict", "-")), rle_expand(f.get("core", "-"))
            try:
                tail = il.split(" | ", 1)[1]
            except IndexError:
                return False
            g = dict(t.split("=", 1) for t in tail.split() if "=" in t)
            for path in ("bytes", "stream"):
                got = rle_expand(g.get(path, "-"))
                if len(got) != len(corev) or len(strict) != len(corev):
                    return False
                for n, (o, cv, sv) in enumerate(zip(got, corev, strict)):
                    if sv != "R":
                        return False            # the strict spec reader accepts a strict prefix: model broken
                    if cv == "R" and o != "T":
                        if o.startswith("A"):
                            return False        # implementation accepts where even the lenient spec reader rejects
                        # safety outcomes are reported by the oracle, not as a correspondence failure
                    if cv == "A" and o not in ("T", "A="):
                        if o.startswith("A"):
                            return False
                    if cv == "B":
                        return False
            return True
        if il.startswith("COR "):
            return ml.startswith("K ")
        return ml.strip() == "-"

    def diff(self, hist, impl_out, model_out):
        n = max(len(impl_out), len(model_out))
        for i in range(n):
            if i >= len(impl_out) or i >= len(model_out):
                return i
            if not self.line_ok(impl_out[i], model_out[i]):
                return i
        return None


def corpus_lines():
    """committed baseline corpus: [(kind, hex, content)]"""
    d = os.path.join(core.ROOT, "corpus", "baseline", "hll")
    res = []
    if os.path.isdir(d):
        for f in sorted(os.listdir(d)):
            if not f.endswith(".txt"):
                continue
            for l in open(os.path.join(d, f)):
                m = re.match(r"^IMG (\S+) (\S+) \| (.*?)\s*$", l)
                if m:
                    res.append(m.groups())
    return res

"""C08 — combined over family parts (built separately: c08kll, c08req, c08quant)."""
from ..combine import combined_spec

SPEC = combined_spec("C08", ['c08kll', 'c08req', 'c08quant'], "C08")
CLAIM_TEXT = ('Quantile sketches are unbiased over their own randomness: kernel-checked theorems that the number of coin flips and all result shapes depend only on operand shapes, every compaction is balanced, and the sum over ALL 2^F coin vectors of the weight below any y equals 2^F times the true count, for every history / merge tree (KLL, classic quantiles; REQ under the stated coin-provenance condition, with the refuted full statement kept as a witness); the implementation is tied by enumerating whole coin trees through the hooked random source and comparing every leaf with the model. '
              + "Parts: " + " ".join(SPEC.claim_texts))
CLAIM = dict(text=CLAIM_TEXT,
             note='Statistical closeness to the published error bound is not decided (only the formula is tied); fairness of the real random_bit engine is assumed.',
             technique='Lean 4 proofs over complete coin trees (sum over all coin vectors) + exhaustive coin-tree enumeration on the real code via the random-source hook',
             design='DESIGN.md §3 C08')

"""C08 — combined over the three quantile sketch kinds (parts built separately: c08kll, c08req, c08quant)."""
from ..combine import combined_spec

SPEC = combined_spec("C08", ["c08kll", "c08req", "c08quant"], "C08")
